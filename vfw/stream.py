"""E2 - owning the random stream.

``Stream`` replaces the numpy.random module functions CUQIpy draws through (looked up at call
time) and offers a RandomState subclass for code that takes an ``rng``.  Normal / gamma /
exponential requests are answered from a script; uniform draws are *symbolic* (``SymU``): the
only supported uses are ``np.log(u)`` and order comparisons with a real number, each comparison
being a decision point whose exact probability is read off the threshold the implementation
compares with.  ``explore`` enumerates the complete decision tree (optionally deviation bounded).
"""
import contextlib
import numpy as np
from vfw.core import HarnessError


class UnownedRandomness(HarnessError):
    pass


class UnsupportedUniformUse(HarnessError):
    pass


class ScriptExhausted(HarnessError):
    pass


# ----------------------------------------------------------------------------------------
# decision-tree exploration
# ----------------------------------------------------------------------------------------
class Decisions:
    """One execution's view of the decision tree: follows ``prefix`` then the default branch."""

    def __init__(self, prefix=()):
        self.prefix = list(prefix)
        self.points = []      # (p_true, chosen, info)

    def decide(self, p_true, info=None):
        p_true = float(p_true)
        if not (0.0 <= p_true <= 1.0):
            raise HarnessError("branch probability outside [0,1]: %r" % p_true)
        i = len(self.points)
        if p_true <= 0.0:
            choice = False
        elif p_true >= 1.0:
            choice = True
        elif i < len(self.prefix) and self.prefix[i] is not None:
            choice = bool(self.prefix[i])
        else:
            choice = True      # default environment answer: "the comparison holds" (= accept)
        self.points.append((p_true, choice, info))
        return choice

    @property
    def choices(self):
        return [c for (_, c, _) in self.points]

    @property
    def prob(self):
        pr = 1.0
        for p, c, _ in self.points:
            pr *= p if c else (1.0 - p)
        return pr

    def deviations(self):
        return sum(1 for p, c, _ in self.points if 0.0 < p < 1.0 and not c)


def explore(run, max_deviations=None, max_leaves=200000):
    """Stateless DFS over all decision sequences of ``run(decisions) -> observation``.

    Returns the list of leaves ``(decisions, observation)``.  Every leaf is a complete execution
    on the real code.  Prefix replay divergence (a decision point whose forced prefix no longer
    lines up) is a HarnessError.
    """
    leaves = []
    stack = [[]]
    while stack:
        prefix = stack.pop()
        d = Decisions(prefix)
        obs = run(d)
        if len(d.points) < len(prefix):
            raise HarnessError("replay divergence: prefix longer than execution")
        for i, want in enumerate(prefix):
            p, c, _ = d.points[i]
            if 0.0 < p < 1.0 and want is not None and c != bool(want):
                raise HarnessError("replay divergence at decision %d" % i)
        leaves.append((d, obs))
        if len(leaves) > max_leaves:
            raise HarnessError("decision tree larger than max_leaves=%d" % max_leaves)
        for i in range(len(prefix), len(d.points)):
            p, c, _ = d.points[i]
            if 0.0 < p < 1.0:
                alt = d.choices[:i] + [not c]
                devs = sum(1 for j, (pj, _, _) in enumerate(d.points[:i + 1])
                           if 0.0 < pj < 1.0 and not alt[j])
                if max_deviations is None or devs <= max_deviations:
                    stack.append(alt)
    return leaves


# ----------------------------------------------------------------------------------------
# the symbolic uniform
# ----------------------------------------------------------------------------------------
class SymU:
    """A uniform(0,1) draw (kind 'u') or its logarithm (kind 'log') whose value is never fixed."""
    __array_priority__ = 1000

    def __init__(self, stream, kind="u", lo=0.0, hi=1.0):
        self._stream = stream
        self._kind = kind
        self._lo, self._hi = lo, hi    # uniform(lo, hi)

    # probability that U(lo,hi) <= t   /   log U <= t
    def _cdf(self, t):
        t = _real(t)
        if t != t:
            return None  # NaN: every comparison is False
        if self._kind == "log":
            if self._lo != 0.0 or self._hi != 1.0:
                raise UnsupportedUniformUse("log of a non-standard uniform")
            return 1.0 if t >= 0 else float(np.exp(t))
        return float(min(1.0, max(0.0, (t - self._lo) / (self._hi - self._lo))))

    def _cmp(self, t, less):
        c = self._cdf(t)
        if c is None:
            return self._stream.decisions.decide(0.0, ("nan-compare", self._kind))
        p = c if less else 1.0 - c
        return self._stream.decisions.decide(p, (self._kind, "<=" if less else ">", _real(t)))

    def __le__(self, t):
        return self._cmp(t, True)

    def __lt__(self, t):
        return self._cmp(t, True)

    def __ge__(self, t):
        return self._cmp(t, False)

    def __gt__(self, t):
        return self._cmp(t, False)

    def __array_ufunc__(self, ufunc, method, *inputs, **kw):
        if method != "__call__":
            raise UnsupportedUniformUse("%s.%s on a symbolic uniform" % (ufunc.__name__, method))
        if ufunc is np.log and len(inputs) == 1:
            return self.log()
        names = {"less": (True, False), "less_equal": (True, False), "greater": (False, False),
                 "greater_equal": (False, False)}
        if ufunc.__name__ in names and len(inputs) == 2:
            less, _ = names[ufunc.__name__]
            if inputs[0] is self:
                return self._cmp(inputs[1], less)
            return self._cmp(inputs[0], not less)   # t < u  <=>  u > t
        raise UnsupportedUniformUse("ufunc %s applied to a symbolic uniform draw" % ufunc.__name__)

    def _bad(self, *a, **k):
        raise UnsupportedUniformUse("unsupported use of a symbolic uniform draw")

    __add__ = __radd__ = __sub__ = __rsub__ = __mul__ = __rmul__ = __truediv__ = __rtruediv__ = _bad
    __float__ = __int__ = __bool__ = __neg__ = __pow__ = __rpow__ = __abs__ = _bad
    __eq__ = __ne__ = _bad
    __hash__ = None

    def log(self):
        """numpy's object-dtype loop for np.log calls this method on the element."""
        if self._kind == "u" and self._lo == 0.0 and self._stream.log_uniform == "exponential":
            e = self._stream.exponential()
            with np.errstate(divide="ignore"):
                return float(np.log(self._hi)) - float(e)
        if self._kind != "u" or self._lo != 0.0 or self._hi != 1.0:
            raise UnsupportedUniformUse("log of %s" % self._kind)
        return SymU(self._stream, "log")

    def flatten(self):
        return self

    def ravel(self):
        return self

    def __repr__(self):
        return "SymU(%s)" % self._kind


def _real(t):
    a = np.asarray(t)
    if a.dtype == object:
        raise UnsupportedUniformUse("comparison of a symbolic uniform with a non-real object")
    if a.size != 1:
        raise UnsupportedUniformUse("comparison of a symbolic uniform with an array of size %d" % a.size)
    return float(a.ravel()[0])


# ----------------------------------------------------------------------------------------
# the stream
# ----------------------------------------------------------------------------------------
_PATCHED = ["rand", "randn", "normal", "standard_normal", "uniform", "exponential", "gamma", "laplace",
            "random", "random_sample", "ranf", "sample", "randint", "choice", "permutation", "shuffle", "beta",
            "standard_cauchy", "lognormal", "multivariate_normal", "standard_exponential", "standard_gamma",
            "chisquare", "standard_t", "poisson", "binomial", "bytes", "default_rng", "seed"]


def _size_of(args_size):
    if args_size is None:
        return ()
    if isinstance(args_size, (int, np.integer)):
        return (int(args_size),)
    return tuple(int(s) for s in args_size)


class Stream:
    """Scripted random source.

    normal    : list of flat vectors (consumed one per normal-type request) or callable(n, index)->vector
    gamma / exponential / laplace : callable(record)->array or list of answers; None = unowned
    uniform   : 'symbolic' (default) or list of floats
    Every request is logged in ``self.log`` as a dict(kind, params, shape).
    """

    def __init__(self, normal=None, gamma=None, exponential=None, laplace=None, uniform="symbolic",
                 decisions=None, normal_default=None, log_uniform="symbolic"):
        # log_uniform="exponential": log(U(0,hi)) is answered by log(hi) - e with e the next scripted exponential
        # (-log U(0,1) ~ Exp(1) exactly): lets a slice variable drawn in linear space follow the same script as one
        # drawn in log space.  Default: log of a standard uniform stays symbolic, of a scaled one is unsupported.
        self.log_uniform = log_uniform
        # scripts are stored under sc_* names: the numpy-API methods below are called normal/gamma/...
        self.sc_normal = normal
        self.sc_gamma = gamma
        self.sc_exponential = exponential
        self.sc_laplace = laplace
        self.sc_uniform = uniform
        self.decisions = decisions if decisions is not None else Decisions()
        self.normal_default = normal_default
        self.log = []
        self._ni = 0
        self._counts = {}

    # -- answers -------------------------------------------------------------------------
    def _next(self, kind, src, rec, n):
        i = self._counts.get(kind, 0)
        self._counts[kind] = i + 1
        if src is None:
            raise UnownedRandomness("%s request not owned by this script: %r" % (kind, rec))
        if callable(src):
            v = src(rec, i)
        else:
            if i >= len(src):
                raise ScriptExhausted("%s script exhausted at request %d: %r" % (kind, i, rec))
            v = src[i]
        v = np.asarray(v, dtype=float)
        if v.size == 1 and n != 1:
            v = np.full(n, float(v.ravel()[0]))
        if v.size != n:
            raise HarnessError("%s answer has size %d, request needs %d (%r)" % (kind, v.size, n, rec))
        return v

    def _std_normal(self, shape, rec):
        n = int(np.prod(shape)) if shape != () else 1
        i = self._ni
        self._ni += 1
        if callable(self.sc_normal):
            v = np.asarray(self.sc_normal(n, i), dtype=float)
        elif self.sc_normal is not None and i < len(self.sc_normal):
            v = np.asarray(self.sc_normal[i], dtype=float)
        elif self.normal_default is not None:
            v = np.full(n, float(self.normal_default))
        elif self.sc_normal is None:
            raise UnownedRandomness("normal request not owned: %r" % rec)
        else:
            raise ScriptExhausted("normal script exhausted at request %d: %r" % (i, rec))
        if v.size != n:
            raise HarnessError("normal answer %d has size %d, request needs %d (%r)" % (i, v.size, n, rec))
        rec["answer_index"] = i
        # numpy fills C-order
        return v.reshape(shape) if shape != () else float(v.ravel()[0])

    # -- numpy.random API ------------------------------------------------------------------
    def randn(self, *shape):
        rec = {"kind": "normal", "fn": "randn", "shape": list(shape)}
        self.log.append(rec)
        return self._std_normal(tuple(int(s) for s in shape), rec)

    def standard_normal(self, size=None):
        rec = {"kind": "normal", "fn": "standard_normal", "shape": list(_size_of(size))}
        self.log.append(rec)
        return self._std_normal(_size_of(size), rec)

    def normal(self, loc=0.0, scale=1.0, size=None):
        shape = _size_of(size)
        if size is None:
            shape = np.broadcast(np.asarray(loc), np.asarray(scale)).shape
        rec = {"kind": "normal", "fn": "normal", "shape": list(shape), "loc": np.array(loc, dtype=float, copy=True),
               "scale": np.array(scale, dtype=float, copy=True)}
        self.log.append(rec)
        z = self._std_normal(tuple(shape), rec)
        return loc + scale * z

    def _uniform_draw(self, rec, lo=0.0, hi=1.0):
        self.log.append(rec)
        if isinstance(self.sc_uniform, str) and self.sc_uniform == "symbolic":
            return SymU(self, "u", float(lo), float(hi))
        i = self._counts.get("uniform", 0)
        self._counts["uniform"] = i + 1
        if i >= len(self.sc_uniform):
            raise ScriptExhausted("uniform script exhausted")
        return lo + (hi - lo) * float(self.sc_uniform[i])

    def rand(self, *shape):
        rec = {"kind": "uniform", "fn": "rand", "shape": list(shape)}
        if int(np.prod(shape)) != 1:
            raise UnsupportedUniformUse("array of %s uniforms requested" % (shape,))
        u = self._uniform_draw(rec)
        if shape == ():
            return u
        a = np.empty(shape, dtype=object)
        a.ravel()[0] = u
        return a

    def uniform(self, low=0.0, high=1.0, size=None):
        shape = _size_of(size)
        rec = {"kind": "uniform", "fn": "uniform", "shape": list(shape), "low": low, "high": high}
        if int(np.prod(shape)) != 1:
            raise UnsupportedUniformUse("array of %s uniforms requested" % (shape,))
        u = self._uniform_draw(rec, _real(low), _real(high))
        if shape == ():
            return u
        a = np.empty(shape, dtype=object)
        a.ravel()[0] = u
        return a

    def random(self, size=None):
        return self.rand(*_size_of(size))

    random_sample = random

    def exponential(self, scale=1.0, size=None):
        shape = _size_of(size)
        rec = {"kind": "exponential", "scale": scale, "shape": list(shape)}
        self.log.append(rec)
        n = int(np.prod(shape)) if shape != () else 1
        v = self._next("exponential", self.sc_exponential, rec, n)
        return v.reshape(shape) if shape != () else float(v[0]) if v.ndim else float(v)

    def gamma(self, shape, scale=1.0, size=None):
        sz = _size_of(size)
        if size is None:
            sz = np.broadcast(np.asarray(shape), np.asarray(scale)).shape
        rec = {"kind": "gamma", "shape_param": np.array(shape, dtype=float, copy=True),
               "scale": np.array(scale, dtype=float, copy=True), "shape": list(sz)}
        self.log.append(rec)
        n = int(np.prod(sz)) if sz != () else 1
        v = self._next("gamma", self.sc_gamma, rec, n)
        return v.reshape(sz) if sz != () else float(v.ravel()[0])

    def laplace(self, loc=0.0, scale=1.0, size=None):
        sz = _size_of(size)
        rec = {"kind": "laplace", "loc": np.array(loc, dtype=float, copy=True),
               "scale": np.array(scale, dtype=float, copy=True), "shape": list(sz)}
        self.log.append(rec)
        n = int(np.prod(sz)) if sz != () else 1
        v = self._next("laplace", self.sc_laplace, rec, n)
        return v.reshape(sz) if sz != () else float(v.ravel()[0])

    # -- installation ----------------------------------------------------------------------
    def _unowned(self, name):
        def f(*a, **k):
            raise UnownedRandomness("numpy.random.%s called during a scripted execution" % name)
        return f

    @contextlib.contextmanager
    def installed(self):
        """Patch numpy.random's module functions; verify the global generator did not move."""
        saved = {}
        for name in _PATCHED:
            if hasattr(np.random, name):
                saved[name] = getattr(np.random, name)
                setattr(np.random, name, getattr(self, name) if hasattr(self, name) and name not in ("seed",)
                        else self._unowned(name))
        state0 = saved_state = np.random.get_state()
        try:
            yield self
        finally:
            for name, f in saved.items():
                setattr(np.random, name, f)
        state1 = np.random.get_state()
        if not (state0[0] == state1[0] and np.array_equal(state0[1], state1[1]) and state0[2:] == state1[2:]):
            raise UnownedRandomness("the global numpy generator advanced during a scripted execution "
                                    "(a draw went through a seam the stream does not own)")

    def rng(self):
        """A RandomState whose draws come from this stream (for ``rng=`` arguments)."""
        return ScriptedRandomState(self)


class ScriptedRandomState(np.random.RandomState):
    def __init__(self, stream):
        super().__init__(0)
        self._s = stream

    def randn(self, *shape):
        return self._s.randn(*shape)

    def standard_normal(self, size=None):
        return self._s.standard_normal(size)

    def normal(self, loc=0.0, scale=1.0, size=None):
        return self._s.normal(loc, scale, size)

    def rand(self, *shape):
        return self._s.rand(*shape)

    def uniform(self, low=0.0, high=1.0, size=None):
        return self._s.uniform(low, high, size)

    def random_sample(self, size=None):
        return self._s.random(size)

    random = random_sample

    def exponential(self, scale=1.0, size=None):
        return self._s.exponential(scale, size)

    def gamma(self, shape, scale=1.0, size=None):
        return self._s.gamma(shape, scale, size)

    def laplace(self, loc=0.0, scale=1.0, size=None):
        return self._s.laplace(loc, scale, size)


def run_scripted(fn, **stream_kw):
    """Run ``fn(stream)`` once under a scripted stream; returns (result, stream)."""
    s = Stream(**stream_kw)
    with s.installed():
        out = fn(s)
    return out, s


def affine_probe(draw, n, lin_check=True):
    """Identify an affine map xi -> draw(xi) from its values on {0, e_1..e_n} (+ one linearity probe).

    ``draw(xi)`` must execute the real code with the standard-normal request answered by xi.
    Returns (offset, T, is_affine).
    """
    z0 = np.asarray(draw(np.zeros(n)), dtype=float).ravel()
    cols = []
    for i in range(n):
        e = np.zeros(n)
        e[i] = 1.0
        cols.append(np.asarray(draw(e), dtype=float).ravel() - z0)
    T = np.array(cols).T if cols else np.zeros((z0.size, 0))
    ok = True
    if lin_check and n > 0:
        v = np.array([(-1) ** i * (0.5 + 0.25 * i) for i in range(n)])
        got = np.asarray(draw(v), dtype=float).ravel()
        exp = z0 + T @ v
        scale = max(1.0, float(np.max(np.abs(exp))))
        ok = bool(np.max(np.abs(got - exp)) <= 1e-8 * scale)
    return z0, T, ok
