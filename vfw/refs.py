"""Boring reference models (dense numpy, index formulas, textbook densities)."""
import math
import numpy as np


# ----------------------------------------------------------------------------------------
# value catalogues: VERIF_SEED selects one of K pre-validated catalogues (same structure,
# different dyadic values).  No randomness.
# ----------------------------------------------------------------------------------------
K_CATALOGUES = 3


def cat(seed):
    return int(seed) % K_CATALOGUES


def dyadic_vec(n, k=0, lo=-1.0, scale=0.25):
    """Deterministic, generic-looking vector with dyadic entries (no two equal, none zero)."""
    base = [3, -5, 7, 2, -9, 11, -4, 6, -13, 8, 5, -7, 10, -3, 12, -6, 9, -11, 4, 13, -2, 14, -8, 15]
    out = []
    for i in range(n):
        b = base[(i + 5 * k) % len(base)]
        out.append(scale * (b + 0.5 * ((i + k) // len(base))))
    return np.array(out, dtype=float)


def spd_matrix(n, k=0):
    """Deterministic well-conditioned SPD matrix with non-trivial off-diagonals (cond < 1e2)."""
    B = np.array([[((3 * i + 5 * j + 7 * k) % 7 - 3) / 4.0 for j in range(n)] for i in range(n)])
    return B @ B.T / n + (1.0 + 0.25 * k) * np.eye(n) + np.diag(0.125 * np.arange(n))


def full_matrix(m, n, k=0):
    """Deterministic full-rank m x n matrix (non-symmetric, generic)."""
    A = np.array([[((2 * i + 3 * j + i * j + k) % 9 - 4) / 4.0 for j in range(n)] for i in range(m)])
    for i in range(min(m, n)):
        A[i, i] += 2.0
    return A


# ----------------------------------------------------------------------------------------
# finite-difference stencils from their index formulas
# ----------------------------------------------------------------------------------------
def fd1_1d(N, bc, dx=1.0):
    """First-order difference matrix, rows built one by one from the index formula."""
    if bc == "zero":          # (N+1) x N : x_i - x_{i-1}, x_{-1} = x_N = 0
        D = np.zeros((N + 1, N))
        for r in range(N + 1):
            if r < N:
                D[r, r] += 1
            if r - 1 >= 0:
                D[r, r - 1] += -1
    elif bc == "periodic":    # (N+1) x N : x_{r mod N} - x_{(r-1) mod N}
        D = np.zeros((N + 1, N))
        for r in range(N + 1):
            D[r, r % N] += 1
            D[r, (r - 1) % N] += -1
    elif bc == "neumann":     # (N-1) x N : x_{r+1} - x_r
        D = np.zeros((N - 1, N))
        for r in range(N - 1):
            D[r, r + 1] += 1
            D[r, r] += -1
    elif bc == "backward":    # N x N : x_r - x_{r-1}, x_{-1} = 0 (sign of a row is not documented)
        D = np.zeros((N, N))
        for r in range(N):
            D[r, r] += 1
            if r >= 1:
                D[r, r - 1] += -1
    elif bc == "none":
        D = np.eye(N)
    else:
        raise ValueError(bc)
    return D / dx


def fd2_1d(N, bc, dx=1.0):
    """Second-order difference: row r is -x_{r-2} + 2 x_{r-1} - x_r (zero/periodic, N+2 rows)
    or -x_r + 2 x_{r+1} - x_{r+2} (neumann, N-2 rows)."""
    if bc == "zero":
        D = np.zeros((N + 2, N))
        for r in range(N + 2):
            for off, c in ((-2, -1), (-1, 2), (0, -1)):
                j = r + off
                if 0 <= j < N:
                    D[r, j] += c
    elif bc == "periodic":
        D = np.zeros((N + 2, N))
        for r in range(N + 2):
            for off, c in ((-2, -1), (-1, 2), (0, -1)):
                D[r, (r + off) % N] += c
    elif bc == "neumann":
        D = np.zeros((max(N - 2, 0), N))
        for r in range(N - 2):
            for off, c in ((0, -1), (1, 2), (2, -1)):
                D[r, r + off] += c
    else:
        raise ValueError(bc)
    return D / dx ** 2


def fd_ref(N, bc, order, physical_dim=1, dx=1.0):
    if order == 0:
        D1 = np.eye(N)
    elif order == 1:
        D1 = fd1_1d(N, bc, dx)
    else:
        D1 = fd2_1d(N, bc, dx)
    if physical_dim == 1:
        return D1
    I = np.eye(N)
    return np.vstack([np.kron(I, D1), np.kron(D1, I)])


def expected_nullity(N, bc, order, physical_dim):
    """Null-space dimension of D implied by the boundary condition (stated, not computed)."""
    if order == 0 or bc in ("zero", "backward", "none"):
        return 0
    if bc == "periodic":
        return 1
    if bc == "neumann":
        if order == 1:
            return 1
        return 2 if physical_dim == 1 else 4
    raise ValueError(bc)


def pseudo_logdet_rank(P, tol=1e-9):
    w = np.linalg.eigvalsh((P + P.T) / 2)
    cut = tol * max(1.0, float(np.max(np.abs(w))))
    pos = w[w > cut]
    return float(np.sum(np.log(pos))), int(pos.size), w


# ----------------------------------------------------------------------------------------
# textbook log-densities
# ----------------------------------------------------------------------------------------
LOG2PI = math.log(2 * math.pi)


def gauss_logpdf(x, mean, cov):
    x = np.atleast_1d(np.asarray(x, float))
    mean = np.broadcast_to(np.asarray(mean, float), x.shape)
    cov = np.asarray(cov, float)
    k = x.size
    if cov.ndim == 0 or cov.size == 1:
        cov = float(cov.ravel()[0]) * np.eye(k)
    elif cov.ndim == 1:
        cov = np.diag(cov)
    r = x - mean
    sign, ld = np.linalg.slogdet(cov)
    return float(-0.5 * k * LOG2PI - 0.5 * ld - 0.5 * r @ np.linalg.solve(cov, r))


def gauss_posterior(A, b, noise_cov, prior_mean, prior_cov):
    """Closed-form linear-Gaussian posterior mean and covariance (dense)."""
    A = np.asarray(A, float)
    Pe = np.linalg.inv(noise_cov)
    Px = np.linalg.inv(prior_cov)
    H = A.T @ Pe @ A + Px
    cov = np.linalg.inv(H)
    mean = cov @ (A.T @ Pe @ b + Px @ prior_mean)
    return mean, cov


def richardson_grad(f, x, h=1e-3):
    """Central differences with two step sizes + Richardson extrapolation; returns (g, g_h, g_h2)."""
    x = np.asarray(x, float)
    n = x.size

    def cd(hh):
        g = np.zeros(n)
        for i in range(n):
            e = np.zeros(n)
            e[i] = hh
            g[i] = (f(x + e) - f(x - e)) / (2 * hh)
        return g
    g1 = cd(h)
    g2 = cd(h / 2)
    return (4 * g2 - g1) / 3, g1, g2


def richardson_jac(f, x, h=1e-3):
    x = np.asarray(x, float)
    n = x.size

    def cd(hh):
        cols = []
        for i in range(n):
            e = np.zeros(n)
            e[i] = hh
            cols.append((np.asarray(f(x + e), float).ravel() - np.asarray(f(x - e), float).ravel()) / (2 * hh))
        return np.array(cols).T
    J1 = cd(h)
    J2 = cd(h / 2)
    return (4 * J2 - J1) / 3
