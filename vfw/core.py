"""Core of the bounded-exhaustive checking framework (runner, evidence, replay, known findings).

A *check module* (``checks/cXX.py``) provides

    PROPERTY : str                    e.g. "C20"
    RULE     : str                    how cells are enumerated / what counts as non-trivial
    ASSUMPTIONS : list[str]
    def cells(tier, seed) -> iterable of JSON-serialisable dicts (configuration cells /
                              programs / sampler set-ups).  The enumeration is deterministic
                              and complete for the stated bound.
    def eval_cell(cell) -> CellResult   explores *everything* inside the cell (basis inputs,
                              all histories, all decision-tree leaves ...) on the real code
                              and compares with the reference model.

Nothing here samples: the runner maps ``eval_cell`` over *all* cells of the bound.
"""
import hashlib
import io
import json
import os
import subprocess
import sys
import time
import traceback
import warnings

ROOT = os.path.dirname(os.path.dirname(os.path.abspath(__file__)))
EVIDENCE_DIR = os.environ.get("VERIF_EVIDENCE_DIR") or os.path.join(ROOT, "evidence")   # (override: mutation experiments only)
REPLAY_DIR = os.environ.get("VERIF_REPLAY_DIR") or os.path.join(ROOT, "replays")
KNOWN_FILE = os.path.join(ROOT, "known_findings.json")
EVIDENCE_SCHEMA = "/root/.vp/EVIDENCE.schema.json"


class HarnessError(Exception):
    """The harness itself is broken (nondeterministic replay, unowned randomness ...)."""


# ----------------------------------------------------------------------------------------
# numeric helpers shared by the checks
# ----------------------------------------------------------------------------------------
def close(a, b, rtol=1e-9, atol=None):
    """|a-b| <= rtol*max(1,|a|,|b|) elementwise; shapes must agree after squeeze."""
    import numpy as np
    a = np.asarray(a, dtype=float)
    b = np.asarray(b, dtype=float)
    if a.shape != b.shape:
        try:
            a, b = np.broadcast_arrays(a, b)
        except ValueError:
            return False
    if a.size == 0:
        return True
    if np.any(np.isnan(a) != np.isnan(b)):
        return False
    m = ~np.isnan(a)
    a, b = a[m], b[m]
    if a.size == 0:
        return True
    inf = np.isinf(a) | np.isinf(b)
    if np.any(inf):
        if not np.array_equal(a[inf], b[inf]):
            return False
        a, b = a[~inf], b[~inf]
        if a.size == 0:
            return True
    scale = max(1.0, float(np.max(np.abs(a))), float(np.max(np.abs(b))))
    tol = rtol * scale if atol is None else atol
    return bool(np.max(np.abs(a - b)) <= tol)


def jsonable(x):
    """Best-effort conversion of harness values to JSON-serialisable data."""
    import numpy as np
    if isinstance(x, dict):
        return {str(k): jsonable(v) for k, v in x.items()}
    if isinstance(x, (list, tuple, set, frozenset)):
        return [jsonable(v) for v in (sorted(x, key=str) if isinstance(x, (set, frozenset)) else x)]
    if isinstance(x, np.ndarray):
        if x.dtype == object:
            return [jsonable(v) for v in x.tolist()]
        return jsonable(x.tolist())
    if isinstance(x, (np.floating, float)):
        x = float(x)
        if x != x:
            return "NaN"
        if x in (float("inf"), float("-inf")):
            return "Infinity" if x > 0 else "-Infinity"
        return x
    if isinstance(x, (np.integer,)):
        return int(x)
    if isinstance(x, (np.bool_,)):
        return bool(x)
    if isinstance(x, (int, str, bool)) or x is None:
        return x
    return repr(x)


class CellResult:
    """What one cell's exhaustive exploration produced."""

    def __init__(self, cell):
        self.cell = cell
        self.states = set()        # canonical state keys visited inside the cell
        self.transitions = 0       # (state, input/op/answer) evaluations on the real code
        self.traces = 0            # reference-model traces replayed step by step on the impl
        self.evaluations = 0       # executions / oracle comparisons
        self.failures = []         # list of dicts
        self.outcomes = set()      # short strings: distinct observed outcomes (anti-vacuity)
        self.nontrivial = True
        self.sample = None         # a written-out trace
        self.branches = {}         # named coverage counters (e.g. reduction branch reached)
        self.refused = 0           # cells/ops the implementation refused (allowed by property)
        self.error = None

    def state(self, key):
        self.states.add(str(key))

    def count(self, name, k=1):
        self.branches[name] = self.branches.get(name, 0) + k

    def fail(self, signature, message, focus=None, **detail):
        """Record a property violation.  signature = 'Cxx|component|operation|facet'."""
        self.failures.append({"signature": signature, "message": message,
                              "focus": jsonable(focus), "detail": jsonable(detail)})

    def pack(self):
        return {"cell": self.cell, "states": sorted(self.states), "transitions": self.transitions,
                "traces": self.traces, "evaluations": self.evaluations, "failures": self.failures,
                "outcomes": sorted(self.outcomes), "nontrivial": self.nontrivial,
                "sample": jsonable(self.sample), "branches": self.branches, "refused": self.refused,
                "error": self.error}


# ----------------------------------------------------------------------------------------
# worker side
# ----------------------------------------------------------------------------------------
_MOD = None


def _quiet_env():
    warnings.filterwarnings("ignore")
    os.environ.setdefault("OMP_NUM_THREADS", "1")
    os.environ.setdefault("OPENBLAS_NUM_THREADS", "1")
    os.environ.setdefault("MKL_NUM_THREADS", "1")


def load_check(prop):
    import importlib
    _quiet_env()
    if ROOT not in sys.path:
        sys.path.insert(0, ROOT)
    return importlib.import_module("checks.%s" % prop.lower())


def _worker_init(prop):
    global _MOD
    _quiet_env()
    _MOD = load_check(prop)


class _Silence:
    """Swallow the library's progress output for the duration of one cell."""

    def __enter__(self):
        self._o, self._e = sys.stdout, sys.stderr
        sys.stdout = io.StringIO()
        sys.stderr = io.StringIO()
        return self

    def __exit__(self, *a):
        sys.stdout, sys.stderr = self._o, self._e
        return False


def run_cell(mod, cell):
    """Evaluate one cell; harness exceptions become an 'error' (= broken check, exit 2)."""
    warnings.filterwarnings("ignore")
    try:
        import numpy as _np
        _np.random.seed(20261003)   # the library seeds ARPACK etc. from the global generator: pin it per cell
        with _Silence():
            res = mod.eval_cell(cell)
        return res.pack()
    except Exception:  # noqa: a bug in the harness, never a verdict
        r = CellResult(cell)
        r.error = traceback.format_exc()
        return r.pack()


def _worker_eval(cell):
    return run_cell(_MOD, cell)


# ----------------------------------------------------------------------------------------
# known findings
# ----------------------------------------------------------------------------------------
def load_known(prop):
    """signature -> entry, for recorded (not repaired) genuine defects of this property."""
    if not os.path.exists(KNOWN_FILE):
        return {}
    with open(KNOWN_FILE) as f:
        data = json.load(f)
    out = {}
    for e in data.get("known", []):
        if e.get("property") == prop:
            out[e["signature"]] = e
    return out


# ----------------------------------------------------------------------------------------
# driver
# ----------------------------------------------------------------------------------------
def _sha(obj):
    return hashlib.sha1(json.dumps(obj, sort_keys=True, default=str).encode()).hexdigest()[:12]


def write_replay(prop, cell, failure):
    os.makedirs(REPLAY_DIR, exist_ok=True)
    payload = {"property": prop, "cell": cell, "signature": failure["signature"],
               "message": failure["message"], "focus": failure.get("focus"),
               "detail": failure.get("detail")}
    path = os.path.join(REPLAY_DIR, "%s-%s.json" % (prop, _sha([cell, failure["signature"]])))
    with open(path, "w") as f:
        json.dump(payload, f, indent=1, sort_keys=True, default=str)
    tdir = os.path.join(REPLAY_DIR, "tests")
    os.makedirs(tdir, exist_ok=True)
    tpath = os.path.join(tdir, "test_%s.py" % os.path.basename(path)[:-5].replace("-", "_"))
    with open(tpath, "w") as f:
        f.write("# Plain replay of one violating case (no explorer involved).\n"
                "# Run: /venv/bin/python -m pytest -q %s\n"
                "import json, sys\nsys.path.insert(0, %r)\n"
                "from vfw.core import load_check, run_cell\n\n"
                "def test_replay():\n"
                "    case = json.load(open(%r))\n"
                "    mod = load_check(case['property'])\n"
                "    res = run_cell(mod, case['cell'])\n"
                "    assert res['error'] is None, res['error']\n"
                "    bad = [f for f in res['failures'] if f['signature'] == case['signature']]\n"
                "    assert not bad, bad[0]['message']\n" % (tpath, ROOT, path))
    return path


def validate_evidence(path):
    """Validate with the tooling venv's jsonschema; False = evidence unusable (exit 2)."""
    code = ("import json,sys,jsonschema;"
            "jsonschema.validate(json.load(open(sys.argv[1])),json.load(open(sys.argv[2])))")
    try:
        p = subprocess.run(["python3-vt", "-W", "ignore", "-c", code, path, EVIDENCE_SCHEMA],
                           capture_output=True, text=True, timeout=120)
    except FileNotFoundError:
        return True, "python3-vt not found; schema validation skipped"
    return p.returncode == 0, (p.stderr or "")[-2000:]


def run_check(prop, tier="quick", seed=0, jobs=None, budget=None):
    t0 = time.time()
    mod = load_check(prop)
    cells = list(mod.cells(tier, seed))
    total_cells = len(cells)
    if jobs is None:
        jobs = int(os.environ.get("VERIF_JOBS", "0")) or (min(8, os.cpu_count() or 1) if tier == "quick"
                                                        else min(16, os.cpu_count() or 1))
    if budget is None:
        budget = float(os.environ.get("VERIF_BUDGET_S", "0")) or (600 if tier == "quick" else 5400)
    results = []
    capped = False
    if jobs <= 1 or total_cells <= 2:
        _worker_init(prop)
        for c in cells:
            results.append(_worker_eval(c))
            if time.time() - t0 > budget:
                capped = True
                break
    else:
        import multiprocessing as mp
        ctx = mp.get_context("fork")
        chunk = max(1, min(8, total_cells // (jobs * 8) or 1))
        with ctx.Pool(jobs, initializer=_worker_init, initargs=(prop,)) as pool:
            it = pool.imap(_worker_eval, cells, chunksize=chunk)
            for r in it:
                results.append(r)
                if time.time() - t0 > budget:
                    capped = True
                    pool.terminate()
                    break
    return finish(prop, mod, tier, seed, results, total_cells, capped, time.time() - t0)


def finish(prop, mod, tier, seed, results, total_cells, capped, wall):
    known = load_known(prop)
    states, outcomes = set(), set()
    transitions = traces = evaluations = refused = nontrivial = 0
    branches = {}
    errors = []
    samples = []
    viol = {}      # signature -> (cell, failure, count)
    knownhit = {}  # signature -> count
    for i, r in enumerate(results):
        ck = _sha(r["cell"])
        states.add(ck)
        for s in r["states"]:
            states.add(ck + ":" + s)
        outcomes.update(r["outcomes"])
        transitions += r["transitions"]
        # E3 cells that do not count traces themselves: the cell's complete comparison of the implementation
        # with the reference model is one replayed trace (DESIGN 1.1)
        traces += r["traces"] if r["traces"] else (1 if (r["evaluations"] > 0 and not r["error"]) else 0)
        evaluations += r["evaluations"]
        refused += r["refused"]
        nontrivial += 1 if r["nontrivial"] else 0
        for k, v in r["branches"].items():
            branches[k] = branches.get(k, 0) + v
        if r["error"]:
            errors.append((r["cell"], r["error"]))
        if r["sample"] is not None and len(samples) < 3 and (i % max(1, len(results) // 3) == 0):
            samples.append({"cell": r["cell"], "trace": r["sample"]})
        for f in r["failures"]:
            sig = f["signature"]
            if sig in known:
                knownhit[sig] = knownhit.get(sig, 0) + 1
            elif sig in viol:
                viol[sig][2] += 1
            else:
                viol[sig] = [r["cell"], f, 1]
    if not samples:
        for r in results[:2]:
            samples.append({"cell": r["cell"], "trace": r["sample"]})

    for sig, n in sorted(knownhit.items()):
        print("KNOWN-FINDING: property=%s %s [%s] (%d case(s) in this run)" %
              (prop, known[sig].get("what", ""), sig, n))
    nviol = 0
    for sig, (cell, f, n) in sorted(viol.items()):
        path = write_replay(prop, cell, f)
        nviol += n
        print("VIOLATION property=%s replay=%s" % (prop, path))
        print("  signature=%s cases=%d :: %s" % (sig, n, f["message"][:400]))
    for cell, err in errors[:3]:
        print("HARNESS-ERROR property=%s cell=%s\n%s" % (prop, json.dumps(cell, default=str)[:300], err),
              file=sys.stderr)

    cov = {
        "states": len(states),
        "transitions": transitions,
        "traces_validated_against_impl": traces,
        "evaluations": evaluations,
        "distinct_nontrivial": nontrivial,
        "rule": getattr(mod, "RULE", ""),
        "samples": samples,
        "exhaustive": (not capped) and not errors,
        "cells_total": total_cells,
        "cells_completed": len(results),
        "caps_hit": (["time budget reached after %d of %d cells (lexicographic prefix)" %
                      (len(results), total_cells)] if capped else []),
        "distinct_observed_outcomes": len(outcomes),
        "refused_by_implementation": refused,
        "branches": branches,
        "bound": getattr(mod, "BOUND", {}).get(tier, "") if isinstance(getattr(mod, "BOUND", None), dict)
        else getattr(mod, "BOUND", ""),
        "known_findings_observed": sorted(knownhit),
        "violation_signatures": sorted(viol),
        "harness_errors": len(errors),
    }
    ev = {"property_id": prop, "tier": tier, "seed": int(seed), "level": "model_checking",
          "coverage": cov, "assumptions": list(getattr(mod, "ASSUMPTIONS", [])),
          "wall_s": round(wall, 3), "violations": nviol}
    os.makedirs(EVIDENCE_DIR, exist_ok=True)
    epath = os.path.join(EVIDENCE_DIR, "%s.json" % prop)
    with open(epath, "w") as f:
        json.dump(ev, f, indent=1, sort_keys=True, default=str)
    ok, msg = validate_evidence(epath)
    print("%s tier=%s seed=%s cells=%d/%d states=%d transitions=%d traces=%d outcomes=%d refused=%d "
          "known=%d violations=%d wall=%.1fs" % (prop, tier, seed, len(results), total_cells, len(states),
                                                 transitions, traces, len(outcomes), refused,
                                                 sum(knownhit.values()), nviol, wall))
    if not ok:
        print("EVIDENCE-INVALID %s: %s" % (epath, msg), file=sys.stderr)
        return 2
    if errors:
        return 2
    if transitions == 0 or len(states) == 0:
        print("VACUOUS exploration (no transitions)", file=sys.stderr)
        return 2
    return 1 if nviol else 0


def replay(prop, path):
    with open(path) as f:
        case = json.load(f)
    mod = load_check(case.get("property", prop))
    r1 = run_cell(mod, case["cell"])
    r2 = run_cell(mod, case["cell"])
    if r1["error"]:
        print(r1["error"], file=sys.stderr)
        return 2
    s1 = sorted(f["signature"] for f in r1["failures"])
    s2 = sorted(f["signature"] for f in r2["failures"])
    if s1 != s2:
        print("HARNESS-ERROR nondeterministic replay: %s vs %s" % (s1, s2), file=sys.stderr)
        return 2
    known = load_known(case.get("property", prop))
    hit = [f for f in r1["failures"] if f["signature"] == case.get("signature")]
    other = [f for f in r1["failures"] if f["signature"] != case.get("signature")]
    print("replay of %s: cell=%s" % (path, json.dumps(case["cell"], default=str)))
    for f in hit:
        print("  REPRODUCED %s :: %s" % (f["signature"], f["message"]))
        print("    detail: %s" % json.dumps(f["detail"], default=str)[:2000])
        break
    for f in other[:5]:
        print("  also: %s :: %s" % (f["signature"], f["message"][:300]))
    if not hit:
        print("  not reproduced (the recorded signature no longer fails on this tree)")
    bad = [f for f in r1["failures"] if f["signature"] not in known]
    if bad:
        print("VIOLATION property=%s replay=%s" % (case.get("property", prop), path))
        return 1
    return 0


def main(argv=None):
    import argparse
    ap = argparse.ArgumentParser(prog="check")
    ap.add_argument("prop")
    ap.add_argument("--tier", default=os.environ.get("VERIF_TIER", "quick"), choices=["quick", "thorough"])
    ap.add_argument("--replay")
    ap.add_argument("--jobs", type=int)
    ap.add_argument("--seed", type=int, default=int(os.environ.get("VERIF_SEED", "0") or 0))
    a = ap.parse_args(argv)
    prop = a.prop.upper()
    if a.replay:
        return replay(prop, a.replay)
    return run_check(prop, a.tier, a.seed, a.jobs)


if __name__ == "__main__":
    sys.exit(main())
