"""E1 add-on shared by C03/C04/C05: attribute re-assignment histories on ONE live distribution object.

CUQIpy distributions expose their parameters as writable attributes whose setters pre-compute derived
quantities (square-root precision, log-determinant, factorizations ...).  A stale derived quantity shows only
after a history such as  use -> assign -> use.  For every family of the catalogue this engine enumerates ALL
sequences (length <= depth) over the alphabet

    use            (evaluate logpdf, gradient, draw a seeded sample, read derived attributes)
    set a := A[a]  / set a := B[a]   for every writable parameter a of the family

on one live object and, after every step, compares the live object with a FRESHLY constructed object holding
the same current parameter values (differential oracle: no hand-written expected value), through the
observable the calling property cares about (``observe``).  States are (current parameter values); histories
are never merged.
"""
import itertools
import numpy as np
from vfw.core import CellResult, close
from vfw import refs


def _spd(n, k):
    return refs.spd_matrix(n, k)


def catalogue(k):
    """family -> (constructor(params dict) -> object, writable attributes, value set A, value set B)."""
    import cuqi
    import scipy.linalg as sla
    D = cuqi.distribution
    n = 3
    big = 76          # above the sparse-storage switch
    out = {}

    def gauss(param, dim, form):
        def val(j):
            if form == "vector":
                C = np.diag(0.5 + 0.25 * ((np.arange(dim) + j + k) % 4))
            else:
                C = _spd(dim, k + j) if dim <= 6 else np.diag(0.5 + 0.25 * ((np.arange(dim) + j) % 4)) + 0.05 * np.ones((dim, dim))
            M = {"cov": C, "prec": np.linalg.inv(C), "sqrtcov": np.real(sla.sqrtm(C)), "sqrtprec": np.real(sla.sqrtm(np.linalg.inv(C)))}[param]
            M = (M + M.T) / 2
            return np.diag(M).copy() if form == "vector" else M
        A = {"mean": refs.dyadic_vec(dim, k, scale=0.125), param: val(0)}
        B = {"mean": refs.dyadic_vec(dim, k + 2, scale=0.25), param: val(1)}
        return (lambda p: D.Gaussian(p["mean"], **{param: p[param]})), ["mean", param], A, B
    for param in ("cov", "prec", "sqrtcov", "sqrtprec"):
        out["Gaussian(%s,dense,dim=3)" % param] = gauss(param, n, "dense")
        out["Gaussian(%s,vector,dim=76)" % param] = gauss(param, big, "vector")
    out["Gaussian(prec,dense,dim=76)"] = gauss("prec", big, "dense")
    out["GMRF"] = ((lambda p: D.GMRF(p["mean"], p["prec"], bc_type="zero", order=1, geometry=4)), ["mean", "prec"],
                   {"mean": np.zeros(4), "prec": 2.0}, {"mean": refs.dyadic_vec(4, k, scale=0.125), "prec": 0.5})
    for fam in ("LMRF", "CMRF"):
        out[fam] = ((lambda p, fam=fam: getattr(D, fam)(p["location"], p["scale"], bc_type="zero", geometry=4)), ["location", "scale"],
                    {"location": np.zeros(4), "scale": 0.5}, {"location": refs.dyadic_vec(4, k, scale=0.125), "scale": 2.0})
    v2a, v2b = np.array([0.5, -0.25]), np.array([-0.75, 1.0])
    out["Normal"] = ((lambda p: D.Normal(p["mean"], p["std"])), ["mean", "std"], {"mean": v2a, "std": np.array([1.0, 0.5])}, {"mean": v2b, "std": np.array([2.0, 1.5])})
    out["Laplace"] = ((lambda p: D.Laplace(p["location"], p["scale"])), ["location", "scale"], {"location": v2a, "scale": np.array([1.0, 0.5])}, {"location": v2b, "scale": np.array([2.0, 1.5])})
    out["Cauchy"] = ((lambda p: D.Cauchy(p["location"], p["scale"])), ["location", "scale"], {"location": v2a, "scale": np.array([1.0, 0.5])}, {"location": v2b, "scale": np.array([2.0, 1.5])})
    out["SmoothedLaplace"] = ((lambda p: D.SmoothedLaplace(p["location"], p["scale"], 1e-2)), ["location", "scale"], {"location": v2a, "scale": np.array([1.0, 0.5])}, {"location": v2b, "scale": np.array([2.0, 1.5])})
    out["Gamma"] = ((lambda p: D.Gamma(p["shape"], p["rate"])), ["shape", "rate"], {"shape": np.array([2.0, 3.0]), "rate": np.array([1.0, 0.5])}, {"shape": np.array([1.5, 4.0]), "rate": np.array([2.0, 1.5])})
    out["InverseGamma"] = ((lambda p: D.InverseGamma(p["shape"], p["location"], p["scale"])), ["shape", "location", "scale"],
                           {"shape": np.array([3.0, 2.5]), "location": np.array([0.0, -0.5]), "scale": np.array([1.0, 2.0])},
                           {"shape": np.array([4.0, 3.5]), "location": np.array([-0.25, 0.0]), "scale": np.array([0.5, 1.5])})
    out["Beta"] = ((lambda p: D.Beta(p["alpha"], p["beta"])), ["alpha", "beta"], {"alpha": np.array([2.0, 3.0]), "beta": np.array([2.5, 1.5])}, {"alpha": np.array([1.5, 4.0]), "beta": np.array([3.0, 2.0])})
    out["Uniform"] = ((lambda p: D.Uniform(p["low"], p["high"])), ["low", "high"], {"low": np.array([-1.0, 0.0]), "high": np.array([2.0, 1.5])}, {"low": np.array([-2.0, -0.5]), "high": np.array([3.0, 2.5])})
    out["Lognormal"] = ((lambda p: D.Lognormal(p["mean"], p["cov"])), ["mean", "cov"], {"mean": v2a, "cov": _spd(2, k)}, {"mean": v2b, "cov": _spd(2, k + 1)})
    return out


def cells(tier, seed):
    k = refs.cat(seed)
    for fam in sorted(catalogue(k)):
        big = "dim=76" in fam
        yield {"fam": "reassign", "family": fam, "cat": k, "depth": (2 if big else 3) if tier == "quick" else (3 if big else 4)}


def points(obj, fam, k):
    dim = obj.dim
    if fam.startswith(("Gamma", "InverseGamma", "Lognormal")):
        return [np.array([0.75, 1.5])[:dim] + 0.125 * k, np.array([2.0, 0.5])[:dim]]
    if fam.startswith("Beta"):
        return [np.array([0.25, 0.625])[:dim], np.array([0.5, 0.375])[:dim]]
    if fam.startswith("Uniform"):
        return [np.array([0.25, 0.5]), np.array([1.0, 1.25])]
    return [refs.dyadic_vec(dim, k + 3, scale=0.125), refs.dyadic_vec(dim, k + 7, scale=0.25)]


def use(obj, pts):
    """The 'use' operation: touch every lazily computed quantity."""
    for f in (lambda: obj.logpdf(pts[0]), lambda: obj.gradient(pts[0]), lambda: obj.sample(2, rng=np.random.RandomState(3)),
              lambda: obj.sample(1, rng=np.random.RandomState(4)), lambda: obj.sample(1), lambda: obj.compute_cov(),
              lambda: obj.sqrtprec, lambda: obj.sqrtprecTimesMean, lambda: obj.prec, lambda: obj.cov, lambda: obj.logd(pts[1])):
        try:
            f()
        except Exception:
            pass


def eval_cell(cell, prop, observe, what, judge=None):
    """observe(obj, pts) -> dict name -> ('val', array) | ('exc', type name); compared live vs fresh.
    judge(live, fresh, pts) -> list of (observable name, ok, detail) replaces the live-vs-fresh comparison when the
    property has its own oracle (e.g. gradient == derivative of the same object's logd, or refused).
    Two judging modes per history: after every assignment, and only after the last one (several assignments without
    any evaluation in between - catches derived quantities that are synchronised lazily, one at a time)."""
    res = CellResult(cell)
    k = cell["cat"]
    fam = cell["family"]
    ctor, attrs, A, B = catalogue(k)[fam]
    ops = [("use", None, None)] + [("set", a, j) for a in attrs for j in (0, 1)]
    comp = fam.split("(")[0]
    facet_base = fam[len(comp):].strip("()") or "-"
    try:
        probe = ctor(dict(A))
        pts = points(probe, fam, k)
    except Exception as e:
        res.refused += 1
        res.transitions += 1
        res.state("refused")
        res.nontrivial = False
        res.outcomes.add("refused:%s" % type(e).__name__)
        return res
    reported = set()
    hist = []

    def verdicts_of(live, cur):
        fresh = ctor({kk: (np.array(v, copy=True) if isinstance(v, np.ndarray) else v) for kk, v in cur.items()})
        if judge is not None:
            return judge(live, fresh, pts)
        ol, of = observe(live, pts), observe(fresh, pts)
        out = []
        for name_o in of:
            kl, vl = ol[name_o]
            kf, vf = of[name_o]
            same = (kl == kf) and (kl == "exc" or close(vl, vf, 1e-9))
            out.append((name_o, same, "%s vs %s" % (_short(vl), _short(vf))))
        return out

    for L in range(1, cell["depth"] + 1):
        for seq in itertools.product(range(len(ops)), repeat=L):
            if L > 1 and ops[seq[-1]][0] == "use" and ops[seq[-2]][0] == "use":
                continue
            nset = sum(1 for i in seq if ops[i][0] == "set")
            if nset == 0:
                continue
            for every_step in ((True, False) if nset > 1 else (True,)):
                cur = dict(A)
                live = ctor(dict(A))
                hist = []
                iset = 0
                for oi in seq:
                    name, a, j = ops[oi]
                    res.transitions += 1
                    if name == "use":
                        use(live, pts)
                        hist.append("use")
                        continue
                    val = (A, B)[j][a]
                    hist.append("%s:=%s" % (a, "AB"[j]))
                    iset += 1
                    try:
                        setattr(live, a, np.array(val, copy=True) if isinstance(val, np.ndarray) else val)
                    except Exception as e:
                        res.refused += 1
                        res.outcomes.add("set-refused:%s:%s" % (a, type(e).__name__))
                        break
                    cur[a] = val
                    res.state(tuple(sorted((kk, "AB"[int(cur[kk] is B[kk])]) for kk in cur)))
                    if not every_step and iset < nset:
                        continue
                    res.evaluations += 1
                    failed_here = False
                    for name_o, ok, detail in verdicts_of(live, cur):
                        if not ok:
                            failed_here = True
                            sig = "%s|%s|%s-after-reassignment|%s,attr=%s" % (prop, comp, name_o, facet_base,
                                                                              a if every_step else "several")
                            if sig not in reported:
                                reported.add(sig)
                                res.fail(sig, "after the history %s%s the object's %s is wrong: %s (reference: a freshly "
                                         "constructed object with the same parameter values / the property's own oracle)"
                                         % (hist, "" if every_step else " (no evaluation between the assignments)", name_o, detail),
                                         focus={"history": list(hist), "family": fam, "judged_after_every_step": every_step})
                    if failed_here:
                        break      # later steps inherit the fault: attribute it to the first failing step only
                res.traces += 1
    res.outcomes.add("%s:%s:%d" % (what, fam, len(reported)))
    res.sample = {"family": fam, "last_history": hist, "what": what}
    return res


def _short(v):
    try:
        return np.array2string(np.asarray(v, dtype=float).ravel()[:4], precision=5)
    except Exception:
        return repr(v)[:60]


def obs_call(f):
    try:
        v = f()
        if v is None:
            return ("exc", "None")
        if hasattr(v, "samples"):
            v = v.samples
        if hasattr(v, "todense"):
            v = v.todense()
        return ("val", np.asarray(v, dtype=float))
    except Exception as e:
        return ("exc", type(e).__name__)
