"""C09 - Gibbs sweeps draw each block from its conditional given the current other blocks  (E1 + E2).

E1: every history (operation sequence over warm-up / sample calls, to depth 3) of both Gibbs samplers is
executed on the real code with *recording* block samplers; a dict-based reference sweep model is advanced in
lock-step and compared after every transition and after every operation.
E2: all randomness is scripted (vfw.stream); with real MH / NUTS blocks the uniform is symbolic and the decision
tree of accept/reject (NUTS: direction / subtree / accept) answers is explored, the probability the implementation
compares with being read off every decision point.

Configuration facets besides the sampler assignment: the ORDER in which the user's ``sampling_strategy`` and
``num_sampling_steps`` dicts list the blocks relative to the joint's parameter order (all permutations), step
counts given for all / some / no blocks; the block-sampler alphabet contains every class HybridGibbs routes
through a special path (NUTS) next to the ordinary ones (MH, MALA, Conjugate, LinearRTO, a scripted spy).

Facet "how the initial value of each block is supplied" (every route the two samplers read): HybridGibbs - the
``initial_point`` of the block's sampler object (constructor argument / attribute assigned afterwards / not given:
class default), with or without an ``init_point`` attribute on the block densities; cuqi.sampler.Gibbs - the
``init_point`` attribute of the block's density / nothing (ones), with or without an ``x0`` of their own on the block
sampler objects.  Crossed with all histories: the FIRST sweep of a run starts from the supplied values, every later
sweep and every continuation call from the values stored by the previous sweep.

Facet "keys of the legacy sampling strategy" x "order in which the joint lists the blocks": cuqi.sampler.Gibbs accepts
a TUPLE of names as a key (one sampler class for several blocks).  Every grouping of the blocks into plain-name keys
and tuple keys (all set partitions; key order and member order varied; groups of one block also as 1-tuples) is
crossed with every permutation of the blocks in the JointDistribution (= sweep order: members of a tuple adjacent or
separated by another block) and with joints whose hyper-parameters are directly coupled (hier3h: l ~ Gamma(3, rate=d);
hier3m: y ~ N(Ax, 1/(d l))).  A block sampler listed under a tuple key learns its block from the target it is handed.

Facet "type of the block's conditional target" (HybridGibbs carries the kernel's cached evaluations over from the
previous conditional and must re-evaluate them): joints in which the conditional of one block is a
MultipleLikelihoodPosterior (ml_sp: s enters a likelihood and a prior; ml_2y: x enters two likelihoods; hier3h: d enters
the densities of two other blocks) or a plain Distribution (prior2: no data, the conditional of x has no likelihood
factor), that block sampled by spy / MH / (where the library offers the gradient) MALA / NUTS.

Facet "value and representation of a block's configured step count" (HybridGibbs.num_sampling_steps): per block the
count is one of {0, 1, 2, 3, block not listed, listed with the value None} - 0 HOLDS the block: no transition, it keeps
its value in the current and in the stored samples and the other blocks condition on that constant value; a block that
is not listed makes the documented default 1.  The complete product over the blocks, crossed with the dict-order facet,
with the sampler class of the held block (every block sampler, held or not, is re-targeted and re-initialised at every
visit; NUTS through a path of its own) and with the way the number is written: python int / numpy.int64 / float /
bool.  Oracle: a run that is not refused makes exactly the integer number of transitions per visit.

Facet "family and LOCATION of a block's prior" (kernels that keep quantities DERIVED from the prior, the current point
and the current other blocks across the get_state / reinitialise / set_state cycle HybridGibbs runs at every visit):
joints x ~ LMRF(location, 0.5), l ~ Gamma, y ~ N(Ax, 1/l) with location in {non-zero vector, non-zero scalar, 0}; the x
block sampled by UGLA (judged against a dense reference of one UGLA transition linearised at the block's CURRENT value
for the scripted noise), the precision block by spy / Conjugate (/ MH), both joint orders, all histories.
"""
import itertools
import math
import numpy as np
from vfw.core import CellResult, close, HarnessError
from vfw import refs
from vfw.stream import Stream, Decisions, explore

PROPERTY = "C09"
RULE = ("cell = (interface, joint, assignment of {spy, real...} samplers to blocks, num_sampling_steps per block, "
        "order in which the sampling_strategy dict and the num_sampling_steps dict list the blocks relative to the "
        "joint's parameter order, which blocks have a step count given at all, HOW the initial value of each block is "
        "supplied: per block sampler-constructor initial_point / sampler.initial_point attribute / nothing, an "
        "init_point attribute on the block's density, an x0 on the legacy block sampler objects; the ORDER in which the "
        "JointDistribution lists the blocks (= sweep order); for cuqi.sampler.Gibbs the KEYS of the sampling strategy: "
        "plain names / tuples of names that give one sampler class to several blocks; the TYPE of the conditional target "
        "of a block: Posterior / MultipleLikelihoodPosterior / plain Distribution, decided by the joint; the VALUE of each "
        "block's step count: 0 (the block is held) / 1 / 2 / 3 / block not listed / listed with None, and its "
        "REPRESENTATION: python int / numpy.int64 / float / bool; the FAMILY and LOCATION of a block's prior: Gaussian / "
        "LMRF with location non-zero vector / non-zero scalar / 0, the LMRF block sampled by UGLA); "
        "inside a cell ALL operation sequences of the tier's depth are executed (prefix histories are judged at "
        "every operation end, so a depth-3 execution decides its 3 prefixes) and, with MH / MALA / NUTS blocks, all leaves of "
        "the decision tree of their uniform draws inside the stated deviation bound; state = (history, decision "
        "prefix); transition = one block-sampler step on the real code, judged for: which block, how many "
        "transitions per visit (the integer count configured for THAT block by name, default 1; 0 = none: the block "
        "keeps its value, the others condition on it, the stored samples repeat it), start point = the block's "
        "current value (first sweep of the run: the initial value supplied for that block; every later sweep, also the "
        "first one of a continuation call: the value stored by the previous sweep), target (log-density, for gradient kernels also gradient, at probes) = joint conditioned on the "
        "current others, evaluations the kernel has cached for its start (MH log-density, MALA / NUTS log-density and "
        "gradient), and the move itself against a reference kernel; a cell is non-trivial when at least one sweep "
        "was executed and compared")
BOUND = {
    "quick": "joints {hier3 (d,l,x), hier2 (x,d), gauss2 (u,v), hier3c (= hier3 with cov=1/d, NUTS-capable)}; "
             "assignments: all {spy,real-set-A}^blocks, {spy,MH}^blocks and {spy,set-A}^others x {NUTS (max_depth 0), "
             "MALA} on the gradient-capable block (x of hier3c, v of gauss2); HybridGibbs num_sampling_steps "
             "patterns (1..),(2..),(3,1,2) (NUTS/MALA cells: (1..),(3,1,2)); op sequences "
             "over {warmup(1),warmup(2),sample(1),sample(2)}: all of depth<=3 for cells without MH/MALA/NUTS, depth<=2 "
             "with; "
             "decision trees: complete when <=4 decisions, else all leaves with <=1 non-default answer + all-reject + "
             "alternating paths (period 2; NUTS also period 4); dict-order facet (depth<=2, counts (3,1,2)): all-spy "
             "blocks x ALL pairs (strategy-dict permutation, step-dict permutation) of the 2/3 blocks; counts given "
             "for all but the first block x all strategy permutations; no counts given; set-A real samplers with both "
             "dicts in each non-joint order; NUTS assignment with both dicts reversed; "
             "legacy Gibbs: ops {sample(1),sample(2),warmup(1),warmup(2),sample(1,Nb=1),"
             "sample(2,Nb=2)} depth<=2, strategy dict in every order (all-spy) / reversed (set A); "
             "initial-value facet (depth<=2, all op sequences of the interface's alphabet; hier3, hier2, gauss2): "
             "HybridGibbs all-spy blocks (counts (3,1,2)) x ALL {constructor initial_point, initial_point attribute, "
             "none}^blocks x {no, a decoy init_point attribute on every block density}; set-A real samplers x {the "
             "uniform supply the main product does not use, two alternating patterns, main supply + density decoy}; one "
             "MH block (first block, counts (1..)) and NUTS / MALA on v of gauss2 (counts (1..)) with the uniform supply "
             "the main product does not use; legacy Gibbs all-spy and set-A blocks x ALL {density init_point, "
             "none}^blocks, one MH block with init_point on every density, and block sampler objects built with an x0 "
             "of their own (set A, one MH block) x {no, every} density init_point; "
             "strategy-key facet (cuqi.sampler.Gibbs; joints hier3, hier3h (l ~ Gamma(3, rate=d): d,l coupled), hier2, "
             "gauss2): ALL permutations of the blocks in the JointDistribution x ALL set partitions of the blocks into "
             "keys (group of >=2 = tuple key); all-spy blocks, depth<=2: hier3/hier2/gauss2 in the usual joint order x "
             "every key order x every member order, otherwise keys and members in joint order and completely reversed; "
             "groups of one block also as 1-tuples (not hier3h); real classes: per grouping the first class every member of a "
             "key admits (Conjugate / LinearRTO / MH), depth<=2 without MH, depth 1 with; HybridGibbs x every "
             "non-usual joint order (hier3, hier2, gauss2; all-spy and set A, counts (3,1,2), depth<=2); "
             "conditional-type facet: joints ml_sp (s in a likelihood and a prior), ml_2y (x in two likelihoods), hier3h (d "
             "in two priors), prior2 (no data: plain Distribution): the non-Posterior block x {spy, MH, on prior2 also "
             "MALA, NUTS} x others {all spy, set A} x counts {(1..),(3,1,2)}, depth<=2, plus the cuqi.sampler.Gibbs cells of "
             "these assignments that have no gradient kernel (all-spy others only when the non-Posterior block is "
             "not a spy); "
             "step-count facet (HybridGibbs; hier3, hier2, gauss2; depth<=2): all-spy blocks x the COMPLETE product "
             "{0,1,2,3,not listed,None}^blocks (both dicts in joint order; no count listed: no dict and an empty dict); "
             "all-spy x the rotations of (0,3,2) x ALL pairs (strategy-dict permutation, step-dict permutation), "
             "(not listed,0,2) and (0,None,not listed) x all strategy permutations; the HELD block (count 0, the others "
             "(3,1,2)) x every kernel it admits {Conjugate | LinearRTO, MH, on v of gauss2 also NUTS, MALA} x others "
             "{all spy, set A}; a NUTS / MALA block (count 2) with all other blocks held; all-MH blocks x the rotations "
             "of (0,1,2); representation of the number (all-spy): numpy.int64 everywhere x {rotations of (0,1,2), (3,1,2), "
             "all 0} x {joint order, both dicts reversed}, bool everywhere x all {False,True}^blocks, float everywhere x "
             "{all 1.0, rotations of (0.0,1.0,2.0)}, ONE block in {int64 0/2, float 0.0/1.0/2.0, False/True} (each position) "
             "with python ints (3,1,2) / (0,2,0) on the others; set A x rotations of int64 (0,1,2) and of (False,True,2); "
             "prior facet (HybridGibbs; joints lmrf2 / lmrf2s / lmrf2z: x ~ LMRF(location non-zero vector / non-zero "
             "scalar / 0, 0.5), l ~ Gamma, y ~ N(Ax, 1/l)): x by UGLA x l in {spy, Conjugate} x counts {(1,1),(3,1)} in the "
             "usual joint order, (Conjugate, UGLA) with counts (3,1) in the reversed joint order; all op sequences of "
             "depth<=2",
    "thorough": "as quick but: all assignments of {spy,conj|rto,mh,nuts,mala} kinds (hier3c: those with a NUTS/MALA "
                "block); num_sampling_steps: full {1,2,3}^blocks product (3-block cells with MH: the 3 all-equal "
                "patterns + the 6 permutations of (1,2,3); 3-block cells with NUTS/MALA: the 3 all-equal patterns + the 3 "
                "rotations of (1,2,3)); depth<=3 for cells without MH/MALA/NUTS and for cells with exactly one such "
                "block and one transition per visit (steps (1..)), depth<=2 otherwise; complete decision trees up to 8 "
                "decisions (6 in depth-3 cells, 4 in the dict-order cells with a NUTS/MALA block); NUTS additionally with "
                "max_depth 1 (steps (1..)); dict-order facet: all-spy x all "
                "permutation pairs x all permutations of (1,2,3) as counts, three partial-count patterns, set A with all "
                "permutation pairs, NUTS and MALA assignments with every non-joint order; legacy depth<=3 (<=2 with >1 MH "
                "block), strategy dict in every order (all-spy and set A); initial-value facet: decision-free cells at "
                "depth<=3; HybridGibbs set A also x ALL supplies x {no, density decoy}; every assignment with an MH block "
                "(counts (1..)) with the uniform supply the main product does not use; NUTS / MALA (gauss2 and hier3c) x "
                "{other uniform supply, two alternating patterns, all-attribute} and main supply + density decoy; legacy: "
                "every assignment with an MH block with init_point on every density, every assignment with an MH / "
                "LinearRTO block built with an x0 of its own x {no, every} density init_point; strategy-key facet: also "
                "joint hier3m (y ~ N(Ax, 1/(d l))), every key order x member order for every joint order, 1-tuples on "
                "all joints, real classes: ALL assignments of {spy, common class} to the keys (depth<=2 with <=1 MH block, "
                "else 1) in joint order and reversed; HybridGibbs joint orders also on hier3h, hier3m; conditional-type "
                "facet: all assignments of the four joints with the main product's step-count patterns and depths; "
                "step-count facet: the complete product {0,1,2,3,not listed,None}^blocks at depth<=3 in joint order and at "
                "depth<=2 with both / either dict reversed; all {0,2,not listed}^blocks patterns with a 0 x ALL permutation "
                "pairs; representation: the complete product {int 0/2, int64 0/2, float 0.0/2.0, False/True}^blocks "
                "(all-spy); every assignment of the main product (also hier3c) x {one block held, the others (3,1,2)} and "
                "(3-block joints) {one block moving (count 2), the others held}; prior facet: every assignment of "
                "{spy, UGLA, MH} x {spy, Conjugate, MH} with a UGLA block in both joint orders (the others in the usual "
                "order) x counts {1,2,3}^2, depth<=3 without MH, <=2 with",
}
ASSUMPTIONS = [
    "reference joint log-densities (and the gradients of the Gaussian vector blocks, self-checked against central "
    "differences of the reference log-joint) are textbook Gamma / Gaussian formulas written in the harness (dense numpy)",
    "block kernels themselves are C02/C06/C10: here the real MH proposal is start + scale*xi with the *observed* "
    "scale (adaptation of the scale during warm-up is not judged), Conjugate draws are judged through the captured "
    "Gamma request, LinearRTO through the dense least-squares solution for the scripted noise (1e-7), MALA through the "
    "textbook Langevin proposal / Metropolis-Hastings ratio with the observed scale, NUTS through a "
    "reference implementation of Hoffman-Gelman algorithm 3 (slice variable in log space, scripted momentum and "
    "slice draw, observed answers of the symbolic uniforms, each compared probability checked) run with the "
    "*observed* step size and max_depth of each transition (HybridGibbs re-initialises a NUTS block at every visit, "
    "so step-size adaptation across visits, and the step size of the 2nd.. transition of a visit, are not judged)",
    "NUTS / MALA are offered only where the library provides the gradient of the block's conditional (Gaussian blocks written "
    "with cov=...; it refuses Gaussian(prec=scalar) priors and Gamma blocks at construction); cuqi.sampler.Gibbs is not "
    "given NUTS / MALA blocks",
    "invariance of the joint follows by composition (each block drawn from / invariant for the exact conditional) "
    "and is not re-enumerated",
    "decision trees larger than the stated size are explored deviation-bounded (<=1 rejection from all-accept, "
    "all-reject, alternating paths), not completely",
    "cuqi.sampler.Gibbs has no num_sampling_steps: one transition per visit; its block samplers are re-created from "
    "the conditional at every visit (factory called with the target) and advanced with step(x)",
    "HybridGibbs: for a block without a given initial point the reference starts from the value the sampler "
    "announces after construction (class-specific defaults: ones, zeros for LinearRTO; also when only the density "
    "carries an init_point, a route HybridGibbs does not document); a given initial_point (constructor or attribute) "
    "is compared strictly - where the block density carries an init_point as well, either of the two is accepted as "
    "the start of the run (the statement does not rank the routes); cuqi.sampler.Gibbs: the first sweep starts from the "
    "density's init_point where set, else from ones (strict); an x0 given to a legacy block sampler object never "
    "decides where a transition starts (Gibbs hands the current value to step); in every case all later sweeps and "
    "continuation calls start from the stored values of the previous sweep",
    "initial values are supplied as float64 1-D arrays before the Gibbs sampler is built (other representations, and "
    "changing them on a live sampler, are not enumerated)",
    "legacy Gibbs: a call that raises (second warm-up, continuing after a warm-up-only call) is a refusal and "
    "ends the history",
    "tuple keys: the blocks listed under one tuple key get one sampler factory, which identifies the block it is built "
    "for by the single parameter name of the conditional it is handed (a target with another set of parameter names is "
    "recorded as a transition of the wrong block); cuqi.experimental.mcmc.HybridGibbs takes no tuple keys",
    "type of the conditional target: decided by the joint (reduction of the conditioned JointDistribution); the observed "
    "class is recorded per transition (branch counts 'conditional-type:<class>:<kernel>') and enters the signature when "
    "it is not Posterior; MALA / NUTS on a MultipleLikelihoodPosterior block are not offered (the library has no "
    "gradient for it when another block's prior is among the factors); CWMH / pCN / ULA blocks are not in the alphabet",
    "step counts: the configured number of a block is the integer VALUE of what the user's dict lists for it (documented: "
    "'the number of times the sampler will call its step method in each Gibbs step. Default is 1'): 0 = no transition "
    "(the block is held; read from the unchanged code: range(0)), a block that is not listed or listed with None has "
    "the default 1; numpy.int64 / bool / integral float are representations of the same integer - a representation "
    "the library refuses (float, None: TypeError at the first visit of that block) ends the history as a refusal, a run "
    "that is not refused must make exactly that number of transitions; negative and non-integral numbers, 0-d arrays "
    "and changing num_sampling_steps on a live sampler are not enumerated; cuqi.sampler.Gibbs takes no step counts",
    "UGLA block (LMRF prior only; the library offers no other prior for it): judged against the dense least-squares "
    "solution of one transition of Uribe et al. (2022) sec. 3.3 written in the harness - Gaussian approximation of the "
    "Laplace-difference prior with weights ((D x)^2 + beta)^(-1/2) at the block's CURRENT value (first differences, zero "
    "boundary), documented default beta = 1e-5, inner CGLS converged (maxit 50, tol 1e-13, 2 unknowns; compared at "
    "1e-7); the scale of the LMRF prior is a fixed number (ConjugateApprox blocks and cuqi.sampler.Gibbs with UGLA are "
    "not in the alphabet); other stateful linear-solver kernels (RegularizedLinearRTO) are not enumerated",
    "dict orders: Python dicts keep insertion order; the blocks of a sweep are expected in the joint's parameter order "
    "(target.get_parameter_names()) whatever the order of the user's dicts",
]

LMRF_MODELS = ("lmrf2", "lmrf2s", "lmrf2z")     # location of the LMRF prior: non-zero vector / non-zero scalar / 0
IFACE_NAME = {"hybrid": "cuqi.experimental.mcmc.HybridGibbs", "legacy": "cuqi.sampler.Gibbs"}
HYBRID_OPS = [["w", 1], ["w", 2], ["s", 1], ["s", 2]]
LEGACY_OPS = [["s", 1, 0], ["s", 2, 0], ["s", 0, 1], ["s", 0, 2], ["s", 1, 1], ["s", 2, 2]]


# ========================================================================================
# reference densities (textbook)
# ========================================================================================
def _gamma_logpdf(t, a, b):
    t = float(np.ravel(t)[0])
    if not (t > 0):
        return -np.inf
    return a * math.log(b) + (a - 1.0) * math.log(t) - b * t - math.lgamma(a)


def _gauss_iso(x, mean, var):
    x = np.asarray(x, float).ravel()
    mean = np.asarray(mean, float).ravel()
    var = float(np.ravel(var)[0])
    if not (var > 0) or not np.isfinite(var):
        return -np.inf
    r = x - mean
    return -0.5 * x.size * math.log(2 * math.pi * var) - 0.5 * float(r @ r) / var


class Model:
    """A joint target: how to build it in CUQIpy, and its reference log-density / conditionals."""

    def __init__(self, name, k, jorder=None):
        self.name = name
        self.k = k
        n, m = 2, 3
        self.n, self.m = n, m
        self.special = None       # the block whose conditional is not a Posterior (facet "type of the conditional")
        self.A = refs.full_matrix(m, n, k)
        self.y = refs.dyadic_vec(m, k + 2, scale=0.25)
        self.mx = refs.dyadic_vec(n, k + 1, scale=0.125)
        if name in ("hier3", "hier3c"):
            # hier3c: the same law, the prior of x written with cov=1/d instead of prec=d (the form for which the
            # library offers the gradient of the x-conditional, i.e. accepts a NUTS block)
            self.order = ["d", "l", "x"]
            self.kind = {"d": "pos", "l": "pos", "x": "vec"}
            self.dim = {"d": 1, "l": 1, "x": n}
            self.hyper = {"d": (2.0, 1.5), "l": (3.0, 0.5)}
            self.init = {"d": np.array([2.0]), "l": np.array([1.5]), "x": refs.dyadic_vec(n, k + 4, scale=0.25)}
            self.real = {"d": ["conj", "mh"], "l": ["conj", "mh"],
                         "x": ["rto", "mh"] if name == "hier3" else ["nuts", "mala"]}
        elif name == "hier2":
            self.order = ["x", "d"]
            self.kind = {"d": "pos", "x": "vec"}
            self.dim = {"d": 1, "x": n}
            self.hyper = {"d": (1.0, 1e-2)}
            self.init = None          # main product: no initial point given (library default)
            self.real = {"d": ["conj", "mh"], "x": ["rto", "mh"]}
        elif name == "gauss2":
            self.order = ["u", "v"]
            self.kind = {"u": "vec", "v": "vec"}
            self.dim = {"u": n, "v": n}
            self.B = refs.full_matrix(n, n, k + 1) * 0.5
            self.Cu = refs.spd_matrix(n, k)
            self.mu = refs.dyadic_vec(n, k + 3, scale=0.125)
            self.init = {"u": refs.dyadic_vec(n, k + 5, scale=0.25), "v": refs.dyadic_vec(n, k + 6, scale=0.25)}
            self.real = {"u": ["mh"], "v": ["rto", "mh", "nuts", "mala"]}
        elif name in ("hier3h", "hier3m"):
            # joints in which the hyper-parameters d and l are DIRECTLY coupled.  hier3h: l ~ Gamma(3, rate=d), a
            # hyper-parameter of a hyper-parameter; d enters the densities of l and of x, its conditional has two
            # likelihood factors (MultipleLikelihoodPosterior).  hier3m: d and l enter the same density,
            # y ~ N(Ax, 1/(d l)).
            self.order = ["d", "l", "x"]
            self.kind = {"d": "pos", "l": "pos", "x": "vec"}
            self.dim = {"d": 1, "l": 1, "x": n}
            self.hyper = {"d": (2.0, 1.5), "l": (3.0, 0.5)}
            self.init = {"d": np.array([2.0]), "l": np.array([1.5]), "x": refs.dyadic_vec(n, k + 4, scale=0.25)}
            if name == "hier3h":
                self.real = {"d": ["mh"], "l": ["conj", "mh"], "x": ["rto", "mh"]}
                self.special = "d"
            else:
                self.real = {"d": ["mh"], "l": ["mh"], "x": ["rto", "mh"]}
        elif name == "ml_sp":
            # s enters a likelihood AND a prior: x ~ N(mx, 4/s), y ~ N(Ax, 1/s); conditional of s = prior x two
            # likelihood factors (MultipleLikelihoodPosterior)
            self.order = ["s", "x"]
            self.kind = {"s": "pos", "x": "vec"}
            self.dim = {"s": 1, "x": n}
            self.hyper = {"s": (2.0, 1.0)}
            self.init = {"s": np.array([1.5]), "x": refs.dyadic_vec(n, k + 4, scale=0.25)}
            self.real = {"s": ["mh"], "x": ["rto", "mh"]}
            self.special = "s"
        elif name == "ml_2y":
            # x enters TWO likelihoods (two data sets y, z): its conditional is a MultipleLikelihoodPosterior
            self.order = ["d", "x"]
            self.kind = {"d": "pos", "x": "vec"}
            self.dim = {"d": 1, "x": n}
            self.hyper = {"d": (2.0, 1.0)}
            self.C = refs.full_matrix(n, n, k + 1) * 0.5
            self.z = refs.dyadic_vec(n, k + 8, scale=0.25)
            self.init = {"d": np.array([1.5]), "x": refs.dyadic_vec(n, k + 4, scale=0.25)}
            self.real = {"d": ["conj", "mh"], "x": ["mh"]}
            self.special = "x"
        elif name == "prior2":
            # no data at all: the conditional of x has no likelihood factor, it is a plain Distribution (Gaussian)
            self.order = ["d", "x"]
            self.kind = {"d": "pos", "x": "vec"}
            self.dim = {"d": 1, "x": n}
            self.hyper = {"d": (2.0, 1.5)}
            self.init = {"d": np.array([2.0]), "x": refs.dyadic_vec(n, k + 4, scale=0.25)}
            self.real = {"d": ["mh"], "x": ["mh", "nuts", "mala"]}
            self.special = "x"
        elif name in LMRF_MODELS:
            # facet "family and LOCATION of a block's prior": x ~ LMRF(location, 0.5) (Laplace differences, zero boundary),
            # l ~ Gamma, y ~ N(Ax, 1/l); location a non-zero vector / a non-zero scalar / 0.  The x block admits UGLA, a
            # kernel that carries quantities derived from (current point, prior location, current others).
            self.order = ["x", "l"]
            self.kind = {"l": "pos", "x": "vec"}
            self.dim = {"l": 1, "x": n}
            self.hyper = {"l": (3.0, 0.5)}
            self.lscale = 0.5
            self.loc = {"lmrf2": self.mx + np.array([0.5, -0.25])[:n], "lmrf2s": np.array([0.375]),
                        "lmrf2z": np.array([0.0])}[name]
            self.D = np.zeros((n + 1, n))          # first differences with zero boundary values on both sides
            for i in range(n):
                self.D[i, i], self.D[i + 1, i] = 1.0, -1.0
            self.init = {"x": refs.dyadic_vec(n, k + 4, scale=0.25), "l": np.array([1.5])}
            self.real = {"x": ["ugla", "mh"], "l": ["conj", "mh"]}
        else:
            raise ValueError(name)
        self.base_order = list(self.order)
        if jorder is not None:
            # facet "order in which the joint lists the blocks" (= the order of a sweep)
            if sorted(jorder) != list(range(len(self.order))):
                raise HarnessError("jorder %r is not a permutation" % (jorder,))
            self.order = [self.base_order[i] for i in jorder]
        # the values a block is started from wherever the cell SUPPLIES an initial value for it (facet "init")
        self.ival = (self.init if self.init is not None else
                     {"x": refs.dyadic_vec(n, k + 4, scale=0.25), "d": np.array([2.0])})

    def decoy(self, b):
        """A value handed over through a route that must NOT decide where a sweep starts."""
        if self.kind[b] == "pos":
            return np.array([3.25])
        return refs.dyadic_vec(self.dim[b], self.k + 13, scale=0.375)

    # ---- CUQIpy side -------------------------------------------------------------------
    def make_joint(self, init_points=None):
        """init_points: {block: value} set as the `init_point` attribute of that block's density before the joint
        (and hence the sampler) is built."""
        import cuqi
        from cuqi.distribution import Gamma, Gaussian, JointDistribution
        A = cuqi.model.LinearModel(self.A.copy())

        def joint(*dens):
            for dn in dens:
                if init_points and dn.name in init_points:
                    dn.init_point = np.array(init_points[dn.name], dtype=float, copy=True)
            # the blocks in the order of this cell (facet "joint order"), then the data densities
            byname = {dn.name: dn for dn in dens}
            rest = [dn for dn in dens if dn.name not in self.order]
            return JointDistribution(*([byname[b] for b in self.order] + rest))
        if self.name in ("hier3", "hier3c"):
            d = Gamma(*self.hyper["d"], name="d")
            l = Gamma(*self.hyper["l"], name="l")
            if self.name == "hier3":
                x = Gaussian(self.mx.copy(), prec=lambda d: d, name="x")
            else:
                x = Gaussian(self.mx.copy(), cov=lambda d: 1 / d, name="x")
            y = Gaussian(A @ x, cov=lambda l: 1 / l, name="y")
            return joint(d, l, x, y)(y=self.y.copy())
        if self.name == "hier2":
            d = Gamma(*self.hyper["d"], name="d")
            x = Gaussian(self.mx.copy(), prec=lambda d: d, name="x")
            y = Gaussian(A @ x, 0.25, name="y")
            return joint(x, d, y)(y=self.y.copy())
        if self.name == "hier3h":
            d = Gamma(*self.hyper["d"], name="d")
            l = Gamma(self.hyper["l"][0], lambda d: d, name="l")
            x = Gaussian(self.mx.copy(), prec=lambda d: d, name="x")
            y = Gaussian(A @ x, cov=lambda l: 1 / l, name="y")
            return joint(d, l, x, y)(y=self.y.copy())
        if self.name == "hier3m":
            d = Gamma(*self.hyper["d"], name="d")
            l = Gamma(*self.hyper["l"], name="l")
            x = Gaussian(self.mx.copy(), 0.5, name="x")
            y = Gaussian(A @ x, cov=lambda d, l: 1 / (d * l), name="y")
            return joint(d, l, x, y)(y=self.y.copy())
        if self.name == "ml_sp":
            s_ = Gamma(*self.hyper["s"], name="s")
            x = Gaussian(self.mx.copy(), cov=lambda s: 4 / s, name="x")
            y = Gaussian(A @ x, cov=lambda s: 1 / s, name="y")
            return joint(s_, x, y)(y=self.y.copy())
        if self.name == "ml_2y":
            C = cuqi.model.LinearModel(self.C.copy())
            d = Gamma(*self.hyper["d"], name="d")
            x = Gaussian(self.mx.copy(), 0.5, name="x")
            y = Gaussian(A @ x, cov=lambda d: 1 / d, name="y")
            z = Gaussian(C @ x, 0.25, name="z")
            return joint(d, x, y, z)(y=self.y.copy(), z=self.z.copy())
        if self.name == "prior2":
            d = Gamma(*self.hyper["d"], name="d")
            x = Gaussian(self.mx.copy(), cov=lambda d: 1 / d, name="x")
            return joint(d, x)
        if self.name in LMRF_MODELS:
            from cuqi.distribution import LMRF
            loc = self.loc.copy() if self.loc.size > 1 else float(self.loc[0])
            x = LMRF(loc, self.lscale, geometry=self.n, name="x")
            l = Gamma(*self.hyper["l"], name="l")
            y = Gaussian(A @ x, cov=lambda l: 1 / l, name="y")
            return joint(x, l, y)(y=self.y.copy())
        B = self.B.copy()
        u = Gaussian(self.mu.copy(), self.Cu.copy(), name="u")
        v = Gaussian(lambda u: B @ u, 0.5, geometry=self.n, name="v")
        y = Gaussian(A @ v, 0.25, name="y")
        return joint(u, v, y)(y=self.y.copy())

    def init_codes(self, cell):
        """How the initial value of each block is supplied in this cell (joint order).
        hybrid: 'given' = initial_point= of the block's sampler object, 'attr' = sampler.initial_point assigned after
        its construction, 'def' = nothing; legacy: 'dens' = `init_point` attribute of the block's density, 'def' = nothing."""
        if cell.get("init"):
            return list(cell["init"])
        if cell["iface"] == "legacy" or self.init is None:
            return ["def"] * len(self.order)
        return ["given"] * len(self.order)

    def initial(self, iface):
        if iface == "legacy" or self.init is None:
            return {b: np.ones(self.dim[b]) for b in self.order}
        return {b: self.init[b].copy() for b in self.order}

    # ---- reference side ----------------------------------------------------------------
    def logjoint(self, v):
        if self.name in ("hier3", "hier3c"):
            d, l, x = float(v["d"][0]), float(v["l"][0]), v["x"]
            if not (d > 0 and l > 0):
                return -np.inf
            return (_gamma_logpdf(d, *self.hyper["d"]) + _gamma_logpdf(l, *self.hyper["l"])
                    + _gauss_iso(x, self.mx, 1.0 / d) + _gauss_iso(self.y, self.A @ x, 1.0 / l))
        if self.name == "hier2":
            d, x = float(v["d"][0]), v["x"]
            if not d > 0:
                return -np.inf
            return (_gamma_logpdf(d, *self.hyper["d"]) + _gauss_iso(x, self.mx, 1.0 / d)
                    + _gauss_iso(self.y, self.A @ x, 0.25))
        if self.name == "hier3h":
            d, l, x = float(v["d"][0]), float(v["l"][0]), v["x"]
            if not (d > 0 and l > 0):
                return -np.inf
            return (_gamma_logpdf(d, *self.hyper["d"]) + _gamma_logpdf(l, self.hyper["l"][0], d)
                    + _gauss_iso(x, self.mx, 1.0 / d) + _gauss_iso(self.y, self.A @ x, 1.0 / l))
        if self.name == "hier3m":
            d, l, x = float(v["d"][0]), float(v["l"][0]), v["x"]
            if not (d > 0 and l > 0):
                return -np.inf
            return (_gamma_logpdf(d, *self.hyper["d"]) + _gamma_logpdf(l, *self.hyper["l"])
                    + _gauss_iso(x, self.mx, 0.5) + _gauss_iso(self.y, self.A @ x, 1.0 / (d * l)))
        if self.name == "ml_sp":
            s_, x = float(v["s"][0]), v["x"]
            if not s_ > 0:
                return -np.inf
            return (_gamma_logpdf(s_, *self.hyper["s"]) + _gauss_iso(x, self.mx, 4.0 / s_)
                    + _gauss_iso(self.y, self.A @ x, 1.0 / s_))
        if self.name == "ml_2y":
            d, x = float(v["d"][0]), v["x"]
            if not d > 0:
                return -np.inf
            return (_gamma_logpdf(d, *self.hyper["d"]) + _gauss_iso(x, self.mx, 0.5)
                    + _gauss_iso(self.y, self.A @ x, 1.0 / d) + _gauss_iso(self.z, self.C @ x, 0.25))
        if self.name == "prior2":
            d, x = float(v["d"][0]), v["x"]
            if not d > 0:
                return -np.inf
            return _gamma_logpdf(d, *self.hyper["d"]) + _gauss_iso(x, self.mx, 1.0 / d)
        if self.name in LMRF_MODELS:
            l, x = float(v["l"][0]), v["x"]
            if not l > 0:
                return -np.inf
            dx = self.D @ (x - self.loc)            # a scalar location broadcasts
            return (_gamma_logpdf(l, *self.hyper["l"]) - len(dx) * math.log(2.0 * self.lscale)
                    - float(np.sum(np.abs(dx))) / self.lscale + _gauss_iso(self.y, self.A @ x, 1.0 / l))
        u, w = v["u"], v["v"]
        return (refs.gauss_logpdf(u, self.mu, self.Cu) + _gauss_iso(w, self.B @ u, 0.5)
                + _gauss_iso(self.y, self.A @ w, 0.25))

    def cond_logd(self, b, val, cur):
        vv = dict(cur)
        vv[b] = np.asarray(val, float).ravel()
        return self.logjoint(vv)

    def cond_grad(self, b, val, cur):
        """Gradient of the conditional log-density of a vector block (all are Gaussian in the block)."""
        z = np.asarray(val, float).ravel()
        if self.name == "prior2":
            return -float(cur["d"][0]) * (z - self.mx)
        if self.name not in ("hier3", "hier3c", "hier2", "gauss2"):
            raise HarnessError("no reference gradient for joint %r" % self.name)
        if self.name in ("hier3", "hier3c", "hier2"):
            d = float(cur["d"][0])
            lam = float(cur["l"][0]) if "l" in cur else 4.0
            return -d * (z - self.mx) + lam * (self.A.T @ (self.y - self.A @ z))
        if b == "v":
            return -2.0 * (z - self.B @ cur["u"]) + 4.0 * (self.A.T @ (self.y - self.A @ z))
        return -np.linalg.solve(self.Cu, z - self.mu) + 2.0 * (self.B.T @ (cur["v"] - self.B @ z))

    def conj_params(self, b, cur):
        """Exact Gamma conditional (shape, rate) of a precision-type block."""
        a, r = self.hyper[b]
        if self.name == "hier3h" and b == "l":
            r = float(cur["d"][0])          # l ~ Gamma(3, rate=d)
        elif (self.name not in ("hier3", "hier3c", "hier2") + LMRF_MODELS
              and not (self.name == "ml_2y" and b == "d")):
            raise HarnessError("no reference conjugate update for block %r of joint %r" % (b, self.name))
        if b == "d" and self.name != "ml_2y":
            res = cur["x"] - self.mx
            return a + 0.5 * self.n, r + 0.5 * float(res @ res)
        res = self.A @ cur["x"] - self.y
        return a + 0.5 * self.m, r + 0.5 * float(res @ res)

    def rto_solution(self, b, cur, e):
        """argmin || M x - (b~ + e) ||  for the scripted noise e (likelihood rows first, then prior rows)."""
        if self.name in ("hier3", "hier3c", "hier3h"):
            sl, sp, pm = math.sqrt(float(cur["l"][0])), math.sqrt(float(cur["d"][0])), self.mx
        elif self.name == "hier3m":
            sl, sp, pm = math.sqrt(float(cur["d"][0]) * float(cur["l"][0])), math.sqrt(2.0), self.mx
        elif self.name == "ml_sp":
            sl, sp, pm = math.sqrt(float(cur["s"][0])), math.sqrt(float(cur["s"][0]) / 4.0), self.mx
        elif self.name == "hier2":
            sl, sp, pm = 2.0, math.sqrt(float(cur["d"][0])), self.mx
        elif self.name == "gauss2":
            sl, sp, pm = 2.0, math.sqrt(2.0), self.B @ cur["u"]
        else:
            raise HarnessError("no reference LinearRTO solution for joint %r" % self.name)
        M = np.vstack([sl * self.A, sp * np.eye(self.n)])
        rhs = np.concatenate([sl * self.y, sp * pm]) + e
        return np.linalg.lstsq(M, rhs, rcond=None)[0]

    def ugla_solution(self, b, cur, e, beta=1e-5):
        """One UGLA transition (Uribe et al. 2022, sec. 3.3) from cur[b]: the Laplace-difference prior is replaced by the
        Gaussian with square-root precision L = diag(((D x_cur)^2 + beta)^(-1/4)) D / sqrt(scale) around the CURRENT
        value of the block; the draw is argmin || M x - (b~ + e) || with likelihood rows first, then the prior rows
        L x ~ L location, for the scripted noise e."""
        if self.name not in LMRF_MODELS:
            raise HarnessError("no reference UGLA transition for joint %r" % self.name)
        sl = math.sqrt(float(cur["l"][0]))
        xk = np.asarray(cur[b], float).ravel()
        L = (((self.D @ xk) ** 2 + beta) ** -0.25)[:, None] * self.D / math.sqrt(self.lscale)
        loc = self.loc if self.loc.size > 1 else np.repeat(self.loc, self.n)
        M = np.vstack([sl * self.A, L])
        rhs = np.concatenate([sl * self.y, L @ loc]) + e
        return np.linalg.lstsq(M, rhs, rcond=None)[0]

    def probes(self, b):
        if self.kind[b] == "pos":
            return [np.array([0.5]), np.array([1.25]), np.array([3.0])]
        return [refs.dyadic_vec(self.dim[b], self.k + 7 + 2 * i, scale=0.25) for i in range(3)]


# ---- the scripted environment (shared by the run and the reference) ---------------------
def normal_script(n, i):
    return refs.dyadic_vec(n, (3 * i + 1) % 24, scale=0.0625)      # |xi| <= ~0.95


def gamma_script(i):
    return 0.75 + 0.25 * ((5 * i + 2) % 9)


def exp_script(i):
    return 0.25 + 0.375 * ((3 * i + 1) % 7)


def spy_value(kind, dim, j):
    if kind == "pos":
        return np.array([0.75 + 0.25 * ((3 * j + 1) % 11)])
    return refs.dyadic_vec(dim, (j + 2) % 20, scale=0.25)


MH_SCALE = {"pos": 0.05, "vec": 0.5}
NUTS_EPS = 0.125          # configured step_size of NUTS blocks (the step size of each transition is *observed*)
SPECIAL_KINDS = ("nuts",)  # sampler classes HybridGibbs.step routes through a path of their own
GRAD_KINDS = ("nuts", "mala")   # kernels that read (and cache) the gradient of the conditional
DEC_KINDS = ("mh", "nuts", "mala")   # kernels with uniform draws (decision points)
MALA_SCALE = 0.0625

# ---- facet "value and representation of a block's configured step count" (HybridGibbs.num_sampling_steps) ----
# cell["nsteps"][i]: the number (None: no number); cell["nrep"][i]: how it is written into the user's dict.
#   int   - python int                      np64 - numpy.int64                 float - python float with that value
#   bool  - True / False (an int subclass)  none - the key is listed with the value None
# a block with nsteps None and another representation than "none" is NOT listed in the dict (missing key)
COUNT_REPS = ("int", "np64", "float", "bool", "none")


def _count_object(n, rep):
    """The object written into the user's num_sampling_steps dict for one block."""
    if rep == "none":
        return None
    if rep == "np64":
        return np.int64(n)
    if rep == "float":
        return float(n)
    if rep == "bool":
        if n not in (0, 1):
            raise HarnessError("a bool count is 0 or 1, not %r" % (n,))
        return bool(n)
    if rep != "int":
        raise HarnessError("unknown count representation %r" % (rep,))
    return int(n)


def _count_meaning(n, rep="int"):
    """Transitions per sweep the configuration asks for (documented meaning: 'the number of times the sampler will
    call its step method in each Gibbs step. Default is 1'): the integer value, whatever its representation - 0 = the
    block is held at its value; a block that is not listed, or listed with None, has the default 1.  (A representation
    the library refuses ends the history as a refusal; a run that does not refuse must make exactly this number.)"""
    if n is None:
        return 1
    return int(n)


def _cell_counts(cell, nb):
    """[(number | None, representation)] per block (joint order) of a HybridGibbs cell."""
    ns = cell.get("nsteps") or [1] * nb
    rp = cell.get("nrep") or ["int"] * nb
    return list(zip(ns, rp))


# ========================================================================================
# recording block samplers
# ========================================================================================
def _target_type(target):
    """Facet 'type of the block's conditional target': Posterior / MultipleLikelihoodPosterior / Distribution."""
    import cuqi
    D = cuqi.distribution
    if isinstance(target, D.MultipleLikelihoodPosterior):
        return "MultipleLikelihoodPosterior"
    if isinstance(target, D.Posterior):
        return "Posterior"
    if isinstance(target, D.JointDistribution):
        return "JointDistribution"
    if isinstance(target, D.Distribution):
        return "Distribution"
    return type(target).__name__


def _block_of(target):
    """The block a conditional target is for (a block sampler listed under a TUPLE key of the legacy strategy is
    one factory for several blocks: it learns its block from the target it is handed)."""
    try:
        names = list(target.get_parameter_names())
    except Exception:   # noqa
        return "?"
    return names[0] if len(names) == 1 else "?" + ",".join(str(n_) for n_ in names)


class Recorder:
    def __init__(self, model, stream):
        self.model = model
        self.stream = stream
        self.events = []
        self.spy_count = 0
        self._last_target = None

    def before(self, block, kind, target, start, scale=None, extra=None):
        ev = {"block": block, "kind": kind, "scale": None if scale is None else float(np.ravel(scale)[0]),
              "start": np.array(start, dtype=float, copy=True).ravel(), "probes": [], "probe_error": None,
              "gprobe": None, "extra": extra, "ttype": _target_type(target)}
        # all 3 probes at the first transition of a visit (new target object / other block before), 1 probe
        # (detects in-place changes of the target) on the following transitions of the same visit
        same = self.events and self.events[-1]["block"] == block and self._last_target is target
        self._last_target = target
        ev["same_visit"] = bool(same)
        try:
            for p in self.model.probes(block)[:1 if same else 3]:
                ev["probes"].append(float(np.asarray(target.logd(p.copy())).ravel()[0]))
            if kind in GRAD_KINDS:      # kernels that move along the gradient: the gradient of the target too
                ev["gprobe"] = np.array(target.gradient(self.model.probes(block)[0].copy()), dtype=float).ravel()
        except HarnessError:
            raise
        except Exception as e:   # noqa
            ev["probe_error"] = "%s: %s" % (type(e).__name__, e)
        ev["_nlog"] = len(self.stream.log)
        ev["_ndec"] = len(self.stream.decisions.points)
        self.events.append(ev)
        return ev

    def after(self, ev, new, acc=None):
        ev["new"] = np.array(new, dtype=float, copy=True).ravel()
        ev["acc"] = acc
        ev["log"] = self.stream.log[ev.pop("_nlog"):]
        ev["dec"] = self.stream.decisions.points[ev.pop("_ndec"):]


def _hybrid_classes():
    """Recording subclasses for the new interface (built lazily: importing cuqi is slow)."""
    import cuqi
    from cuqi.experimental.mcmc import Sampler, MH, Conjugate, LinearRTO, NUTS, MALA, UGLA
    if getattr(_hybrid_classes, "_c", None):
        return _hybrid_classes._c

    class Spy(Sampler):
        def validate_target(self):
            pass

        def _initialize(self):
            pass

        def tune(self, skip_len, update_count):
            pass

        def step(self):
            r = self._vrec
            ev = r.before(self._vblock, "spy", self.target, self.current_point)
            val = spy_value(r.model.kind[self._vblock], r.model.dim[self._vblock], r.spy_count)
            r.spy_count += 1
            self.current_point = val
            r.after(ev, val, 1)
            return 1

    def rec(base, kind):
        class Rec(base):
            def step(self):
                r = self._vrec
                ev = r.before(self._vblock, kind, self.target, self.current_point, getattr(self, "scale", None))
                acc = base.step(self)
                r.after(ev, self.current_point, acc)
                return acc
        Rec.__name__ = base.__name__
        return Rec

    def grec(base, kind, scale_attr):
        """Gradient kernels read their start from current_point AND from the cached log-density / gradient: all
        three are recorded."""
        class Rec(base):
            def step(self):
                r = self._vrec
                extra = {"max_depth": int(getattr(self, "max_depth", 0)),
                         "cached_logd": float(np.asarray(self.current_target_logd, dtype=float).ravel()[0]),
                         "cached_grad": np.array(self.current_target_grad, dtype=float, copy=True).ravel()}
                ev = r.before(self._vblock, kind, self.target, self.current_point, getattr(self, scale_attr), extra)
                acc = base.step(self)
                r.after(ev, self.current_point, acc)
                return acc
        Rec.__name__ = base.__name__
        return Rec

    _hybrid_classes._c = {"spy": Spy, "mh": rec(MH, "mh"), "conj": rec(Conjugate, "conj"),
                          "rto": rec(LinearRTO, "rto"), "ugla": rec(UGLA, "ugla"), "nuts": grec(NUTS, "nuts", "_epsilon"),
                          "mala": grec(MALA, "mala", "scale")}
    return _hybrid_classes._c


def _make_hybrid_sampler(kind, block, model, recorder, code, nuts_depth=0):
    """code: how the block's initial value is supplied - 'given' (initial_point= of the constructor), 'attr'
    (sampler.initial_point assigned after construction), 'def' (not at all)."""
    C = _hybrid_classes()[kind]
    ip = model.ival[block].copy() if code == "given" else None
    if kind == "mh":
        s = C(scale=MH_SCALE[model.kind[block]], initial_point=ip)
    elif kind == "nuts":
        s = C(max_depth=int(nuts_depth), step_size=NUTS_EPS, initial_point=ip)
    elif kind == "mala":
        s = C(scale=MALA_SCALE, initial_point=ip)
    elif kind in ("rto", "ugla"):
        s = C(maxit=50, tol=1e-13, initial_point=ip)      # inner solver converged (2 unknowns); UGLA: default beta
    else:
        s = C(initial_point=ip)
    if code == "attr":
        s.initial_point = model.ival[block].copy()
    s._vrec = recorder
    s._vblock = block
    return s


class LegacyBlock:
    """What cuqi.sampler.Gibbs needs from a block sampler: construct from the conditional, step(x) -> array."""

    def __init__(self, recorder, block, kind, target, x0_decoy=False):
        import cuqi
        self.r, self.block, self.kind, self.target = recorder, block, kind, target
        self.inner = None
        if block not in recorder.model.kind:
            # handed a target that is not the conditional of one block: recorded (the judge reports the wrong
            # block), the value is left where it is
            self.kind = kind = "unknown"
        # x0_decoy: the block sampler object itself is built with an x0 of its own (where its class has one); within
        # a sweep it must nevertheless start from the block's current value, which Gibbs hands to step(x)
        kw = {"x0": recorder.model.decoy(block)} if (x0_decoy and kind != "unknown") else {}
        if kind == "mh":
            self.inner = cuqi.sampler.MH(target, scale=MH_SCALE[recorder.model.kind[block]], **kw)
        elif kind == "conj":
            self.inner = cuqi.sampler.Conjugate(target)
        elif kind == "rto":
            self.inner = cuqi.sampler.LinearRTO(target, maxit=50, tol=1e-13, **kw)

    def step(self, x):
        r = self.r
        ev = r.before(self.block, self.kind, self.target, x, getattr(self.inner, "scale", None))
        if self.kind == "unknown":
            val = np.array(x, dtype=float, copy=True)
        elif self.kind == "spy":
            val = spy_value(r.model.kind[self.block], r.model.dim[self.block], r.spy_count)
            r.spy_count += 1
        else:
            val = self.inner.step(x)
        r.after(ev, val, None)
        return np.asarray(val).reshape(-1) if self.kind in ("spy", "unknown") else val


# ========================================================================================
# one execution of one history on the real code
# ========================================================================================
def run_history(cell, model, seq, decisions):
    """Executes the operation sequence; returns the observation (events + snapshots after each op)."""
    iface = cell["iface"]
    stream = Stream(normal=normal_script, gamma=lambda rec, i: gamma_script(i),
                    exponential=lambda rec, i: exp_script(i), decisions=decisions)
    nb = len(model.order)
    sorder = cell.get("sorder") or list(range(nb))      # order in which the strategy dict lists the blocks
    norder = cell.get("norder") or list(range(nb))      # order in which the step-count dict lists the blocks
    recorder = Recorder(model, stream)
    obs = {"ops": [], "refused_at": None, "construct_error": None}
    codes = model.init_codes(cell)
    # `init_point` attributes of the block densities: the legacy route of supplying an initial value ('dens'); for
    # HybridGibbs (which takes initial values from the sampler objects) a decoy on every block
    if iface == "legacy":
        dens_init = {b: model.ival[b] for b, c_ in zip(model.order, codes) if c_ == "dens"}
    else:
        dens_init = {b: model.decoy(b) for b in model.order} if cell.get("dens_decoy") else {}
    with stream.installed():
        try:
            joint = model.make_joint(dens_init)
            if iface == "hybrid":
                import cuqi
                samplers = {model.order[i]: _make_hybrid_sampler(cell["assign"][i], model.order[i], model, recorder,
                                                                 codes[i], cell.get("nuts_depth", 0))
                            for i in sorder}
                counts = _cell_counts(cell, nb)
                nss = {model.order[i]: _count_object(*counts[i]) for i in norder
                       if counts[i][0] is not None or counts[i][1] == "none"}
                if not nss and not cell.get("empty_dict"):
                    nss = None          # no step counts given at all: the documented default (1 everywhere)
                G = cuqi.experimental.mcmc.HybridGibbs(joint, samplers, nss)
                obs["initial"] = {b: np.array(G.current_samples[b], dtype=float, copy=True).ravel()
                                  for b in model.order}
            else:
                import cuqi
                strat = {}
                if cell.get("skeys") is not None:
                    # facet "keys of the sampling strategy": a plain name (int) or a TUPLE of names (list) that
                    # assigns one sampler class to several blocks; keys and tuple members in the order written
                    covered = []
                    for key in cell["skeys"]:
                        members = list(key) if isinstance(key, list) else [key]
                        covered += members
                        kinds = sorted({cell["assign"][i] for i in members})
                        if len(kinds) != 1:
                            raise HarnessError("blocks under one tuple key need one sampler class: %r" % (cell,))
                        fac = (lambda target, _k=kinds[0]:
                               LegacyBlock(recorder, _block_of(target), _k, target, bool(cell.get("x0_decoy"))))
                        if isinstance(key, list):
                            strat[tuple(model.order[i] for i in key)] = fac
                        else:
                            strat[model.order[key]] = fac
                    if sorted(covered) != list(range(nb)):
                        raise HarnessError("strategy keys do not cover every block once: %r" % (cell,))
                else:
                    for i in sorder:
                        b = model.order[i]
                        strat[b] = (lambda target, _b=b, _k=cell["assign"][i]:
                                    LegacyBlock(recorder, _b, _k, target, bool(cell.get("x0_decoy"))))
                G = cuqi.sampler.Gibbs(joint, strat)
        except HarnessError:
            raise
        except Exception as e:   # noqa - the library refuses this configuration
            obs["construct_error"] = "%s: %s" % (type(e).__name__, e)
            obs["events"] = recorder.events
            return obs
        for oi, op in enumerate(seq):
            try:
                if iface == "hybrid":
                    if op[0] == "w":
                        G.warmup(op[1])
                    else:
                        G.sample(op[1])
                    smp = G.get_samples()
                    stored = {b: np.array(smp[b].samples, dtype=float, copy=True).reshape(model.dim[b], -1)
                              for b in model.order}
                    warm = None
                else:
                    out = G.sample(op[1], op[2])
                    stored = {b: np.array(out[b].samples, dtype=float, copy=True).reshape(model.dim[b], -1)
                              for b in model.order}
                    warm = {b: np.array(G.samples_warmup[b], dtype=float, copy=True) for b in model.order}
            except HarnessError:
                raise
            except Exception as e:   # noqa - refusal: the history ends here
                obs["refused_at"] = oi
                obs["refusal"] = "%s: %s" % (type(e).__name__, e)
                break
            obs["ops"].append({"n_events": len(recorder.events), "stored": stored, "warm": warm})
    obs["events"] = recorder.events
    return obs


# ========================================================================================
# reference kernel of a NUTS block (Hoffman & Gelman 2014, algorithm 3 with a slice variable in log space)
# ========================================================================================
class _Answers:
    """The environment's answers (observed decisions) handed to the reference kernel, one per uniform draw."""

    def __init__(self, dec):
        self.dec = list(dec)
        self.asked = []          # (reference probability, probability the implementation compared with)
        self.short = False

    def ask(self, p_ref):
        i = len(self.asked)
        if i >= len(self.dec):
            self.short = True
            self.asked.append((float(p_ref), None))
            return True
        p_got, choice, _ = self.dec[i]
        self.asked.append((float(p_ref), float(p_got)))
        return bool(choice)


def ref_nuts_step(f, g, x0, eps, max_depth, r0, e, ans, delta_max=1000.0):
    """One NUTS transition from x0 for the density exp(f) (gradient g): momentum r0, slice draw log u = H0 - e."""
    def leap(x, r, gr, h):
        r1 = r + 0.5 * h * gr
        x1 = x + h * r1
        l1, g1 = f(x1), g(x1)
        return x1, r1 + 0.5 * h * g1, l1, g1

    l0, g0 = f(x0), g(x0)
    ham0 = l0 - 0.5 * float(r0 @ r0)
    log_u = ham0 - e

    def build(x, r, gr, v, j):
        if j == 0:
            x1, r1, l1, g1 = leap(x, r, gr, v * eps)
            h1 = l1 - 0.5 * float(r1 @ r1)
            return x1, r1, g1, x1, r1, g1, x1, l1, int(log_u <= h1), int(log_u < delta_max + h1)
        xm, rm, gm, xp, rp, gp, x1, l1, n1, s1 = build(x, r, gr, v, j - 1)
        if s1 == 1:
            if v == -1:
                xm, rm, gm, _, _, _, x2, l2, n2, s2 = build(xm, rm, gm, v, j - 1)
            else:
                _, _, _, xp, rp, gp, x2, l2, n2, s2 = build(xp, rp, gp, v, j - 1)
            if ans.ask(n2 / max(1, n1 + n2)):
                x1, l1 = x2, l2
            dx = xp - xm
            s1 = s2 * int(dx @ rm >= 0) * int(dx @ rp >= 0)
            n1 += n2
        return xm, rm, gm, xp, rp, gp, x1, l1, n1, s1

    x = x0
    xm = xp = x0
    rm = rp = r0
    gm = gp = g0
    j, s, n = 0, 1, 1
    while s == 1 and j <= max_depth:
        v = 1 if ans.ask(0.5) else -1
        if v == -1:
            xm, rm, gm, _, _, _, x1, l1, n1, s1 = build(xm, rm, gm, v, j)
        else:
            _, _, _, xp, rp, gp, x1, l1, n1, s1 = build(xp, rp, gp, v, j)
        if s1 == 1 and ans.ask(min(1.0, n1 / n)) and np.isfinite(l1):
            x = x1
        n += n1
        dx = xp - xm
        s = s1 * int(dx @ rm >= 0) * int(dx @ rp >= 0)
        j += 1
    return x


# ========================================================================================
# the reference sweep model, advanced in lock-step with the observation
# ========================================================================================
class Judge:
    def __init__(self, res, cell, model):
        self.res, self.cell, self.model = res, cell, model
        self.comp = IFACE_NAME[cell["iface"]]
        self.histories = set()     # (operation prefix, decision prefix) pairs compared with the reference
        nb = len(model.order)
        ident = list(range(nb))
        permuted = (cell.get("sorder") or ident) != ident or (cell.get("norder") or ident) != ident
        self.order_facet = ",dict-order=permuted" if permuted else ""
        # facet "value / representation of the block's configured step count" (HybridGibbs)
        counts = _cell_counts(cell, nb) if cell["iface"] == "hybrid" else [(1, "int")] * nb
        self.nsteps = {b: _count_meaning(*c_) for b, c_ in zip(model.order, counts)}
        self.count_facet = {b: (",count=0" if self.nsteps[b] == 0 else "")
                            + (",count-repr=%s" % c_[1] if c_[1] != "int" else "")
                            for b, c_ in zip(model.order, counts)}
        # facet "key of the sampling strategy the block is listed under" (legacy; empty for plain names)
        self.key_facet = {b: "" for b in model.order}
        for key in cell.get("skeys") or []:
            if isinstance(key, list):
                for i in key:
                    self.key_facet[model.order[i]] = ",key=tuple" if len(key) > 1 else ",key=1-tuple"
        # facet "how the initial value of each block is supplied" (empty for the cells of the main product)
        codes = model.init_codes(cell)
        if cell["iface"] == "legacy":
            self.init_facet = (",init=density.init_point" if "dens" in codes else
                               (",init=block-sampler-x0" if cell.get("x0_decoy") else ""))
        else:
            self.init_facet = ",init=varied" if (cell.get("init") or cell.get("dens_decoy")) else ""
        for b in model.order:
            if any(np.array_equal(model.decoy(b), v) for v in (model.ival[b], np.ones(model.dim[b]),
                                                               np.zeros(model.dim[b]))):
                raise HarnessError("decoy value of block %r coincides with an initial value" % b)
        # the analytic conditional gradients of the harness against central differences of its own log-joint
        # (exact for these quadratics up to rounding) - a wrong reference must never become a verdict
        for b in model.order:
            if model.kind[b] != "vec" or not any(k in GRAD_KINDS for k in cell["assign"]):
                continue
            cur0 = model.initial("hybrid")
            z = model.probes(b)[0]
            num = np.array([(model.cond_logd(b, z + 1e-3 * e_, cur0) - model.cond_logd(b, z - 1e-3 * e_, cur0)) / 2e-3
                            for e_ in np.eye(model.dim[b])])
            if not close(num, model.cond_grad(b, z, cur0), 1e-7):
                raise HarnessError("reference gradient of block %r disagrees with the reference log-joint" % b)

    def fail(self, op, facet, msg, **detail):
        self.res.fail("C09|%s|%s|%s" % (self.comp, op, facet), msg, focus=self.focus, **detail)

    def judge(self, seq, obs, choices):
        """Returns the number of histories (prefixes) that were compared to the end without refusal."""
        res, cell, model = self.res, self.cell, self.model
        iface = cell["iface"]
        self.focus = {"sequence": seq, "decisions": choices}
        if obs["construct_error"] is not None:
            res.refused += 1
            res.outcomes.add("construct-refused:" + obs["construct_error"].split(":")[0])
            return 0
        # ---- where the run starts: the initial value SUPPLIED for each block (facet "init") ----
        codes = model.init_codes(cell)
        cur = {}
        for b, code in zip(model.order, codes):
            if iface == "legacy":
                # `init_point` attribute of the block's density, else the documented default (ones); compared
                # strictly with where the first sweep starts (block-start, below)
                cur[b] = model.ival[b].copy() if code == "dens" else np.ones(model.dim[b])
            elif code == "def":
                # no initial point given: every sampler class has its own default (ones, zeros for LinearRTO); the
                # statement does not fix it, so the reference starts from the value the sampler announces
                cur[b] = obs["initial"][b].copy()
            else:
                got = obs["initial"][b]
                ok = np.array_equal(got, model.ival[b])
                if not ok and cell.get("dens_decoy"):
                    # sampler initial_point AND density.init_point given: the statement does not rank the two routes
                    ok = np.array_equal(got, model.decoy(b))
                if not ok:
                    self.fail("initial-point", "given" + self.init_facet,
                              "block %r starts the run at %s although initial_point=%s was given (%s)" %
                              (b, got, model.ival[b], "constructor argument" if code == "given" else
                               "attribute assigned before HybridGibbs was built"))
                    return 0
                cur[b] = got.copy()
        run_start = {o: cur[o].copy() for o in model.order}
        cached = {b: model.logjoint(cur) for b in model.order}     # emulation of a never-refreshed logd cache
        stored, warm = [], []
        events = obs["events"]
        ei = 0
        n_norm = n_gam = spy_j = 0
        compared = 0
        assign = dict(zip(model.order, cell["assign"]))
        # transitions per visit: the configured integer (0: the block is HELD at its value - no transition, the other
        # blocks condition on that constant value, the stored samples repeat it); not listed / None: the default 1
        nsteps = self.nsteps
        n_exp = 0
        ndec = 0
        for oi, op in enumerate(seq):
            if obs["refused_at"] is not None and oi >= obs["refused_at"]:
                res.refused += 1
                res.outcomes.add("op-refused:" + obs["refusal"].split(":")[0])
                res.count("refused:" + obs["refusal"][:60])
                return compared
            if iface == "hybrid":
                phases = [("w" if op[0] == "w" else "s", op[1])]
            else:
                phases = [("w", op[2]), ("s", op[1])]
                # reference for continuation: last stored sample, else last warm-up tuple, else initial
                if stored:
                    cur = {b: stored[-1][b].copy() for b in model.order}
                elif warm:
                    cur = {b: warm[-1][b].copy() for b in model.order}
                warm_this = []
            op_start = {o: cur[o].copy() for o in model.order}
            sweeps_in_op = 0
            for phase, nsw in phases:
                for sw in range(nsw):
                    sweep_start = {o: cur[o].copy() for o in model.order}
                    for b in model.order:
                        for t in range(nsteps[b]):
                            if ei >= len(events) or ei >= obs["ops"][oi]["n_events"]:
                                self.fail("sweep", "missing-transition" + self.order_facet + self.key_facet[b]
                                          + self.count_facet[b],
                                          "block %r: transition %d of %d of sweep %d in op %d was not made" %
                                          (b, t + 1, nsteps[b], sw, oi))
                                return compared
                            ev = events[ei]
                            ei += 1
                            ndec += len(ev.get("dec", ()))
                            res.transitions += 1
                            kind = assign[b]
                            # facet "type of the conditional target" (empty for a Posterior)
                            ctf = "" if ev.get("ttype") == "Posterior" else ",conditional=%s" % ev.get("ttype")
                            res.count("conditional-type:%s:%s" % (ev.get("ttype"), kind))
                            if ev["block"] != b:
                                prev_b = events[ei - 2]["block"] if ei >= 2 else None
                                facet = ("transition-count" if (t > 0 or ev["block"] == prev_b) else "block-order")
                                if nsteps.get(ev["block"]) == 0:
                                    # a block configured with 0 transitions (held at its value) was advanced
                                    self.fail("sweep", "transition-count" + self.order_facet
                                              + self.count_facet[ev["block"]],
                                              "the sampler of block %r ran although 0 transitions per sweep are "
                                              "configured for it (the block is to keep its value); expected a transition "
                                              "of block %r (step %d of the configured %d)" %
                                              (ev["block"], b, t + 1, nsteps[b]))
                                    return compared
                                self.fail("sweep", facet + self.order_facet + self.key_facet[b] + self.count_facet[b],
                                          "expected a transition of block %r (step %d of the configured %d), the sampler "
                                          "of block %r ran" % (b, t + 1, nsteps[b], ev["block"]))
                                return compared
                            # (1) start point = current value of the block
                            if ev["start"].shape != cur[b].shape or not np.array_equal(ev["start"], cur[b]):
                                facet = ("at-continuation" if (oi > 0 and sweeps_in_op == 0 and t == 0)
                                         else ("first-step" if t == 0 else "later-step"))
                                if kind in SPECIAL_KINDS:
                                    facet = "kind=%s,%s" % (kind, facet)
                                why = ""
                                if oi == 0 and sweeps_in_op == 0 and t == 0:
                                    why = "; it is the initial value supplied for the run (%s)" % codes[model.order.index(b)]
                                elif ev["start"].shape == run_start[b].shape and np.array_equal(ev["start"], run_start[b]):
                                    why = "; it restarts from the initial value of the run"
                                self.fail("block-start", facet + self.init_facet + self.key_facet[b],
                                          "block %r starts at %s, its current value is %s%s (op %d sweep %d step %d)" %
                                          (b, ev["start"], cur[b], why, oi, sw, t), events_before=ei - 1)
                                return compared
                            # (2) the target it is handed = joint conditioned on the current others
                            if ev["probe_error"] is not None:
                                self.fail("conditional", "logd-raises",
                                          "conditional target of %r cannot be evaluated: %s" % (b, ev["probe_error"]))
                                return compared
                            if ev["same_visit"] and t == 0:
                                self.fail("conditional", "not-reconditioned",
                                          "block %r is visited again with the very same target object as in its "
                                          "previous transition" % b)
                                return compared
                            ref = [model.cond_logd(b, p, cur) for p in model.probes(b)[:len(ev["probes"])]]
                            res.evaluations += 1
                            if not close(ev["probes"], ref, 1e-9):
                                shifted = close(np.array(ev["probes"]) - ev["probes"][0], np.array(ref) - ref[0], 1e-9)
                                facet = "constant" if shifted else "function"
                                # which stale values explain it: all (first) or some of the other blocks at the
                                # values they had at the start of the sweep / operation / run, the rest current
                                others = [o for o in model.order if o != b]
                                subsets = [sub for r_ in range(len(others), 0, -1)
                                           for sub in itertools.combinations(others, r_)]
                                found = False
                                for hname, hyp in (("others=sweep-start-values", sweep_start),
                                                   ("others=operation-start-values", op_start),
                                                   ("others=initial-values", run_start)):
                                    for sub in subsets:
                                        mixed = dict(cur)
                                        mixed.update({o: hyp[o] for o in sub})
                                        href = [model.cond_logd(b, p, mixed) for p in model.probes(b)[:len(ev["probes"])]]
                                        if close(ev["probes"], href, 1e-9):
                                            facet, found = hname, True
                                            break
                                    if found:
                                        break
                                self.fail("conditional", facet + self.init_facet + self.key_facet[b] + ctf,
                                          "target handed to block %r is not the joint conditioned on the current other "
                                          "blocks %s: logd at probes %s, reference %s" %
                                          (b, {o: cur[o].tolist() for o in model.order if o != b}, ev["probes"], ref),
                                          at_op=oi, sweep=sw, step=t)
                                return compared
                            if ev.get("gprobe") is not None:
                                gref = model.cond_grad(b, model.probes(b)[0], cur)
                                res.evaluations += 1
                                if ev["gprobe"].shape != gref.shape or not close(ev["gprobe"], gref, 1e-9):
                                    self.fail("conditional", "gradient" + ctf,
                                              "gradient of the target handed to block %r at %s is %s; gradient of the joint "
                                              "conditioned on the current other blocks is %s" %
                                              (b, model.probes(b)[0], ev["gprobe"], gref), at_op=oi, sweep=sw, step=t)
                                    return compared
                            # (3) the transition itself
                            new = None
                            kinds_log = [r["kind"] for r in ev["log"]]
                            if kind == "spy":
                                new = spy_value(model.kind[b], model.dim[b], spy_j)
                                spy_j += 1
                                want_log = []
                            elif kind == "conj":
                                want_log = ["gamma"]
                                if kinds_log == want_log:
                                    a_ref, r_ref = model.conj_params(b, cur)
                                    g = ev["log"][0]
                                    a_got = float(np.ravel(g["shape_param"])[0])
                                    r_got = 1.0 / float(np.ravel(g["scale"])[0])
                                    if not (close(a_got, a_ref, 1e-9) and close(r_got, r_ref, 1e-9)):
                                        self.fail("conjugate-block", "gamma-parameters",
                                                  "block %r drawn from Gamma(%r, %r); exact conditional given the current "
                                                  "others is Gamma(%r, %r)" % (b, a_got, r_got, a_ref, r_ref))
                                        return compared
                                    new = np.array([gamma_script(n_gam)])
                                n_gam += 1
                            elif kind == "rto":
                                want_log = ["normal"]
                                if kinds_log == want_log:
                                    e = normal_script(model.m + model.n, n_norm)
                                    new = model.rto_solution(b, cur, e)
                                n_norm += 1
                            elif kind == "ugla":
                                want_log = ["normal"]
                                if kinds_log == want_log:
                                    e = normal_script(model.m + model.n + 1, n_norm)
                                    new = model.ugla_solution(b, cur, e)
                                n_norm += 1
                            elif kind == "mh":
                                want_log = ["normal", "uniform"]
                                if kinds_log == want_log:
                                    xi = normal_script(model.dim[b], n_norm)
                                    prop = ev["start"] + ev["scale"] * xi
                                    c_new = model.cond_logd(b, prop, cur)
                                    c_old = model.cond_logd(b, ev["start"], cur)
                                    if len(ev["dec"]) != 1:
                                        self.fail("mh-block", "decision-count", "%d decisions in one MH step" % len(ev["dec"]))
                                        return compared
                                    p_got, choice, _ = ev["dec"][0]
                                    if np.isfinite(c_new):
                                        p_ref = min(1.0, math.exp(min(0.0, c_new - c_old)))
                                        res.evaluations += 1
                                        if abs(p_got - p_ref) > 1e-9:
                                            p_stale = min(1.0, math.exp(min(0.0, c_new - cached[b])))
                                            facet = ("stale-cached-logd" if abs(p_got - p_stale) <= 1e-9
                                                     else "acceptance-probability")
                                            self.fail("mh-block", facet + ctf,
                                                      "MH block %r accepts x'=%s from x=%s with probability %.12g; under the "
                                                      "conditional given the current other blocks it must be min(1, "
                                                      "cond(x')/cond(x)) = %.12g%s" %
                                                      (b, prop, ev["start"], p_got, p_ref,
                                                       " (= ratio against the log-density cached under the previous "
                                                       "conditional)" if facet.startswith("stale") else ""),
                                                      at_op=oi, sweep=sw, step=t, cached_logd=cached[b], cond_at_x=c_old)
                                            # not terminal: the rest of the history is still judged (the kernel's
                                            # answer `choice` determines the new value either way)
                                        new = prop if choice else ev["start"]
                                        if choice:
                                            cached[b] = c_new
                                    else:
                                        new = ev["start"]       # outside the support: never accepted
                                n_norm += 1
                            elif kind in GRAD_KINDS:
                                # the kernel starts from (current point, cached log-density, cached gradient): the cached
                                # evaluations must belong to the conditional given the CURRENT other blocks
                                c_old = model.cond_logd(b, ev["start"], cur)
                                g_old = model.cond_grad(b, ev["start"], cur)
                                res.evaluations += 1
                                ex = ev["extra"]
                                if not close(ex["cached_logd"], c_old, 1e-9):
                                    self.fail("%s-block" % kind, "stale-cached-logd" + ctf,
                                              "%s block %r starts its transition with log-density %.12g cached for its "
                                              "current point; under the conditional given the current other blocks it is "
                                              "%.12g" % (kind, b, ex["cached_logd"], c_old), at_op=oi, sweep=sw, step=t)
                                    return compared
                                if ex["cached_grad"].shape != g_old.shape or not close(ex["cached_grad"], g_old, 1e-9):
                                    self.fail("%s-block" % kind, "stale-cached-gradient" + ctf,
                                              "%s block %r starts its transition with cached gradient %s; under the "
                                              "conditional given the current other blocks it is %s" %
                                              (kind, b, ex["cached_grad"], g_old), at_op=oi, sweep=sw, step=t)
                                    return compared
                            if kind == "mala":
                                want_log = ["normal", "uniform"]
                                if kinds_log == want_log:
                                    sc = ev["scale"]
                                    xi = math.sqrt(sc) * normal_script(model.dim[b], n_norm)
                                    prop = ev["start"] + 0.5 * sc * g_old + xi
                                    c_new, g_new = model.cond_logd(b, prop, cur), model.cond_grad(b, prop, cur)

                                    def logq(to, frm, gfrm):
                                        r_ = to - (frm + 0.5 * sc * gfrm)
                                        return -0.5 * float(r_ @ r_) / sc
                                    if len(ev["dec"]) != 1:
                                        self.fail("mala-block", "decision-count", "%d decisions in one MALA step" % len(ev["dec"]))
                                        return compared
                                    p_got, choice, _ = ev["dec"][0]
                                    p_ref = math.exp(min(0.0, c_new - c_old + logq(ev["start"], prop, g_new)
                                                         - logq(prop, ev["start"], g_old)))
                                    res.evaluations += 1
                                    if abs(p_got - p_ref) > 1e-9:
                                        self.fail("mala-block", "acceptance-probability" + ctf,
                                                  "MALA block %r accepts x'=%s from x=%s with probability %.12g; the "
                                                  "Metropolis-Hastings ratio under the conditional given the current other "
                                                  "blocks is %.12g" % (b, prop, ev["start"], p_got, p_ref),
                                                  at_op=oi, sweep=sw, step=t)
                                        return compared
                                    new = prop if choice else ev["start"]
                                n_norm += 1
                            elif kind == "nuts":
                                ans = _Answers(ev["dec"])
                                r0 = normal_script(model.dim[b], n_norm)
                                new = ref_nuts_step(lambda z_: model.cond_logd(b, z_, cur),
                                                    lambda z_: model.cond_grad(b, z_, cur),
                                                    ev["start"].copy(), ev["scale"], ex["max_depth"], r0,
                                                    exp_script(n_exp), ans)
                                n_norm += 1
                                n_exp += 1
                                want_log = ["normal", "exponential"] + ["uniform"] * len(ans.asked)
                                if kinds_log == want_log and not ans.short and len(ev["dec"]) == len(ans.asked):
                                    res.evaluations += len(ans.asked)
                                    bad = [(i_, pr, pg) for i_, (pr, pg) in enumerate(ans.asked) if abs(pr - pg) > 1e-9]
                                    if bad:
                                        self.fail("nuts-block", "decision-probability" + ctf,
                                                  "NUTS block %r: uniform draw %d of the transition is compared with "
                                                  "%.12g, the reference kernel on the conditional given the current other "
                                                  "blocks compares with %.12g" % (b, bad[0][0], bad[0][2], bad[0][1]),
                                                  at_op=oi, sweep=sw, step=t)
                                        return compared
                                else:
                                    new = None
                                    if kinds_log == want_log:
                                        want_log = want_log + ["<%d decisions>" % len(ans.asked)]
                                        kinds_log = kinds_log + ["<%d decisions>" % len(ev["dec"])]
                            if kinds_log != want_log:
                                self.fail("block-transition", "kind=%s,random-requests" % kind,
                                          "one transition of a %s block issued random requests %s, expected %s" %
                                          (kind, kinds_log, want_log))
                                return compared
                            tol = 1e-7 if kind in ("rto", "ugla") else (1e-9 if kind in GRAD_KINDS else 1e-12)
                            if ev["new"].shape != new.shape or not close(ev["new"], new, tol):
                                self.fail("block-transition", "kind=%s,value" % kind,
                                          "block %r moved to %s, reference kernel gives %s" % (b, ev["new"], new))
                                return compared
                            # adopt the implementation's floating point value (differences <= tol are not judged)
                            cur[b] = ev["new"].copy()
                            res.state((oi, sw, b, t, tuple(np.round(cur[b], 9))))
                    sweeps_in_op += 1
                    tup = {b: cur[b].copy() for b in model.order}
                    if iface == "hybrid" or phase == "s":
                        stored.append(tup)
                    else:
                        warm.append(tup)
                        warm_this.append(tup)
            # ---- end of operation: exactly the expected transitions, stored samples = reference tuples ----
            snap = obs["ops"][oi]
            if snap["n_events"] != ei:
                ev = events[ei]
                held = nsteps.get(ev["block"]) == 0      # the first extra transition: a block configured with 0
                self.fail("sweep", ("transition-count" if held else "extra-transition") + self.order_facet
                          + self.count_facet.get(ev["block"], ""),
                          "operation %d made %d block transitions, the reference sweep makes %d (first extra: block %r%s)"
                          % (oi, snap["n_events"], ei, ev["block"],
                             ", for which 0 transitions per sweep are configured" if held else ""))
                return compared
            for b in model.order:
                want = (np.array([s[b] for s in stored]).T if stored else np.zeros((model.dim[b], 0)))
                got = snap["stored"][b]
                res.evaluations += 1
                if got.shape != want.shape:
                    self.fail("stored-samples", "count", "block %r: %d stored samples after op %d, reference has %d" %
                              (b, got.shape[-1], oi, want.shape[-1]))
                    return compared
                if not np.array_equal(got, want):
                    j = int(np.argmax(np.any(got != want, axis=0)))
                    self.fail("stored-samples", "value" + (self.count_facet[b] if nsteps[b] == 0 else ""),
                              "block %r: stored sample %d is %s, the tuple after sweep %d is %s%s"
                              % (b, j, got[:, j], j, want[:, j],
                                 " (0 transitions configured: the block keeps its value)" if nsteps[b] == 0 else ""),
                              at_op=oi)
                    return compared
                if iface == "legacy" and op[2] > 0:
                    wwant = np.array([s[b] for s in warm_this]).T
                    wgot = snap["warm"][b]
                    if wgot.shape != wwant.shape or not np.array_equal(wgot, wwant):
                        self.fail("stored-samples", "warmup-value", "block %r: stored warm-up samples %s, reference %s" %
                                  (b, wgot, wwant), at_op=oi)
                        return compared
            compared += 1
            self.histories.add((str(seq[:oi + 1]), str(choices[:ndec])))
            res.outcomes.add("op%d:%s:%s" % (oi, op, [np.round(cur[b], 6).tolist() for b in model.order]))
        return compared


# ========================================================================================
# enumeration
# ========================================================================================
def _sequences(ops, depth):
    """All sequences of exactly `depth` operations (their prefixes are judged on the way)."""
    return [list(s) for s in itertools.product(ops, repeat=depth)]


def _assignments(model, tier, iface="hybrid"):
    kinds = [["spy"] + [k for k in model.real[b] if iface == "hybrid" or k not in SPECIAL_KINDS] for b in model.order]
    full = [list(a) for a in itertools.product(*kinds)]
    if model.name == "hier3c":      # this joint only adds the gradient-capable form of hier3: cells with NUTS / MALA
        full = [a for a in full if any(k in GRAD_KINDS for k in a)]
    if tier == "thorough":
        return full
    keep = []
    for a in full:
        real = [k for k in a if k != "spy"]
        grad = [k for k in real if k in GRAD_KINDS]
        first = {b: ([r for r in model.real[b] if r not in GRAD_KINDS] or [None])[0] for b in model.order}
        setA = all(k in GRAD_KINDS or k == first[b] for b, k in zip(model.order, a) if k != "spy")
        setB = all(k == "mh" for k in real)
        # set C: a gradient kernel (NUTS: the class HybridGibbs special-cases; MALA: cached gradient) next to spies /
        # the set-A samplers
        if (setA or setB) and a not in keep:
            keep.append(a)
    return keep


def _ndec(assign):
    return sum(1 for a in assign if a in DEC_KINDS)


def _nsteps(nb, tier, nmh, nnuts=0):
    if tier == "thorough":
        full = [list(t) for t in itertools.product((1, 2, 3), repeat=nb)]
        if nmh + nnuts == 0 or nb < 3:
            return full
        # MH cells of the 3-block joint: all-equal patterns + all permutations of (1,2,3); with a gradient kernel
        # (NUTS / MALA, the expensive decision trees): all-equal patterns + the 3 rotations of (1,2,3)
        keep = [t for t in full if len(set(t)) in (1, 3)]
        if nnuts:
            keep = [t for t in keep if len(set(t)) == 1 or t in ([1, 2, 3], [2, 3, 1], [3, 1, 2])]
        return keep
    out = [[1] * nb, [2] * nb, [3, 1, 2][:nb]]
    if nnuts:
        out = [[1] * nb, [3, 1, 2][:nb]]
    uniq = []
    for o in out:
        if o not in uniq:
            uniq.append(o)
    return uniq


def _perms(nb):
    return [list(p) for p in itertools.permutations(range(nb))]


def _order_cells(model, tier, k):
    """The facet 'order of the user's dicts relative to the joint's parameter order' (hybrid: strategy dict and
    step-count dict, legacy: strategy dict); the identity/identity cells are those of the main product."""
    quick = tier == "quick"
    nb = len(model.order)
    ident, rev = list(range(nb)), list(range(nb))[::-1]
    perms = _perms(nb)
    spy = ["spy"] * nb
    setA = [[r for r in model.real[b] if r not in GRAD_KINDS][0] if model.name != "hier3c" else None
            for b in model.order]
    nonuni = [[3, 1, 2][:nb]] if quick else [list(t) for t in itertools.permutations((1, 2, 3), nb)]
    partial = [[None, 3, 2][:nb]] if quick else [[None, 3, 2][:nb], [2, None, 3][:nb], [3, 2, None][:nb]]

    def hyb(assign, ns, so, no, nuts_depth=0):
        nd = _ndec(assign)
        return {"iface": "hybrid", "model": model.name, "assign": list(assign), "nsteps": list(ns), "depth": 2,
                "full_tree": 4 if quick else (8 if nd else 0), "cat": k, "sorder": list(so), "norder": list(no),
                "nuts_depth": nuts_depth}

    if model.name != "hier3c":
        # all-spy blocks: the complete product of both orders with non-uniform counts
        for ns in nonuni:
            for so in perms:
                for no in perms:
                    if so != ident or no != ident:
                        yield hyb(spy, ns, so, no)
        # counts given for some blocks only / for none (documented default 1)
        for ns in partial:
            for so in perms:
                yield hyb(spy, ns, so, rev)
        yield hyb(spy, [None] * nb, rev, ident)
        # real samplers (set A): both dicts written in the same, non-joint order (thorough: all pairs)
        for so in perms:
            for no in (perms if not quick else [so]):
                if so != ident or no != ident:
                    yield hyb(setA, [3, 1, 2][:nb], so, no)
        # legacy Gibbs: order of the strategy dict
        for so in perms:
            if so != ident:
                yield {"iface": "legacy", "model": model.name, "assign": spy, "nsteps": None, "depth": 2,
                       "full_tree": 4, "cat": k, "sorder": so}
                if so == rev or not quick:
                    legA = [a for a in setA]
                    yield {"iface": "legacy", "model": model.name, "assign": legA, "nsteps": None, "depth": 2,
                           "full_tree": 4 if quick else 8, "cat": k, "sorder": so}
    # a NUTS (thorough: also MALA) block with permuted dicts
    for gk in (("nuts",) if quick else GRAD_KINDS):
        if any(gk in model.real[b] for b in model.order):
            an = [(gk if gk in model.real[b] else model.real[b][0]) for b in model.order]
            for so in ([rev] if quick else [p_ for p_ in perms if p_ != ident]):
                yield dict(hyb(an, [3, 1, 2][:nb], so, so), full_tree=4)


def _count_cells(model, tier, k):
    """HybridGibbs, facet 'value and representation of a block's configured step count' (cuqi.sampler.Gibbs takes no
    step counts).  Per block the count is one of {0, 1, 2, 3, block not listed, listed with None}: 0 HOLDS the block
    (no transition: it keeps its value in the current and in the stored samples, the other blocks condition on that
    constant value), a block that is not listed makes the default 1.  Crossed with the dict-order facet, with the
    sampler class of the held block (HybridGibbs re-initialises every block sampler at every visit, NUTS through a path
    of its own: the held value must survive that) and with the representation of the number (python int, numpy.int64,
    float, bool)."""
    quick = tier == "quick"
    nb = len(model.order)
    ident, rev = list(range(nb)), list(range(nb))[::-1]
    perms = _perms(nb)
    spy = ["spy"] * nb
    MISSING, NONE = (None, "int"), (None, "none")

    def I(n):
        return (n, "int")

    def rot(base):
        base = list(base)[:nb]
        return [base[-i:] + base[:-i] if i else list(base) for i in range(nb)]

    def hyb(assign, pat, so=None, no=None, depth=2, empty=False):
        nd = _ndec(assign)
        c = {"iface": "hybrid", "model": model.name, "assign": list(assign), "nsteps": [p[0] for p in pat],
             "depth": depth, "full_tree": 4 if quick else (8 if nd else 0), "cat": k,
             "sorder": list(so or ident), "norder": list(no or ident)}
        if any(p[1] != "int" for p in pat):
            c["nrep"] = [p[1] for p in pat]
        if empty:
            c["empty_dict"] = True
        if "nuts" in assign:
            c["nuts_depth"] = 0
        return c

    first = {b: ([r for r in model.real[b] if r not in GRAD_KINDS] or ["spy"])[0] for b in model.order}
    if model.name != "hier3c":
        # ---- (1) all-spy blocks: the complete product of the count alphabet ----
        for pat in itertools.product([I(0), I(1), I(2), I(3), MISSING, NONE], repeat=nb):
            yield hyb(spy, pat, depth=2 if quick else 3)
            if all(p == MISSING for p in pat):
                yield hyb(spy, pat, empty=True)          # an empty dict instead of no dict
            if not quick:
                for so, no in ((rev, rev), (rev, ident), (ident, rev)):
                    yield hyb(spy, pat, so, no)
        # ---- (2) x dict-order facet: ALL pairs (strategy-dict permutation, step-dict permutation) ----
        if quick:
            holds = rot([I(0), I(3), I(2)])
        else:
            holds = [list(p) for p in itertools.product([I(0), I(2), MISSING], repeat=nb) if I(0) in p]
        for pat in holds:
            for so in perms:
                for no in perms:
                    if so != ident or no != ident:
                        yield hyb(spy, pat, so, no)
        for pat in ([MISSING, I(0), I(2)][:nb] if nb > 2 else [MISSING, I(0)], [I(0), NONE, MISSING][:nb]):
            for so in perms:
                yield hyb(spy, pat, so, rev)
        # ---- (4) representation of the number (all-spy blocks) ----
        def N(n):
            return (n, "np64")

        def F(n):
            return (n, "float")

        def B(n):
            return (n, "bool")
        if quick:
            for pat in rot([N(0), N(1), N(2)]) + [[N(3), N(1), N(2)][:nb], [N(0)] * nb]:
                yield hyb(spy, pat)
                yield hyb(spy, pat, rev, rev)
            for pat in itertools.product([B(0), B(1)], repeat=nb):
                yield hyb(spy, pat)
            for pat in [[F(1)] * nb] + rot([F(0), F(1), F(2)]):
                yield hyb(spy, pat)
            # one block in another representation, the others python ints
            for i in range(nb):
                for v in (N(0), N(2), F(0), F(1), F(2), B(0), B(1)):
                    for base in ([3, 1, 2], [0, 2, 0]):
                        pat = [I(n_) for n_ in base[:nb]]
                        pat[i] = v
                        yield hyb(spy, pat)
        else:
            for pat in itertools.product([I(0), I(2), N(0), N(2), F(0), F(2), B(0), B(1)], repeat=nb):
                yield hyb(spy, pat)
        setA = [first[b] for b in model.order]
        for pat in rot([N(0), N(1), N(2)]) + rot([B(0), B(1), I(2)]):
            yield hyb(setA, pat)
    if quick and model.name == "hier3c":
        return                      # quick: the gradient kernels on the 2-block joint only
    # ---- (3) real sampler classes: the HELD block x every kernel it admits; the others spies / set A ----
    base = [3, 1, 2][:nb]
    if quick:
        for i, b in enumerate(model.order):
            for kd in model.real[b]:
                for oth in ("spy", "A"):
                    assign = [kd if j == i else ("spy" if oth == "spy" else first[o]) for j, o in enumerate(model.order)]
                    yield hyb(assign, [I(0) if j == i else I(base[j]) for j in range(nb)])
        # a gradient kernel / MH blocks moving while the other blocks are held
        for gk in GRAD_KINDS:
            for i, b in enumerate(model.order):
                if gk in model.real[b]:
                    assign = [gk if j == i else first[o] for j, o in enumerate(model.order)]
                    yield hyb(assign, [I(2) if j == i else I(0) for j in range(nb)])
        if all("mh" in model.real[b] for b in model.order):
            for pat in rot([I(0), I(1), I(2)]):
                yield hyb(["mh"] * nb, pat)
    else:
        pats = [[I(0) if j == i else I(base[j]) for j in range(nb)] for i in range(nb)]
        pats += [[I(2) if j == i else I(0) for j in range(nb)] for i in range(nb)] if nb > 2 else []
        for assign in _assignments(model, tier):
            if all(a == "spy" for a in assign):
                continue
            for pat in pats:
                yield hyb(assign, pat)


def _init_cells(model, tier, k):
    """The facet 'how the initial value of each block is supplied', crossed with ALL histories of the cell's depth
    (first call, continuation calls, warm-up + sample, split calls: the op alphabets of the main product).
    hybrid: per block {initial_point= of the sampler's constructor, sampler.initial_point assigned afterwards, nothing}
    x {no / a decoy `init_point` attribute on every block density}; legacy: per block {`init_point` attribute of the
    block's density, nothing} and, for block sampler classes that take one, an x0 of their own given to the block
    sampler objects (a decoy: Gibbs hands the current value to step)."""
    quick = tier == "quick"
    nb = len(model.order)
    spy = ["spy"] * nb
    free_depth = 2 if quick else 3           # depth of cells without decision points
    base = model.init_codes({"iface": "hybrid"})
    other = "def" if base[0] == "given" else "given"      # the uniform supply the main product does not use

    def hyb(assign, codes, decoy=False, ns=None, nuts_depth=0):
        nd = _ndec(assign)
        c = {"iface": "hybrid", "model": model.name, "assign": list(assign),
             "nsteps": list(ns or [3, 1, 2][:nb]), "depth": 2 if nd else free_depth,
             "full_tree": 4 if quick else (8 if nd else 0), "cat": k, "init": list(codes)}
        if decoy:
            c["dens_decoy"] = True
        if "nuts" in assign:
            c["nuts_depth"] = nuts_depth
        return c

    def leg(assign, codes, x0=False):
        nmh = sum(1 for a in assign if a == "mh")
        c = {"iface": "legacy", "model": model.name, "assign": list(assign), "nsteps": None,
             "depth": 2 if (quick or nmh) else 3, "full_tree": 4 if quick else 8, "cat": k, "init": list(codes)}
        if x0:
            c["x0_decoy"] = True
        return c

    hcodes = [list(c) for c in itertools.product(("given", "attr", "def"), repeat=nb)]
    lcodes = [list(c) for c in itertools.product(("def", "dens"), repeat=nb)]
    alt = [["given", "def"][i % 2] for i in range(nb)], [["def", "attr"][i % 2] for i in range(nb)]
    if model.name != "hier3c":
        setA = [[r for r in model.real[b] if r not in GRAD_KINDS][0] for b in model.order]
        one_mh = ["mh"] + ["spy"] * (nb - 1)
        # ---- HybridGibbs ----
        for codes in hcodes:                 # all-spy blocks: the complete product of supplies, without / with decoy
            for decoy in (False, True):
                if codes != base or decoy:
                    yield hyb(spy, codes, decoy)
        if quick:
            for codes in ([other] * nb,) + alt:
                yield hyb(setA, codes)
            yield hyb(setA, base, True)
            yield hyb(one_mh, [other] * nb, ns=[1] * nb)
        else:
            for codes in hcodes:
                for decoy in (False, True):
                    if codes != base or decoy:
                        yield hyb(setA, codes, decoy)
            for assign in _assignments(model, tier):
                if "mh" in assign and assign != setA:
                    yield hyb(assign, [other] * nb, ns=[1] * nb)
        # ---- cuqi.sampler.Gibbs ----
        for codes in lcodes:
            if "dens" in codes:
                yield leg(spy, codes)
                yield leg(setA, codes)
        some = [["def"] * nb, ["dens"] * nb]
        if quick:
            for codes in some:
                yield leg(setA, codes, True)
                yield leg(one_mh, codes, True)
            yield leg(one_mh, ["dens"] * nb)
        else:
            for assign in _assignments(model, tier, "legacy"):
                if any(a in ("mh", "rto") for a in assign):        # classes with an x0 of their own
                    for codes in some:
                        yield leg(assign, codes, True)
                if "mh" in assign:
                    yield leg(assign, ["dens"] * nb)
    # ---- gradient kernels (NUTS: the class whose initial_point HybridGibbs itself rewrites at every visit) ----
    for gk in GRAD_KINDS:
        if not any(gk in model.real[b] for b in model.order):
            continue
        if quick and model.name == "hier3c":
            continue                    # quick: the 2-block joint only
        an = [(gk if gk in model.real[b] else "spy") for b in model.order]
        for codes in (([other] * nb,) if quick else ([other] * nb,) + alt + ([("attr" if c_ == "given" else c_) for c_ in base],)):
            yield hyb(an, codes, ns=[1] * nb)
        if not quick:
            yield hyb(an, base, True, ns=[1] * nb)


def _set_partitions(items):
    """All partitions of a list into non-empty groups (groups and members in the order of `items`)."""
    if not items:
        yield []
        return
    first, rest = items[0], items[1:]
    for part in _set_partitions(rest):
        yield [[first]] + part
        for i in range(len(part)):
            yield part[:i] + [[first] + part[i]] + part[i + 1:]


def _layouts(part, full):
    """Ways of writing one grouping as the keys of a strategy dict: a group of one block is a plain name (int), a
    group of several blocks a tuple key (list).  full: every order of the keys x every order of the members of
    each tuple; else the joint's order and the completely reversed one."""
    part = sorted([sorted(g) for g in part])
    if full:
        out = []
        for gorder in itertools.permutations(part):
            for members in itertools.product(*[list(itertools.permutations(g)) for g in gorder]):
                out.append([list(m) if len(m) > 1 else m[0] for m in members])
        return out
    fwd = [list(g) if len(g) > 1 else g[0] for g in part]
    bwd = [list(g[::-1]) if len(g) > 1 else g[0] for g in part[::-1]]
    return [fwd] if fwd == bwd else [fwd, bwd]


def _key_cells(name, tier, k):
    """cuqi.sampler.Gibbs, facet 'keys of the sampling strategy' x facet 'order in which the joint lists the blocks':
    every grouping of the blocks into plain-name keys and TUPLE keys (one sampler class for several blocks) crossed
    with every joint order (members of a tuple adjacent / separated by another block in the sweep)."""
    quick = tier == "quick"
    base = Model(name, k)
    nb = len(base.order)
    ident = list(range(nb))
    coupled = name in ("hier3h", "hier3m")

    def leg(jorder, assign, skeys, depth, full_tree=4):
        return {"iface": "legacy", "model": name, "assign": list(assign), "nsteps": None, "depth": depth,
                "full_tree": full_tree, "cat": k, "jorder": list(jorder), "skeys": skeys}

    for jorder in _perms(nb):
        order = [base.order[i] for i in jorder]
        real = [[r for r in base.real[b] if r not in GRAD_KINDS] for b in order]
        for part in _set_partitions(ident):
            has_tuple = any(len(g) > 1 for g in part)
            # ---- all-spy blocks: every way of writing the grouping ----
            # (quick: every key order x member order for the joint in its usual order, the joint's order and the
            # completely reversed one for the other joint orders and for the coupled joints)
            for skeys in _layouts(part, full=(not quick) or (not coupled and jorder == ident)):
                if not has_tuple and jorder == ident:
                    continue            # plain names, joint in its usual order: the dict-order facet of the main product
                yield leg(jorder, ["spy"] * nb, skeys, 2)
            # groups of one block written as 1-tuples
            if any(len(g) == 1 for g in part) and (not coupled or not quick):
                yield leg(jorder, ["spy"] * nb, [list(g) for g in sorted(sorted(g) for g in part)], 2)
            # ---- real sampler classes: one class per key (a class every member of the key admits) ----
            common = []
            for g in sorted(sorted(g) for g in part):
                common.append([kd for kd in real[g[0]] if all(kd in real[i] for i in g)])
            if quick:
                choices = [[c[0] for c in common]] if all(common) else []
            else:
                choices = [list(c) for c in itertools.product(*[["spy"] + c for c in common])
                           if any(kd != "spy" for kd in c)]
            for ch in choices:
                assign = [None] * nb
                for g, kd in zip(sorted(sorted(g) for g in part), ch):
                    for i in g:
                        assign[i] = kd
                nmh = sum(1 for a in assign if a == "mh")
                if not has_tuple and jorder == ident:
                    continue
                depth = (1 if nmh else 2) if quick else (2 if nmh <= 1 else 1)
                for skeys in _layouts(part, full=False)[:1 if quick else 2]:
                    yield leg(jorder, assign, skeys, depth, 4 if quick else 8)


def _jorder_cells(name, tier, k):
    """HybridGibbs, facet 'order in which the joint lists the blocks' (the sweep follows the joint, whatever it is)."""
    base = Model(name, k)
    nb = len(base.order)
    for jorder in _perms(nb):
        if jorder == list(range(nb)):
            continue
        order = [base.order[i] for i in jorder]
        setA = [[r for r in base.real[b] if r not in GRAD_KINDS][0] for b in order]
        for assign in (["spy"] * nb, setA):
            nd = _ndec(assign)
            yield {"iface": "hybrid", "model": name, "assign": list(assign), "nsteps": [3, 1, 2][:nb], "depth": 2,
                   "full_tree": 4 if (tier == "quick" or not nd) else 8, "cat": k, "jorder": list(jorder)}


def _ctype_cells(name, tier, k):
    """Facet 'type of the conditional target of a block': joints in which one block's conditional is not a Posterior
    (MultipleLikelihoodPosterior: the block enters a likelihood and a prior / two likelihoods / the densities of two
    other blocks; plain Distribution: no likelihood factor at all).  That block gets every kernel it admits (spy, MH,
    and where the library offers the gradient MALA / NUTS), the other blocks spies or their set-A samplers."""
    quick = tier == "quick"
    model = Model(name, k)
    nb = len(model.order)
    sp = model.special
    if quick:
        first = {b: [r for r in model.real[b] if r not in GRAD_KINDS][0] for b in model.order}
        assigns = []
        for kd in ["spy"] + model.real[sp]:
            for oth in ("spy", "A"):
                assigns.append([kd if b == sp else ("spy" if oth == "spy" else first[b]) for b in model.order])
    else:
        assigns = _assignments(model, "thorough")
    for assign in assigns:
        nmh = sum(1 for a in assign if a == "mh")
        nnuts = sum(1 for a in assign if a == "nuts")
        ngrad = sum(1 for a in assign if a in GRAD_KINDS)
        ndec = nmh + ngrad
        for ns in ([[1] * nb, [3, 1, 2][:nb]] if quick else _nsteps(nb, tier, nmh, ngrad)):
            if ndec == 0:
                depth, full = (2 if quick else 3), 0
            elif quick:
                depth, full = 2, 4
            else:
                depth = 3 if (ndec == 1 and ns == [1] * nb) else 2
                full = 8 if depth == 2 else 6
            cell = {"iface": "hybrid", "model": name, "assign": list(assign), "nsteps": list(ns), "depth": depth,
                    "full_tree": full, "cat": k}
            if nnuts:
                cell["nuts_depth"] = 0
            yield cell
        if not ngrad and (not quick or assign[model.order.index(sp)] != "spy" or "mh" not in assign):
            yield {"iface": "legacy", "model": name, "assign": list(assign), "nsteps": None,
                   "depth": 2 if (quick or nmh > 1) else 3,
                   "full_tree": 4 if quick else (8 if nmh > 1 else 6), "cat": k}


def _prior_cells(name, tier, k):
    """Facet 'family and location of a block's prior' (HybridGibbs): joints whose x block has a Laplace-difference
    (LMRF) prior with location {non-zero vector, non-zero scalar, 0}; x sampled by {UGLA, spy, (thorough) MH}, the
    precision block by {spy, Conjugate, (thorough) MH}; both joint orders."""
    quick = tier == "quick"
    base = Model(name, k)
    nb = len(base.order)
    for jorder in _perms(nb):
        usual = jorder == list(range(nb))
        order = [base.order[i] for i in jorder]
        if quick:
            assigns = [[{"x": "ugla", "l": o}[b] for b in order] for o in (("spy", "conj") if usual else ("conj",))]
        else:
            assigns = [list(a) for a in itertools.product(*[["spy"] + base.real[b] for b in order])
                       if "ugla" in a or (usual and any(r != "spy" for r in a))]
        for assign in assigns:
            nd = _ndec(assign)
            for ns in ([[1] * nb, [3, 1, 2][:nb]] if (usual or not quick) else [[3, 1, 2][:nb]]):
                cell = {"iface": "hybrid", "model": name, "assign": list(assign), "nsteps": list(ns),
                        "depth": 2 if (quick or nd) else 3, "full_tree": 4 if quick else 8, "cat": k}
                if not usual:
                    cell["jorder"] = list(jorder)
                yield cell


def _cost(c):
    """Rough relative cost of a cell (only used to ORDER the cells; the set of cells is not affected)."""
    nops = len(HYBRID_OPS if c["iface"] == "hybrid" else LEGACY_OPS)
    per_sweep = (sum(_count_meaning(n_) for n_ in c["nsteps"]) or 1) if c.get("nsteps") else len(c["assign"])
    w = 1 + sum({"mh": 3, "mala": 3, "nuts": 14}.get(a, 0) for a in c["assign"])
    if _ndec(c["assign"]):
        w *= 1 + c["full_tree"] / 4.0
    return nops ** c["depth"] * c["depth"] * per_sweep * w


def cells(tier, seed):
    """All cells, each once; ordered so that every chunk of consecutive cells the runner hands to a worker mixes
    expensive and cheap cells (expensive ones early): the wall time is then not set by one chunk of expensive cells."""
    seen, out = set(), []
    for c in _cells(tier, seed):
        key = repr(sorted(c.items()))
        if key not in seen:
            seen.add(key)
            out.append(c)
    jobs = 8 if tier == "quick" else 16
    chunk = max(1, min(8, len(out) // (jobs * 8) or 1))          # the runner's chunk size at its default job count
    nbins = -(-len(out) // chunk)
    ranked = sorted(range(len(out)), key=lambda i: (-_cost(out[i]), i))
    bins = [[] for _ in range(nbins)]
    for r, i in enumerate(ranked):                               # snake deal: every bin gets a similar total
        lap, pos = divmod(r, nbins)
        bins[pos if lap % 2 == 0 else nbins - 1 - pos].append(i)
    for b in bins:
        for i in b:
            yield out[i]


def _cells(tier, seed):
    k = refs.cat(seed)
    quick = tier == "quick"
    for mname in ("hier3", "hier2", "gauss2", "hier3c"):
        model = Model(mname, k)
        nb = len(model.order)
        for assign in _assignments(model, tier):
            nmh = sum(1 for a in assign if a == "mh")
            nnuts = sum(1 for a in assign if a == "nuts")
            ngrad = sum(1 for a in assign if a in GRAD_KINDS)
            ndec = nmh + ngrad
            for ns in _nsteps(nb, tier, nmh, ngrad):
                if ndec == 0:
                    depth, full = 3, 0
                elif quick:
                    depth, full = 2, 4
                else:
                    depth = 3 if (ndec == 1 and ns == [1] * nb) else 2
                    full = 8 if depth == 2 else 6
                cell = {"iface": "hybrid", "model": mname, "assign": assign, "nsteps": ns, "depth": depth,
                        "full_tree": full, "cat": k}
                if nnuts:
                    cell["nuts_depth"] = 0
                yield cell
                if nnuts and not quick and ns == [1] * nb:
                    # deeper trajectories (one doubling): more uniform draws per transition
                    yield dict(cell, nuts_depth=1, depth=2, full_tree=8)
            if mname != "hier3c" and not ngrad:
                yield {"iface": "legacy", "model": mname, "assign": assign, "nsteps": None,
                       "depth": 2 if (quick or nmh > 1) else 3,
                       "full_tree": 4 if quick else (8 if nmh > 1 else 6), "cat": k}
        for c in _order_cells(model, tier, k):
            yield c
        for c in _init_cells(model, tier, k):
            yield c
        for c in _count_cells(model, tier, k):
            yield c
    # ---- facet "keys of the legacy sampling strategy" x "joint order"; coupled hyper-parameters ----
    for mname in (("hier3", "hier3h", "hier2", "gauss2") if quick else ("hier3", "hier3h", "hier3m", "hier2", "gauss2")):
        for c in _key_cells(mname, tier, k):
            yield c
    for mname in (("hier3", "hier2", "gauss2") if quick else ("hier3", "hier3h", "hier3m", "hier2", "gauss2")):
        for c in _jorder_cells(mname, tier, k):
            yield c
    # ---- facet "type of the conditional target of a block" ----
    for mname in ("ml_sp", "ml_2y", "prior2", "hier3h"):
        for c in _ctype_cells(mname, tier, k):
            yield c
    # ---- facet "family and location of a block's prior" (kernels with state derived from it: UGLA) ----
    for mname in LMRF_MODELS:
        for c in _prior_cells(mname, tier, k):
            yield c


# ========================================================================================
def _count_decisions(cell, seq):
    """Upper bound of MH decisions in a history (for choosing complete vs deviation-bounded exploration)."""
    # per transition: MH 1 decision; NUTS with max_depth D up to 2 uniform draws at depth 0 (direction + accept, the
    # latter with probability 0 or 1, i.e. not a branch) and 2 + (2^j - 1) at doubling j
    D = int(cell.get("nuts_depth", 0))
    w = {"mh": 1, "mala": 1, "nuts": 1 if D == 0 else sum(2 + (2 ** j - 1) for j in range(D + 1))}
    per_sweep = sum(w[a] * (_count_meaning(cell["nsteps"][i]) if cell["nsteps"] else 1)      # a held block: none
                    for i, a in enumerate(cell["assign"]) if a in w)
    if cell["iface"] == "hybrid":
        sweeps = sum(op[1] for op in seq)
    else:
        sweeps = sum(op[1] + op[2] for op in seq)
    return per_sweep * sweeps


def eval_cell(cell):
    import cuqi  # noqa: F401 - import outside any scripted stream (scipy.stats draws a default_rng at import)
    res = _Res(cell)
    model = Model(cell["model"], cell["cat"], cell.get("jorder"))
    ops = HYBRID_OPS if cell["iface"] == "hybrid" else LEGACY_OPS
    judge = Judge(res, cell, model)
    has_mh = any(a in DEC_KINDS for a in cell["assign"])
    has_nuts = any(a == "nuts" for a in cell["assign"])
    nhist = 0
    for seq in _sequences(ops, cell["depth"]):
        if not has_mh:
            d = Decisions()
            obs = run_history(cell, model, seq, d)
            leaves = [(d, obs)]
        else:
            nd = _count_decisions(cell, seq)

            def run(d, _seq=seq):
                return run_history(cell, model, _seq, d)
            if nd <= cell["full_tree"]:
                leaves = explore(run)
                res.count("complete_trees")
            else:
                leaves = explore(run, max_deviations=1)
                L = nd * (3 if has_nuts else 1)      # NUTS: decision points with probability 0/1 occupy positions too
                pats = [[False] * L, [i % 2 == 0 for i in range(L)], [i % 2 == 1 for i in range(L)]]
                if has_nuts:        # direction and accept answers of one NUTS transition are adjacent positions
                    pats += [[(i // 2) % 2 == 0 for i in range(L)], [(i // 2) % 2 == 1 for i in range(L)]]
                for pat in pats:
                    d = Decisions(pat)
                    leaves.append((d, run(d)))
                res.count("bounded_trees")
        best = 0
        for d, obs in leaves:
            res.count("executions")
            got = judge.judge(seq, obs, [bool(c) for c in d.choices])
            best = max(best, got)
            if res.sample is None and got == len(seq):
                res.sample = {"sequence": seq, "decisions": [bool(c) for c in d.choices],
                              "events": [{"block": e["block"], "kind": e["kind"], "start": e["start"],
                                          "probes": e["probes"], "new": e.get("new")} for e in obs["events"][:6]]}
        # histories compared: the sequence itself and (once per distinct prefix) its prefixes
        nhist += best
        res.count("leaves", len(leaves))
    # distinct (operation prefix, decision prefix) histories compared with the reference to their end
    res.traces += len(judge.histories)
    res.count("history_executions", nhist)
    if res.transitions == 0:
        # no block transition at all: the construction / the calls were refused - or every block is configured with 0
        # transitions (all held) and the sweeps were executed and their stored tuples compared
        if not judge.histories:
            res.nontrivial = False
        res.transitions += 1      # the (refused) construction / the operation was a transition on the real code
    return res


class _Res(CellResult):
    """One failure per signature per cell (all histories of a cell share the configuration)."""

    def fail(self, signature, message, focus=None, **detail):
        if any(f["signature"] == signature for f in self.failures):
            self.count("repeat:" + signature)
            return
        super().fail(signature, message, focus=focus, **detail)
