"""C03 - every gradient equals the derivative of the log-density, or is refused.

E3 configuration explorer.  A cell = (object family, size, finite-difference option, value catalogue); inside
a cell the complete product of the family's option facets (parameterisation, passing form, location kind,
boundary condition, order, geometry, forward-model kind ...) is built and every object is evaluated at the
complete point alphabet (scaled basis points + generic points inside the support, points outside the support, and
integer-valued points inside / outside the support, each handed over in every representation of an array_like
evaluation point: float64 array, int64 array, list of python ints, float32 array, python int / float for a
one-component variable).
Composite objects (Posterior, MultipleLikelihoodPosterior, stacked joint) are built over the member alphabet of the
library: Likelihood from a distribution (every forward-model kind), UserDefinedLikelihood with / without gradient_func,
evaluated densities (constants), several members of different kinds mixed.
Every object whose support has finite bounds is additionally evaluated at points exactly ON those bounds (all faces,
corners of the box), judged by the object's own logd (finite there: one-sided derivative; -inf there: not finite).
Oracle: gradient() raises, or returns an array with as many entries as the evaluated variable that equals the
Richardson-extrapolated central difference of the *same object's* logd; outside the support: not finite.
Facet "user-supplied pieces return fresh arrays / stored arrays / views of their argument": every callable the harness
hands to the library (gradient_func of UserDefinedDistribution / UserDefinedLikelihood, forward / adjoint / Jacobian /
direction-Jacobian product of a forward model, PDE derivative methods, map / imap / gradient of a domain geometry) exists in
these variants for the composite objects; the user's stored arrays and the evaluation point handed over must be unchanged
afterwards (`input-altered`).  Repetition facet: on every live object the gradient is evaluated again three times in a row
at one point, at another point and at the first again, each result judged by the same oracle.
Failing variants of a cell are coalesced into narrow signatures (only the facets that discriminate failing
from clean variants are kept).
"""
import numpy as np
from vfw.core import CellResult
from vfw import refs
from checks import _c03_objects as O
from checks import _c03_engine as E
from checks import _c03_composite as X
from checks import _reassign

PROPERTY = "C03"
RULE = ("cells = family x size x FD option (full product inside the bound); every cell builds the full product of "
        "the family's option facets and compares gradient() with the Richardson central difference of the same "
        "object's logd at every point of the alphabet (scaled basis + generic inside, one/all/boundary outside); "
        "facet 'representation of the evaluation point': integer-valued points inside the support (>= 1/4 from its "
        "bounds and from kinks) and outside it (one/all coordinates below/above, integer boundary where the family "
        "excludes it) are handed to gradient() as float64 array, int64 array, list of python ints, float32 array "
        "(not under the FD option) and, for one-component variables, python int and python float - for every object "
        "of every family (plain, MRF, conditional, all composites), crossed with all option facets and FD off/on; the "
        "reference is always the Richardson derivative of the object's logd at the float64 version of the same point; "
        "facet 'member alphabet of composite objects': a Posterior is built on a Likelihood from a distribution (directly, via a "
        "joint, via a joint that also carries an evaluated density) or on a UserDefinedLikelihood (with gradient_func and geometry "
        "none/default/given, without gradient_func); a MultipleLikelihoodPosterior on 2..3 members taken from {Likelihood through "
        "each forward-model kind, UserDefinedLikelihood with / without gradient_func} in mixed orders (user-defined member first / "
        "middle / last / twice / only user-defined ones) x {no constant, evaluated density} x {built directly, reduced from a joint}; "
        "a stacked joint on two distributions plus {nothing, a Likelihood, a UserDefinedLikelihood, both, an evaluated density} - "
        "oracle unchanged (raises, or the derivative of the SAME object's logd); "
        "facet 'points exactly on a finite bound of the support': for every object whose support is a box with finite bounds "
        "(Beta, InverseGamma, ModifiedHalfNormal, Gamma, Lognormal, Uniform and every composite with such a prior / member) every "
        "face (one coordinate on its lower / upper bound, the others strictly inside) and the corners (all 2^m for m <= 3 bounded "
        "coordinates, else all-lower, all-upper and the two alternating patterns) are evaluated, FD off and on, and judged by "
        "the object's own logd: -inf/+inf at the point -> gradient raises or has a non-finite entry; finite at the point -> "
        "gradient raises, or entry i equals the Richardson derivative of logd along axis i taken from a side on which logd is "
        "finite (one-sided three-point differences at the bound, central elsewhere, either one-sided value at a kink) or is the "
        "signed infinity of the one-sided derivative taken across the bound; "
        "facet 'aliasing of the user-supplied pieces': every callable the harness hands to the library - gradient_func of "
        "UserDefinedDistribution / UserDefinedLikelihood, forward / adjoint / jacobian / gradient (direction-Jacobian product) of a "
        "forward model, jacobian_wrt_parameter / gradient_wrt_parameter of a PDE, map / imap / gradient of a domain geometry - exists "
        "in the variants 'fresh' (a new array per call), 'stored' (a cache on the user's side: the SAME array object is returned "
        "whenever the same arguments recur; ONE stored array on every call for a constant function such as the gradient c of the "
        "linear log-likelihood c.x) and, where the piece can be written so, 'view' (a view of - or simply - its argument: the gradient "
        "x of |x|^2/2, the adjoint / direction-Jacobian product of a flip-and-pad operator, map / imap / gradient of a flip geometry); "
        "all pieces of one object switch together; enumerated for Likelihood (8 model kinds x default geometry, 3 model kinds x 3 "
        "user-gradient geometries, flip model on flip geometry), Posterior (priors x {user-defined likelihood smooth / linear / "
        "quadratic, 5 model kinds, 2 user-gradient geometries}; a UserDefinedDistribution prior carries its own gradient_func), "
        "MultipleLikelihoodPosterior (3 priors x 7 member lists with the user-defined member first / last / twice x {direct, joint}), "
        "stacked joint (3 member lists) and for the plain UserDefinedDistribution, FD option off/on; oracle unchanged, plus: after all "
        "evaluations every array stored on the user's side equals its pristine copy, and every array / list handed over as evaluation "
        "point (all cells, all representations) is unchanged after the call - otherwise 'input-altered'; "
        "facet 'repetition': on EVERY object of every cell, after all other evaluations, the gradient is evaluated again at the last "
        "interior catalogue point a three times in a row, then at the first interior point b, then at a again (a,a,a,b,a), each result "
        "judged by the same oracle against the Richardson derivative of the object's logd at that point (points whose first "
        "evaluation was already wrong are left out: the pass reports dependence on the history of evaluations only); "
        "facet 'identity of the evaluation point': on EVERY object of every cell (FD off and on) the float64 vectors with as many entries as "
        "the evaluated variable that the object HOLDS (reachable through instance attributes / lists / tuples / dicts of library and harness "
        "objects: likelihood data, mean / location / scale / shape / rate vectors, geometry grids, PDE grids ...; fixed walk order, first "
        "2 distinct objects in the quick tier, 4 in the thorough tier) are used as evaluation points twice: a copy of the array (one more "
        "interior point, ordinary oracle) and, where the copy was fine, the held array object ITSELF - gradient(held) must equal the same "
        "Richardson derivative of the object's logd as gradient(held.copy()), and the held array must be unchanged afterwards "
        "('input-altered'); arrays at which logd is not finite / kinked / has no trustworthy derivative are left out and counted; "
        "a cell is non-trivial when at least one gradient vector was returned and compared (not only refusals)")
BOUND = {
    "quick": "plain families dim 1..3, MRFs 1-D N=2..4 and 2-D 2x2/3x3, composites with parameter dim 3..4 (range dim 4..5, images 3x1 and 2x2; Lognormal-noise model/geometry product at dim 3 only); "
             "FD option off/on (epsilon 1e-8); 1 generic point + all scaled basis points; integer-valued points: 1 inside "
             "(2 for the scalar-parameter families and UserDefined/gallery) + up to 5 outside, each in 4 representations "
             "(6 at dim 1; float32 dropped under FD); composites: 14 priors x (18 Likelihood combos + 2 joint+evaluated + 4 user-defined "
             "likelihood combos) Posteriors, 6 priors x 11 member lists x 2 x 2 MultipleLikelihoodPosteriors, 3 x 5 stacked joints; "
             "boundary points: all 2*dim faces + all corners (dim <= 3) or 4 corner patterns (dim 4), float64 only; "
             "aliasing facet (parameter dim 3..4, FD off/on, interior points + repetition only): 18 Likelihood configurations x "
             "{fresh, stored} (+ view for the 6 with a flip piece), Gaussian noise; 5 priors (gaussian, gmrf, cauchy, uniform, "
             "userdefined) x 10 likelihood configurations x {fresh, stored} (+ view for 3) Posteriors; 3 priors x (7 member lists direct "
             "+ 2 via joint) x {fresh, stored} (+ view for 2 lists) MultipleLikelihoodPosteriors; 3 x 2 stacked joints; repetition a,a,a,b,a "
             "on every object of every cell; held arrays as evaluation points: first 2 per object (copy + the object itself); 1 of 3 value catalogues",
    "thorough": "plain families dim 1..6, MRFs 1-D N=2..7 and 2-D 2x2..4x4, composites parameter dim 2..6 (images up to 2x3); "
                "3 generic points + basis; 3 integer-valued inside points + up to 5 outside in every representation; FD off/on; "
                "same member alphabet of the composites and boundary points (all faces; all corners up to 3 bounded coordinates, 4 corner "
                "patterns above) as in the quick tier; aliasing facet at parameter dim 2..6 with all 14 priors for the Posterior and "
                "Gaussian + Lognormal noise for the Likelihood, otherwise as in the quick tier; repetition a,a,a,b,a on every object; held arrays as evaluation points: first 4 per object; "
                "1 of 3 value catalogues per run (seed selects)",
}
ASSUMPTIONS = [
    "the reference derivative is Richardson-extrapolated central differences (h=1e-3 and 2.5e-4) of the object's own "
    "logd; points where the two extrapolations disagree by >1e-6 or logd is not finite are skipped and counted",
    "analytic gradients accepted at 1e-5*max(1,|g|); FD-option gradients at 1e-4*max(1,|g|)+100*eps*|logd|/epsilon; an "
    "FD-option gradient outside that band is skipped (counted 'fd-roundoff-dominated') when it lies within 4*delta/epsilon, "
    "delta = measured evaluation noise of the object's logd (max second difference at step epsilon along the axes): e.g. "
    "Lognormal.logpdf = log(pdf) with pdf in the subnormal range is a step function at that scale",
    "shape is compared by number of entries (a (1,n)/(n,1) array for an n-vector is accepted)",
    "the additive constant of GMRF objects is pinned (private _logdet := 0): for neumann/periodic bc it comes from ARPACK "
    "with a process-history dependent start vector and is sometimes NaN, which would make counts non-deterministic; "
    "derivatives are unaffected",
    "where the object's own logd refuses at interior points (sparse Gaussian covariance/precision without cholmod: no "
    "normalised logd) the analytic gradient is compared with the Richardson derivative of the textbook quadratic form "
    "of the documented parameterisation (symmetric matrices only); the FD option is skipped there",
    "kinked densities (Laplace, LMRF, donut/CalSom91 at the origin) are evaluated only at catalogue points at distance >= 1/32 "
    "from the kink; supports are evaluated at distance >= 1/8 from their bounds and exactly ON the bounds (faces, corners), not "
    "at intermediate distances (e.g. one ulp inside)",
    "points on a bound: whether the bound belongs to the support is not assumed but read off the object's own logd at the point "
    "(finite / infinite); logd NaN or raising there: skipped and counted; where logd is finite at the point the one-sided "
    "reference needs logd finite at distance 1e-3 and 2e-3 on that side (the catalogue boxes are >= 1 wide); a signed infinity "
    "(+inf at a lower, -inf at an upper bound - what a difference quotient across the bound gives, e.g. under the FD option) is "
    "accepted in the entries whose axis leaves the support, NaN is not (NaN is the report for 'outside the support' while logd "
    "says the point is inside); boundary points are handed over as float64 arrays only (no representation facet there)",
    "user-defined members: the harness' UserDefinedLikelihood is smooth on R^n (sum of log(1+(x-c)^2) terms) with an exact "
    "gradient_func; it has no FD option (not a Density), so under the FD option only the other members switch; joints refuse to "
    "condition when a UserDefinedLikelihood is a member (not callable): those variants are construction refusals",
    "user-supplied pieces (model Jacobians, geometry.gradient, PDE gradients, UserDefined gradient_func) are correct "
    "by construction in the harness; only the library's wiring/chain rule around them is under test",
    "aliasing facet: 'stored' is modelled as a memo keyed by the bytes of the arguments (dtype, shape, content) that keeps and returns "
    "the same float64 array object; the pristine copy it is compared with afterwards is taken when the array is stored; all pieces of "
    "an object switch together (no mixed fresh/stored objects); a callable that overwrites ONE output buffer on every call is not "
    "modelled (a later call legitimately changes an earlier result there); logpdf_func (returns a float), PDE_form and observation "
    "maps stay as they are; the aliasing variants are evaluated at the interior float64 catalogue points only (representation, "
    "outside and boundary facets are crossed with 'fresh' pieces in the main cells); signatures of these cells keep the member "
    "kind and the aliasing variant only (prior / geometry / route are named in the message); 'input-altered' for the evaluation "
    "point is demanded everywhere: a gradient that equals the derivative 'at that point' presupposes that the call leaves the "
    "caller's point alone",
    "repetition facet: the reference derivative of a point is computed once (at its first evaluation) and re-used for the repeated "
    "evaluations; the sequence is fixed (a,a,a,b,a after the whole programme of the object), longer or other interleavings are not covered",
    "identity facet: only plain float64 1-D writeable ndarrays of exactly the variable's size found by walking __dict__ (depth <= 6) of "
    "library / harness objects are used (arrays hidden in closures of user callables, CUQIarray, 2-D / integer / (1,1) arrays and arrays of "
    "another size - e.g. the data of a non-square likelihood - are not); the point must pass the ordinary oracle as a copy first, and logd "
    "must be smooth there (second-difference quotient at h=1e-3 and h/4: a jump that does not shrink with h = kink -> left out), so "
    "locations of Laplace / LMRF and bounds of Uniform are left out; only the evaluation point is aliased, one array at a time",
    "outside the support: any result with at least one non-finite entry, or a refusal, is accepted",
    "representations of the evaluation point: only integer-valued points with entries in a window of 7 consecutive "
    "integers are re-represented (so that all forms denote exactly the same point); a refusal (e.g. TypeError for a list) "
    "is accepted in every non-float64 form; float32 points are accepted at 1e-4*max(1,|g|) (the library may compute in "
    "single precision) and are not evaluated under the FD option (the step 1e-8 is below single-precision resolution); "
    "other dtypes (int32/int8/unsigned, complex, tuples, CUQIarray) are not covered; python int/float are folded into the "
    "signature classes 'int'/'float64'; families whose support contains no integer (Beta) get integer points outside only",
    "values outside the dyadic catalogues and dimensions above the bound are not covered",
]

def cells(tier, seed):
    k = refs.cat(seed)
    quick = tier == "quick"
    npts = 1 if quick else 3
    dims = (1, 2, 3) if quick else (1, 2, 3, 4, 5, 6)
    mrf_levels = (0, 1, 2) if quick else (0, 1, 2, 3, 4, 5)
    ps = (3, 4) if quick else (2, 3, 4, 5, 6)
    out = []
    # composite cells first (largest first) so that the pool packs well; the order is part of the enumeration
    for p in reversed(ps):
        for fd in (1, 0):
            for noise in (("gauss-cov-dense", "lognormal-dense") if (not quick or p == ps[0]) else ("gauss-cov-dense",)):
                out.append({"kind": "composite", "family": "lik-model", "p": p, "noise": noise, "fd": fd, "cat": k, "npts": npts})
            for fam in ("posterior", "mlp", "lik-noise"):
                out.append({"kind": "composite", "family": fam, "p": p, "fd": fd, "cat": k, "npts": npts})
    # facet "user-supplied pieces return fresh arrays / stored arrays / views of their argument" on the composite objects
    for p in reversed(ps):
        for fd in (1, 0):
            for group in ("posterior", "mlp", "lik"):
                out.append({"kind": "composite", "family": "alias", "group": group, "p": p, "fd": fd, "cat": k, "npts": npts,
                            "thorough": 0 if quick else 1})
    for fd in (0, 1):
        for dim in reversed(dims):
            for fam in ("gaussian", "iid", "user"):
                out.append({"kind": "dist", "family": fam, "dim": dim, "fd": fd, "cat": k, "npts": npts})
        for dim in dims[1:3]:
            out.append({"kind": "dist", "family": "conditional", "dim": dim, "fd": fd, "cat": k, "npts": npts})
        for lvl in reversed(mrf_levels):
            for fam in ("gmrf", "cmrf", "lmrf"):
                out.append({"kind": "dist", "family": fam, "level": lvl, "fd": fd, "cat": k, "npts": npts})
    for c in out:
        c["held"] = 2 if quick else 4       # facet "identity of the evaluation point": held arrays used per object
    out.extend(_reassign.cells(tier, seed))     # E1 add-on: use -> assign -> use histories on one live object
    return out


def _mrf_sizes(level):
    sizes = {"1d": 2 + level}
    if level % 2 == 0:
        sizes["2d"] = 2 + level // 2
    return sizes


def _generators(cell):
    fam, k, npts = cell["family"], cell["cat"], cell["npts"]
    if fam == "gaussian":
        return O.gen_gaussian(cell["dim"], k, npts)
    if fam == "iid":
        return O.gen_iid_families(cell["dim"], k, npts)
    if fam == "user":
        return O.gen_user(cell["dim"], k, npts)
    if fam == "conditional":
        return O.gen_conditional(cell["dim"], k, npts)
    if fam == "gmrf":
        return O.gen_gmrf(_mrf_sizes(cell["level"]), k, npts)
    if fam == "cmrf":
        return O.gen_cmrf(_mrf_sizes(cell["level"]), k, npts)
    if fam == "lmrf":
        return O.gen_lmrf(_mrf_sizes(cell["level"]), k, npts)
    raise ValueError(fam)


FD_EPS = 1e-8
# signature facet of a representation (python scalars exist for one-component variables only: folding them into the
# class of their type keeps the signature of one defect the same in every dimension; the message names the exact form)
XREP_CLASS = {"float64": "float64", "pyfloat": "float64", "int64": "int", "pyint": "int", "list": "list", "float32": "float32"}


def _reassign_judge(live, fresh, pts):
    """C03's own oracle on a live (re-assigned) object: gradient raises, or equals the derivative of ITS logd."""
    out = []
    for x in pts:
        try:
            g = live.gradient(x)
        except Exception:
            continue
        if g is None:
            out.append(("gradient", False, "gradient returned None"))
            continue
        try:
            f = lambda z: float(np.asarray(live.logd(z)).ravel()[0])
            if not np.isfinite(f(x)):
                continue
            ref, g1, g2 = refs.richardson_grad(f, x, h=1e-3)
        except Exception:
            continue
        g = np.asarray(g, dtype=float).ravel()
        ok = g.size == ref.size and bool(np.max(np.abs(g - ref)) <= 1e-5 * max(1.0, float(np.max(np.abs(ref)))))
        out.append(("gradient", ok, "gradient %s vs derivative of the same object's logd %s" % (g[:4], ref[:4])))
    return out


def eval_cell(cell):
    if cell.get("fam") == "reassign":
        return _reassign.eval_cell(cell, PROPERTY, None, "gradient vs own logd", judge=_reassign_judge)
    res = CellResult(cell)
    rec = E.Recorder(res, PROPERTY)
    fd = bool(cell["fd"])
    op_in = "gradient-fd" if fd else "gradient"
    op_out = "gradient-outside-support-fd" if fd else "gradient-outside-support"
    op_bnd = "gradient-on-boundary-fd" if fd else "gradient-on-boundary"
    op_rep = "gradient-repeated-fd" if fd else "gradient-repeated"
    op_held = "gradient-at-held-array-fd" if fd else "gradient-at-held-array"
    compared = 0
    if cell["kind"] == "dist":
        gens = _generators(cell)
    else:
        gens = _composite_generators(cell)
    for component, keys, facets, build in gens:
        fkey = ",".join("%s=%s" % (kk, facets.get(kk)) for kk in list(keys) + (["sub"] if "sub" in facets else []))
        try:
            case = build()
        except Exception as e:      # construction refused by the library: allowed
            res.refused += 1
            res.count("construct-refused")
            res.outcomes.add("%s:construct-refused:%s" % (component, type(e).__name__))
            continue
        if fd:
            try:
                for t in case.fd_targets:
                    if hasattr(t, "enable_FD"):     # members that are not Density objects (UserDefinedLikelihood) have no FD option
                        t.enable_FD(FD_EPS)
            except Exception as e:
                res.refused += 1
                res.outcomes.add("%s:enable_FD-refused:%s" % (component, type(e).__name__))
                continue
        res.state("%s[%s]" % (component, fkey))
        if fd:
            # every FD-option gradient goes through Density.gradient -> utilities.approx_gradient(self.logd): one
            # component, discriminated only by the class of the object (family facets would spray one defect)
            rcomp, rkeys = "Density(FD-option)", ["class"]
            rfac = {"class": component, "_fixed": facets.get("_fixed", "")}
            if "_sig" in facets:
                rkeys, rfac = ["class", "alias"], dict(rfac, alias=facets["alias"])
        else:
            # '_sig': the generator names the facets that may enter a signature (cells of the aliasing facet: the member
            # kind and the aliasing variant; prior / geometry / route are crossed with other facets in the main cells and
            # would only spray one defect); the full variant is written into the message
            rcomp, rkeys, rfac = component, facets.get("_sig", keys), facets
        tell = fd or "_sig" in facets       # the message names the full variant
        # facet "representation of the evaluation point": the catalogue points above are float64 arrays; the
        # integer-valued points below are handed over in every representation of E.reps_for
        rkeys = list(rkeys) + ["xrep"]
        rfac = dict(rfac, xrep="float64")
        caches, first = {}, {}      # per interior point: the reference derivative (computed once) / status of the first evaluation
        for kind, x in case.inside:
            res.transitions += 1
            caches[kind] = {}
            o = E.observe(case, kind, x, fd, FD_EPS, cache=caches[kind])
            first[kind] = o["status"]
            if o["status"] == "bad" and tell:
                o["msg"] += " {%s}" % fkey
            rec.add(rcomp, op_in, rkeys, rfac, o)
            _tally(res, component, "in", o)
            if o["status"] in ("ok", "bad"):
                compared += 1
                res.evaluations += 1
                if res.sample is None and o["status"] == "ok":
                    res.sample = {"component": component, "facets": {kk: facets[kk] for kk in facets if kk not in ("_fixed", "_sig")},
                                  "fd_option": fd, "point": kind, "x": x, "gradient": o["impl"],
                                  "richardson_of_logd": o["ref"]}
        # non-initial state: after the forward model's matrix was requested (get_matrix() caches it on the model), the
        # gradient through that model is still the derivative of the same log-density
        mdl = getattr(case.obj, "model", None)
        if not fd and mdl is not None and hasattr(mdl, "get_matrix") and case.inside:
            try:
                mdl.get_matrix()
                called = True
            except Exception:
                called = False
            if called:
                kind, x = case.inside[-1]
                res.transitions += 1
                o = E.observe(case, kind, x, fd, FD_EPS)
                rec.add(rcomp, "gradient-after-get_matrix", rkeys, rfac, o)
                _tally(res, component, "in", o)
                if o["status"] in ("ok", "bad"):
                    compared += 1
                    res.evaluations += 1
        for kind, x in case.outside:
            res.transitions += 1
            o = E.observe_outside(case, kind, x)
            if o["status"] == "bad" and tell:
                o["msg"] += " {%s}" % fkey
            rec.add(rcomp, op_out, rkeys, rfac, o)
            _tally(res, component, "out", o)
            if o["status"] in ("ok", "bad"):
                compared += 1
                res.evaluations += 1
        # points exactly ON a finite bound of the support (faces and corners of the box), judged by the object's own logd:
        # logd = -inf there -> raises or not finite; logd finite there -> raises or the one-sided derivative of logd
        bkeys = [kk for kk in rkeys if kk != "xrep"] + ["at"]
        for at, kind, x in case.boundary:
            res.transitions += 1
            o = E.observe_boundary(case, kind, x, fd, FD_EPS)
            if o["status"] == "bad" and tell:
                o["msg"] += " {%s}" % fkey
            rec.add(rcomp, op_bnd, bkeys, dict(rfac, at=at), o)
            _tally(res, component, "bnd", o)
            if o["status"] in ("ok", "bad"):
                compared += 1
                res.evaluations += 1
        # the same integer-valued point in every representation (float64 / int64 arrays, list of python ints, float32
        # array, python int / float for a one-component variable): gradient raises, or is the derivative of the
        # object's logd at the float64 version of the point; outside the support: raises or not finite
        for where, points in (("in", case.int_inside), ("out", case.int_outside)):
            for kind, x in points:
                cache = {}
                for xrep in E.reps_for(len(x), fd):
                    res.transitions += 1
                    if where == "in":
                        o = E.observe(case, kind, x, fd, FD_EPS, rep=xrep, cache=cache)
                    else:
                        o = E.observe_outside(case, kind, x, rep=xrep)
                    if o["status"] == "bad" and tell:
                        o["msg"] += " {%s}" % fkey
                    rec.add(rcomp, op_in if where == "in" else op_out, rkeys, dict(rfac, xrep=XREP_CLASS[xrep]), o)
                    _tally(res, component, where, o, xrep)
                    if o["status"] in ("ok", "bad"):
                        compared += 1
                        res.evaluations += 1
        # facet "identity of the evaluation point": the point handed to gradient() IS an array the object holds (the data of a
        # likelihood, a mean / location / shape / scale vector, a grid ...): gradient(held) == gradient(held.copy()) == derivative of
        # the object's logd at these values, and the held array is unchanged afterwards.  The copy is judged first as one more
        # interior point; only where it is fine is the held array itself handed over (this pass reports dependence on identity only).
        nvar = len(case.inside[0][1]) if case.inside else 0
        for path, held in (E.held_arrays(case.obj, nvar, limit=cell.get("held", 2)) if nvar else []):
            res.count("held-array:found")
            xh = held.copy()
            if not np.all(np.isfinite(xh)) or E.kink_at(case.obj, xh):
                res.count("held-array:left-out:logd-kinked-or-not-finite-there")
                continue
            cache = {}
            res.transitions += 1
            o = E.observe(case, "held-copy", xh, fd, FD_EPS, cache=cache)
            if o["status"] == "bad" and tell:
                o["msg"] += " {%s}" % fkey
            rec.add(rcomp, op_in, rkeys, rfac, o)
            _tally(res, component, "in", o)
            if o["status"] in ("ok", "bad"):
                compared += 1
                res.evaluations += 1
            if o["status"] != "ok":
                res.count("held-array:left-out:copy-%s" % o["status"])
                continue
            res.transitions += 1
            o = E.observe(case, "held", xh, fd, FD_EPS, cache=cache, given=held)
            if o["status"] == "bad":
                o["msg"] = ("evaluation point IS the array the object holds as %s (a copy of it gives the derivative of logd): %s"
                            % (path, o["msg"])) + (" {%s}" % fkey if tell else "")
            rec.add(rcomp, op_held, rkeys, rfac, o)
            _tally(res, component, "held", o)
            if o["status"] in ("ok", "bad"):
                compared += 1
                res.evaluations += 1
        # repetition facet: on the same live object (after everything above) the gradient is evaluated again THREE times in
        # a row at one interior point a, then at another point b, then at a again; every single result is judged by the
        # same oracle (raises, or the derivative of the object's logd at that point).  Points whose first evaluation was
        # already wrong are left out: this pass reports what depends on the history of evaluations only.
        if case.inside:
            seq = [case.inside[-1]] * 3
            if len(case.inside) > 1:
                seq += [case.inside[0], case.inside[-1]]
            for nth, (kind, x) in enumerate(seq):
                if first.get(kind) == "bad":
                    res.count("repeat-left-out:first-evaluation-already-wrong")
                    continue
                res.transitions += 1
                o = E.observe(case, kind, x, fd, FD_EPS, cache=caches[kind])
                if o["status"] == "bad":
                    o["msg"] = ("evaluation %d of the repetition a,a,a,b,a on the live object (this is point '%s'; its first evaluation: %s): %s"
                                % (nth + 1, kind, first[kind], o["msg"])) + (" {%s}" % fkey if tell else "")
                rec.add(rcomp, op_rep, rkeys, rfac, o)
                _tally(res, component, "rep", o)
                if o["status"] in ("ok", "bad"):
                    compared += 1
                    res.evaluations += 1
        # the user's stored arrays (aliasing facet 'stored') must still hold what the user stored
        if case.pieces is not None:
            res.count("alias=%s:objects" % case.pieces.alias)
            res.count("alias=%s:user-callables" % case.pieces.alias, len(case.pieces.names))
            if case.pieces.alias == "view":
                res.count("alias=view:callables-returning-a-view-of-their-argument", case.pieces.nview)
            if case.pieces.alias == "stored" and case.pieces.stored:
                res.count("alias=stored:arrays-stored", sum(len(s_.memo) for s_ in case.pieces.stored))
                res.count("alias=stored:stored-array-handed-out-again", sum(s_.hits for s_ in case.pieces.stored))
                res.evaluations += 1
                bad = case.pieces.altered()
                if bad:
                    name, now, orig = bad[0]
                    o = {"status": "bad", "cls": "input-altered", "x": None, "impl": now, "ref": orig,
                         "msg": "after the gradient evaluations %d array(s) stored on the user's side (returned by %s) no longer hold the "
                                "user's values, e.g. the array returned by %s was %s and is now %s {%s}"
                                % (len(bad), ", ".join(sorted(set(b[0] for b in bad))), name,
                                   np.array2string(np.asarray(orig).ravel()[:6], precision=6),
                                   np.array2string(np.asarray(now).ravel()[:6], precision=6), fkey)}
                    res.outcomes.add("%s:stored-arrays:altered" % component)
                else:
                    o = {"status": "ok"}
                    res.outcomes.add("%s:stored-arrays:unchanged" % component)
                rec.add(rcomp, op_in, rkeys, rfac, o)
    rec.emit()
    res.traces += compared      # every compared (object, point) pair: reference derivative replayed against gradient()
    if compared == 0:
        res.nontrivial = False
    return res


def _tally(res, component, where, o, xrep=None):
    st = o["status"]
    if xrep is not None:
        res.count("xrep=%s:%s-%s" % (xrep, where, st))      # coverage of the representation facet
    if st == "refused":
        res.refused += 1
        res.count("refused")
        res.outcomes.add("%s:%s:raises:%s" % (component, where, o["why"]))
    elif st == "skip":
        res.count("skipped:" + o["why"].split(":")[0])
        res.outcomes.add("%s:%s:skip:%s" % (component, where, o["why"]))
    elif st == "ok":
        res.count("ok-" + where)
        if o.get("fallback"):
            res.count("ok-in-vs-textbook-reference(logd refused)")
        if where == "in":
            res.outcomes.add("%s:in:equal%s" % (component, "" if o.get("shape_exact") else "(reshaped)"))
        elif where == "rep":
            res.outcomes.add("%s:repeated:equal" % component)
        elif where == "held":
            res.outcomes.add("%s:held-array:equal" % component)
        elif where == "bnd":
            if o["branch"] == "finite":
                res.count("ok-bnd:logd-finite:one-sided-derivative" + (":signed-inf-entries" if o["infinite_entries"] else ""))
                res.outcomes.add("%s:bnd:logd-finite:equal-one-sided%s" % (component, "+signed-inf" if o["infinite_entries"] else ""))
            else:
                res.count("ok-bnd:logd-infinite:non-finite")
                res.outcomes.add("%s:bnd:logd-infinite:%s" % (component, "all-nan" if o.get("allnan") else "non-finite"))
        else:
            res.outcomes.add("%s:out:%s" % (component, "all-nan" if o.get("allnan") else "non-finite"))
    else:
        res.count("bad-" + o["cls"])
        res.outcomes.add("%s:%s:bad-%s" % (component, where, o["cls"]))


def _composite_generators(cell):
    fam, p, k, npts = cell["family"], cell["p"], cell["cat"], cell["npts"]
    if fam == "lik-noise":
        return X.gen_lik_noise(p, k, npts)
    if fam == "lik-model":
        return X.gen_lik_model(p, k, npts, cell["noise"])
    if fam == "posterior":
        return X.gen_posterior(p, k, npts)
    if fam == "mlp":
        return X.gen_mlp(p, k, npts)
    if fam == "alias":
        return X.gen_alias(cell["group"], p, k, npts, bool(cell["thorough"]))
    raise ValueError(fam)
