"""C18 helpers: the INPUT CONTAINER facet of PDEModel.forward / PDEModel.gradient.

The same parameter values are handed to one PDEModel as
    ndarray            a plain float64 vector of parameters                                    (the baseline route)
    cuqiarray-par      CUQIarray(x, is_par=True, geometry=domain geometry)
    cuqiarray-fun      CUQIarray(par2fun(x), is_par=False, geometry=domain geometry)
    funvals            the ndarray par2fun(x) together with is_par=False
    samples-1/2/dim    cuqi.samples.Samples over an (par_dim, Ns) array, Ns in {1, 2, par_dim}, geometry = domain geometry
    samples-nogeom     Samples over an (par_dim, 2) array without a geometry
crossed with the domain geometry (identity: integer / Continuous1D; non-identity: KL with all modes, truncated KL, Step, Mapped,
Mapped over truncated KL), the range geometry (identity / affine Mapped) and the relation of the observation grid to the solution
grid (which makes parameter and observation dimension equal or unequal).

Oracle (all written here, nothing of cuqi.geometry is used for the expected values): column i of the output equals
    range.fun2par( observe( solve( PDE_form( domain.par2fun(column i) ) ) ) )
with the dense KL sine sum / step indicator / map of this file, the dense solve / Euler loop of c18.py and its restriction /
interpolant family; the output of a CUQIarray / Samples input carries the RANGE geometry; the input container is not modified;
a container that raises where the per-vector ndarray route answers is a verdict.  Gradient: direction and wrt are handed in the
cell's container; the PDE carries a harness-supplied jacobian_wrt_parameter J(f) (it records the point it is called at), the
expected value is (range.par2fun(direction) @ J(par2fun(x))) @ d par2fun / dx; a raise is accepted where the ndarray route raises
too (geometries without a gradient) and for Samples arguments (documented refusal).
"""
import numpy as np

CONTAINERS = ["ndarray", "cuqiarray-par", "cuqiarray-fun", "funvals", "samples-1", "samples-2", "samples-dim", "samples-nogeom"]
DGEOMS = ["int", "continuous", "kl-full", "kl-trunc", "step", "mapped", "mapped-kl"]
RGEOMS = ["continuous", "mapped"]
CONT_RELS = ["equal", "subset", "offnode"]
CONT_PDES = ["steady-src", "steady-coef", "heat-fe", "field-be"]
CONT_PDES_THOROUGH = CONT_PDES + ["heat-be", "field-fe"]
N_TRUNC = 3                     # modes of the truncated KL / number of steps (= number of nodes of the 'subset' / 'offnode' grids)

KL_DECAY, KL_NORM = 2.5, 12.0   # the documented defaults of KLExpansion, passed explicitly to the constructor


def container_class(name):
    return "samples" if name.startswith("samples") else ("cuqiarray" if name.startswith("cuqiarray") else name)


def dgeom_class(name):
    return {"int": "identity", "continuous": "identity", "kl-full": "kl", "kl-trunc": "kl", "step": "step", "mapped": "mapped",
            "mapped-kl": "mapped"}[name]


def geoms_facet(dname, rname):
    """signature facet: whether a defect needs a geometry that does not act as the identity in order to show (the classes involved are
    named in the message; the parameter <-> function maps themselves are not this property's business)"""
    return "geoms=identity" if (dgeom_class(dname) == "identity" and rname == "continuous") else "geoms=non-identity"


# ----------------------------------------------------------------------------------------
# dense references of the parameter -> function maps
# ----------------------------------------------------------------------------------------
def kl_matrix(N, m, decay=KL_DECAY, norm=KL_NORM):
    """documented KL sine expansion: f_K = sum_{i<N-1} p_i / ((i+1)^decay norm) sin(pi/N (i+1)(K+1/2)) + (-1)^K/2 p_{N-1} / (N^decay norm)"""
    K = np.arange(N)
    M = np.zeros((N, m))
    for i in range(m):
        c = 1.0 / ((i + 1.0) ** decay * norm)
        M[:, i] = c * np.sin(np.pi / N * (i + 1) * (K + 0.5)) if i < N - 1 else c * 0.5 * (-1.0) ** K
    return M


def step_matrix(N, n):
    """node j of an equidistant grid of N nodes (both end points are nodes) lies in step i = ceil(j n / (N-1)) - 1 (the first
    step contains its left end point; a node on a step boundary belongs to the lower step) - in exact integer arithmetic"""
    M = np.zeros((N, n))
    for j in range(N):
        i = max(0, -((-j * n) // (N - 1)) - 1)
        M[j, min(i, n - 1)] = 1.0
    return M


def domain(name, g):
    """(library geometry or integer, par_dim, p2f reference, d p2f / dx reference (matrix valued), f2p reference or None)"""
    import cuqi
    N = len(g)
    if name == "int":
        return N, N, (lambda x: np.asarray(x, float)), (lambda x: np.eye(N)), (lambda f: np.asarray(f, float))
    if name == "continuous":
        return cuqi.geometry.Continuous1D(g.copy()), N, (lambda x: np.asarray(x, float)), (lambda x: np.eye(N)), (lambda f: np.asarray(f, float))
    if name in ("kl-full", "kl-trunc"):
        m = N if name == "kl-full" else N_TRUNC
        M = kl_matrix(N, m)
        geom = cuqi.geometry.KLExpansion(g.copy(), decay_rate=KL_DECAY, normalizer=KL_NORM, num_modes=None if name == "kl-full" else m)
        return geom, m, (lambda x: M @ np.asarray(x, float)), (lambda x: M), None
    if name == "step":
        M = step_matrix(N, N_TRUNC)
        return cuqi.geometry.StepExpansion(g.copy(), n_steps=N_TRUNC), N_TRUNC, (lambda x: M @ np.asarray(x, float)), (lambda x: M), None
    if name == "mapped":
        geom = cuqi.geometry.MappedGeometry(cuqi.geometry.Continuous1D(g.copy()), map=lambda x: np.exp(0.5 * x), imap=lambda f: 2.0 * np.log(f))
        geom.gradient = lambda direction, wrt: direction * 0.5 * np.exp(0.5 * wrt)       # user-supplied chain-rule factor
        return (geom, N, (lambda x: np.exp(0.5 * np.asarray(x, float))), (lambda x: np.diag(0.5 * np.exp(0.5 * np.asarray(x, float)))),
                (lambda f: 2.0 * np.log(np.asarray(f, float))))
    if name == "mapped-kl":
        M = kl_matrix(N, N_TRUNC)
        geom = cuqi.geometry.MappedGeometry(cuqi.geometry.KLExpansion(g.copy(), decay_rate=KL_DECAY, normalizer=KL_NORM, num_modes=N_TRUNC),
                                            map=lambda f: np.exp(8.0 * f))
        return (geom, N_TRUNC, (lambda x: np.exp(8.0 * (M @ np.asarray(x, float)))),
                (lambda x: np.diag(8.0 * np.exp(8.0 * (M @ np.asarray(x, float)))) @ M), None)
    raise ValueError(name)


def range_geometry(name, n_out):
    """(library geometry, par -> fun reference, fun -> par reference)"""
    import cuqi
    if name == "continuous":
        return cuqi.geometry.Continuous1D(n_out), (lambda p: np.asarray(p, float)), (lambda f: np.asarray(f, float))
    if name == "mapped":
        geom = cuqi.geometry.MappedGeometry(cuqi.geometry.Continuous1D(n_out), map=lambda p: 2.0 * p - 1.0, imap=lambda f: 0.5 * (f + 1.0))
        return geom, (lambda p: 2.0 * np.asarray(p, float) - 1.0), (lambda f: 0.5 * (np.asarray(f, float) + 1.0))
    raise ValueError(name)


# ----------------------------------------------------------------------------------------
# the PDE of a container cell (parameter in function space = a field on the N nodes of the solution grid)
# ----------------------------------------------------------------------------------------
def build_pde(cell):
    """(pde object, ref(f) -> (acceptable observations in function space, exact?), n_out)"""
    import cuqi
    from checks import c18 as C
    N, name = cell["N"], cell["pde"]
    g, dx = C._grid(N)
    lap = C._lap(N, dx)
    s1, s2 = np.sin(np.pi * g), g * (1.0 - g)
    gsol, gobs, nodes = C._grids(cell["grids"], g)
    if name.startswith("steady"):
        if name == "steady-src":          # the field is the source
            A0 = -lap + np.eye(N)
            form, mp = (lambda f: (A0.copy(), np.asarray(f, float).copy())), None
        else:                             # the field enters operator and right-hand side (non-linear in the field)
            form = lambda f: (-lap + np.diag(1.0 + np.asarray(f, float) ** 2), 10.0 * s1 + np.asarray(f, float))
            mp = C._map("square")
        pde = cuqi.pde.SteadyStateLinearPDE(form, grid_sol=gsol, grid_obs=gobs, observation_map=mp)

        def ref(f):
            A, b = form(np.asarray(f, float))
            return C._steady_obs_refs(np.linalg.solve(A, b), g, nodes, mp)
    else:
        method = "forward_euler" if name.endswith("-fe") else "backward_euler"
        times = C._times("nonuniform", 3, 0.0)
        if name.startswith("heat"):       # the field is the initial condition
            form, mp = (lambda f, t: (lap, np.zeros(N), np.asarray(f, float).copy())), None
        else:                             # operator, source and initial condition depend on the field; operator and source on t
            def form(f, t):
                f = np.asarray(f, float)
                return ((1.0 + 0.25 * f[0] ** 2) * (1.0 + 20.0 * t) * lap, f * (1.0 + 100.0 * t) + 5.0 * s2, 0.5 * f + s1)
            mp = C._map("square")
        pde = cuqi.pde.TimeDependentLinearPDE(form, times.copy(), time_obs="final", method=method, grid_sol=gsol, grid_obs=gobs,
                                              observation_map=mp)

        def ref(f):
            U = C._euler_ref(form, np.asarray(f, float), times, method)
            return C._td_obs_refs(U, g, times, nodes, times[-1:], mp)
    n_out = N if nodes is None else len(nodes)
    return pde, ref, n_out, g


def columns(pd, ns, k):
    """deterministic (pd, ns) matrix of parameter vectors: generic dyadic entries of moderate size, all columns different"""
    from vfw import refs
    X = np.zeros((pd, ns))
    for j in range(ns):
        X[:, j] = refs.dyadic_vec(pd, k + j, scale=0.125 if j % 2 else 0.25) + 0.0625 * j
    return X


def n_columns(container, pd):
    return {"samples-1": 1, "samples-2": 2, "samples-dim": pd, "samples-nogeom": 2}.get(container, 2)


def wrap(container, X, geom, p2f):
    """the columns of X (parameters) in the cell's container: a list of (input object, forward kwargs, column indices it carries)"""
    from cuqi.array import CUQIarray
    from cuqi.samples import Samples
    if container == "ndarray":
        return [(X[:, j].copy(), {}, [j]) for j in range(X.shape[1])]
    if container == "cuqiarray-par":
        return [(CUQIarray(X[:, j].copy(), is_par=True, geometry=geom), {}, [j]) for j in range(X.shape[1])]
    if container == "cuqiarray-fun":
        return [(CUQIarray(p2f(X[:, j]), is_par=False, geometry=geom), {}, [j]) for j in range(X.shape[1])]
    if container == "funvals":
        return [(np.array(p2f(X[:, j]), dtype=float), {"is_par": False}, [j]) for j in range(X.shape[1])]
    if container == "samples-nogeom":
        return [(Samples(X.copy()), {}, list(range(X.shape[1])))]
    # the collection, then the same collection in reverse order on the same live model, then the first again
    order = list(range(X.shape[1]))
    return [(Samples(X[:, o].copy(), geometry=geom), {}, o) for o in (order, order[::-1], order)]


def raw(obj):
    """the ndarray a container carries"""
    if hasattr(obj, "samples"):
        return obj.samples
    return np.asarray(obj)


# ----------------------------------------------------------------------------------------
# evaluation of one container cell
# ----------------------------------------------------------------------------------------
def _out_array(y):
    return np.asarray(y.samples if hasattr(y, "samples") else y, dtype=float)


def _check_output_container(y, container, rgeom, n_out, ncols, fail):
    """what a CUQIarray / Samples answer carries besides its values: the RANGE geometry, parameters"""
    cc = container_class(container)
    if cc == "samples":
        a = _out_array(y)
        if a.shape != (n_out, ncols):
            fail("C18|PDEModel|output-shape|container=samples", "model(Samples with %d columns) has shape %s, expected (range_dim, Ns) = %s"
                 % (ncols, a.shape, (n_out, ncols)))
            return False
    geom = getattr(y, "geometry", None)
    if cc in ("samples", "cuqiarray") and geom is not None and not (geom == rgeom):
        fail("C18|PDEModel|output-geometry|container=%s" % cc, "the output of model(%s) carries the geometry %r, not the range geometry %r"
             % (container, geom, rgeom))
    if cc in ("samples", "cuqiarray") and getattr(y, "is_par", True) is False:
        fail("C18|PDEModel|output-geometry|container=%s" % cc, "the output of model(%s) is flagged as function values (is_par=False)" % container)
    return True


def eval_container(cell, res):
    import cuqi
    from vfw import refs
    from vfw.core import close
    from checks import c18 as C
    from checks import _c18_repr as R
    k, container = cell["cat"], cell["container"]
    cc = container_class(container)
    reported = set()

    def fail(sig, msg, **kw):
        if sig not in reported:
            reported.add(sig)
            res.fail(sig, msg, **kw)
    gfac = geoms_facet(cell["dgeom"], cell["rgeom"])
    try:
        pde, ref, n_out, g = build_pde(cell)
        dgeom, pd, p2f, dp2f, f2p = domain(cell["dgeom"], g)
        rgeom, r_p2f, r_f2p = range_geometry(cell["rgeom"], n_out)
        jcalls = []
        Jb = refs.full_matrix(n_out, len(g), k)

        def jac(wrt):                       # harness-supplied Jacobian of the observation w.r.t. the field (records where it is evaluated)
            w = np.array(wrt, dtype=float)
            jcalls.append(w)
            return Jb + 0.5 * np.outer(np.ones(n_out), w)
        pde.jacobian_wrt_parameter = jac
        model = cuqi.model.PDEModel(pde, rgeom, dgeom)
    except Exception as e:
        res.refused += 1
        res.nontrivial = False
        res.transitions += 1
        res.outcomes.add("construct-refused:" + type(e).__name__)
        return
    if model.domain_dim != pd or model.range_dim != n_out:
        fail("C18|PDEModel|dimensions|dgeom=%s" % dgeom_class(cell["dgeom"]), "domain_dim %s / range_dim %s, expected %d / %d"
             % (model.domain_dim, model.range_dim, pd, n_out))
        return
    ncols = n_columns(container, pd)
    X = columns(pd, ncols, k)
    res.outcomes.add("dims:%s" % ("equal" if pd == n_out else "unequal"))
    # ---- reference pipeline per column, and the baseline route (one plain parameter vector at a time) ------------------------------
    expected, exact = [], True
    for j in range(ncols):
        cands, ex = ref(p2f(X[:, j]))
        exact = exact and ex
        expected.append([np.atleast_1d(np.asarray(r_f2p(np.atleast_1d(np.squeeze(np.asarray(c, float)))), float)).ravel() for c in cands])
    tol = 1e-9 if exact else 1e-7
    base = []
    for j in range(ncols):
        res.transitions += 1
        res.state("%s:%s:%s:col%d" % (cell["pde"], cell["dgeom"], cell["rgeom"], j))
        try:
            yb = np.asarray(model.forward(X[:, j].copy()), dtype=float).ravel()
        except Exception as e:
            res.refused += 1
            res.outcomes.add("baseline-raises:" + type(e).__name__)
            fail("C18|PDEModel|forward-raises|%s" % gfac, "model(parameter vector) raised %r; assemble-solve-observe of par2fun(x) is defined" % (e,))
            return
        res.evaluations += 1
        if not C._matches(yb, expected[j], tol):
            # the PDE object driven by hand: when assemble-solve-observe itself is off, the defect belongs to the PDE cells (reported there)
            try:
                pde.assemble(np.array(p2f(X[:, j]), dtype=float))
                hand = r_f2p(np.atleast_1d(np.squeeze(np.asarray(pde.observe(pde.solve()[0]), float))))
            except Exception:
                hand = None
            if hand is None or not C._matches(hand, expected[j], tol):
                res.outcomes.add("pde-level-mismatch")
                res.nontrivial = False
                return
            fail("C18|PDEModel|forward|%s" % gfac, "model(parameter vector) differs from range.fun2par(observe(solve(PDE_form(domain.par2fun(x)))))",
                 y=yb, ref=expected[j][0])
            return
        base.append(yb)
    # ---- the container route -----------------------------------------------------------------------------------------------------------
    nobs = 0
    if container != "ndarray":
        for obj, kw, cols in wrap(container, X, model.domain_geometry, p2f):
            keep = R.snap(raw(obj))
            res.transitions += len(cols)
            try:
                y = model.forward(obj, **kw)
            except Exception as e:
                res.refused += 1
                res.outcomes.add("container-raises:%s:%s" % (cc, type(e).__name__))
                fail("C18|PDEModel|forward-raises|container=%s,%s" % (cc, gfac), "model(%s) raised %r although the model answers every one of "
                     "its parameter vectors when given as a plain vector (domain %s, range %s)" % (container, e, cell["dgeom"], cell["rgeom"]))
                break
            if not R.same(raw(obj), keep):
                fail("C18|PDEModel|input-altered|container=%s" % cc, "model(%s) modified the array of its input in place" % container)
            try:
                a = _out_array(y)
            except Exception as e:
                fail("C18|PDEModel|output-type|container=%s" % cc, "the output of model(%s) is not a real array: %r" % (container, e))
                break
            if not _check_output_container(y, container, model.range_geometry, n_out, len(cols), fail):
                break
            a = a.reshape(n_out, -1) if cc == "samples" else a.reshape(-1, 1)
            for pos, j in enumerate(cols):
                res.evaluations += 1
                col = a[:, pos]
                if not C._matches(col, expected[j], tol) or not (col.shape == base[j].shape and close(col, base[j], 1e-12)):
                    fail("C18|PDEModel|forward-container|container=%s,%s" % (cc, gfac),
                         "%s of model(%s) is not the assemble-solve-observe pipeline applied to %s (as the model itself returns for the plain "
                         "parameter vector); domain %s, range %s" % ("column %d" % pos if cc == "samples" else "the output", container,
                                                                            "that column" if cc == "samples" else "its values", cell["dgeom"], cell["rgeom"]),
                         y=col, ref=expected[j][0], per_vector=base[j])
                    break
            nobs += 1
            res.outcomes.add("forward:%s:%s:%s:%s" % (cc, dgeom_class(cell["dgeom"]), cell["rgeom"], "exact" if exact else "interp"))
    else:
        nobs = ncols
        res.outcomes.add("forward:ndarray:%s:%s:%s" % (dgeom_class(cell["dgeom"]), cell["rgeom"], "exact" if exact else "interp"))
    # ---- gradient: direction and wrt in the cell's container -----------------------------------------------------------------------------
    from cuqi.array import CUQIarray
    from cuqi.samples import Samples
    x = X[:, -1]
    if f2p is not None and container in ("cuqiarray-fun", "funvals"):
        x = np.asarray(f2p(p2f(x)), float)        # the parameter the handed-over function values stand for
    direction = refs.dyadic_vec(n_out, k + 4, scale=0.5)
    res.transitions += 1
    gb = None
    jcalls.clear()
    try:
        gb = np.asarray(model.gradient(direction.copy(), x.copy()), dtype=float).ravel()
    except Exception as e:
        res.refused += 1
        res.outcomes.add("gradient-refused:%s:%s:%s" % (dgeom_class(cell["dgeom"]), cell["rgeom"], type(e).__name__))
    gexp = (np.asarray(r_p2f(direction), float) @ (Jb + 0.5 * np.outer(np.ones(n_out), p2f(x)))) @ dp2f(x)
    if gb is not None:
        res.evaluations += 1
        if not jcalls or not close(jcalls[-1], p2f(x), 1e-12):
            fail("C18|PDEModel|gradient-point|%s" % gfac, "the PDE's Jacobian was evaluated at %s, expected the function values %s of wrt"
                 % (jcalls[-1].tolist() if jcalls else None, np.asarray(p2f(x)).tolist()))
            gb = None
        elif gb.shape != gexp.shape or not close(gb, gexp, 1e-9):
            fail("C18|PDEModel|gradient|%s" % gfac, "gradient != range.par2fun(direction) @ J(par2fun(wrt)) @ d par2fun / d wrt", grad=gb, ref=gexp)
            gb = None
    if container != "ndarray":
        kw = {}
        if container == "cuqiarray-par":
            d_in = CUQIarray(direction.copy(), is_par=True, geometry=model.range_geometry)
            w_in = CUQIarray(x.copy(), is_par=True, geometry=model.domain_geometry)
        elif container == "cuqiarray-fun":
            d_in = CUQIarray(np.asarray(r_p2f(direction), float), is_par=False, geometry=model.range_geometry)
            w_in = CUQIarray(np.asarray(p2f(x), float), is_par=False, geometry=model.domain_geometry)
        elif container == "funvals":
            d_in, w_in, kw = np.asarray(r_p2f(direction), float), np.asarray(p2f(x), float), {"is_direction_par": False, "is_wrt_par": False}
        else:
            d_in = direction.copy()
            w_in = Samples(X.copy(), geometry=model.domain_geometry if container != "samples-nogeom" else None)
        res.transitions += 1
        jcalls.clear()
        try:
            gc = model.gradient(d_in, w_in, **kw)
        except Exception as e:
            gc = None
            res.refused += 1
            res.outcomes.add("gradient-container-refused:%s:%s" % (cc, type(e).__name__))
            if gb is not None and cc != "samples":        # Samples arguments: documented refusal
                fail("C18|PDEModel|gradient-raises|container=%s,%s" % (cc, gfac), "gradient(direction, wrt) with %s arguments raised %r although "
                     "it is answered for the same values given as plain parameter vectors" % (container, e))
        if gc is not None and cc != "samples":
            res.evaluations += 1
            geom = getattr(gc, "geometry", None)
            try:
                ga = np.asarray(gc, dtype=float).ravel()
            except Exception:
                ga = None
            if ga is None or ga.shape != gexp.shape or not close(ga, gexp, 1e-9) or (gb is not None and not close(ga, gb, 1e-12)):
                fail("C18|PDEModel|gradient-container|container=%s,%s" % (cc, gfac), "gradient with %s arguments != range.par2fun(direction) @ "
                     "J(par2fun(wrt)) @ d par2fun / d wrt (the value for the same numbers given as plain vectors)" % container, grad=ga, ref=gexp)
            elif cc == "cuqiarray" and geom is not None and not (geom == model.domain_geometry):
                fail("C18|PDEModel|output-geometry|container=cuqiarray,op=gradient", "the gradient carries the geometry %r, not the domain "
                     "geometry" % (geom,))
            res.outcomes.add("gradient:%s:%s" % (cc, dgeom_class(cell["dgeom"])))
        elif gc is not None:
            # a collection of points was answered: it has to be the collection of the per-point gradients
            res.evaluations += 1
            ga = _out_array(gc)
            G = np.column_stack([(np.asarray(r_p2f(direction), float) @ (Jb + 0.5 * np.outer(np.ones(n_out), p2f(X[:, j])))) @ dp2f(X[:, j])
                                 for j in range(ncols)])
            if ga.shape != G.shape or not close(ga, G, 1e-9):
                fail("C18|PDEModel|gradient-container|container=samples,%s" % gfac, "gradient with a Samples wrt returned something else than "
                     "the per-sample gradients", grad=ga, ref=G)
            res.outcomes.add("gradient:samples-answered")
    if nobs == 0:
        res.nontrivial = False
    res.sample = {"parameters": X, "expected_columns": np.column_stack([e[0] for e in expected])}


SHIPPED_CONTAINERS = ["ndarray", "cuqiarray-par", "cuqiarray-fun", "samples-1", "samples-2", "samples-dim", "samples-nogeom"]
