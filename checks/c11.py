"""C11 - conditioning, evaluating and sampling never alter the objects they start from.

E1 history explorer.  A cell is one ORIGINAL object (a joint or a factor of the C01 graph catalogue, or a
special: Lognormal, RegularizedGaussian, RegularizedGMRF, forward models) in one value catalogue.  Inside the
cell every sequence of operations up to the depth bound is executed, each operation applied to the original or
to ANY object derived earlier in the same history (the pool): condition on a subset (keyword), condition on
nothing (the Gibbs ``target()`` copy), to_likelihood, model(dist), two Gibbs sweeps of each Gibbs sampler, three Metropolis-Hastings steps (both interfaces) on
a Posterior / MultipleLikelihoodPosterior, and ``reads`` = all read-only operations (get_parameter_names, get_conditioning_variables, logd, gradient,
sample(rng) / model forward + gradient) with arguments different from those of the fingerprint.  In addition
EVERY read-only operation is executed on EVERY live object after EVERY step - that is what taking the
fingerprints does - so each history interleaves the read operations with all other operations.

Oracle: the behavioural fingerprint (class, name, parameter names, conditioning variables, dim/geometry shape,
public mutable attributes, data, logd at two probes, gradient or its exception type, a draw from a fixed
RandomState, a conditioning probe) of the original, of every tracked factor/helper and of EVERY earlier pool
member is re-taken after every step and must equal the fingerprint taken when the object was created; a
conditioned copy must report the random-variable name of its source.

Naming cells (the clause "a conditioned copy keeps the random-variable name of its original"): three small worlds
(N1 chain y|x, N2 z|s,t with two hyper-parameters, N3 y|x,d through a LinearModel) are built in two ways - every
original with an explicit ``name=``, or without it so that the library infers the name lazily from the variable the
object is assigned to (the history then runs INSIDE the frame that holds those variables).  Every history of
{cond(S), call0, to_likelihood, join = JointDistribution(target, other originals)} is executed on both constructions and
for every point at which names are read for the first time (before the first operation, between two operations, only at
the end); every live object - originals, conditioned copies, likelihoods, evaluated densities, joints and what they
reduce to - is observed and compared (a) with what the history alone prescribes (name of a copy = name of its original;
parameters and get_density names of a joint = names of its members minus the fixed ones) and (b) with the route
"explicit names, everything read after every step".

Refused operations and consumers (both create nothing, so by the property the state after them is the state before them).
``refusals`` = the malformed uses of an object, executed one after the other, each guarded on its own: conditioning with an
unknown keyword (alone / next to a valid one), with a surplus positional argument, with one variable given positionally AND
by keyword, with a value of the wrong size; logd with a variable missing (positional / keyword); gradient without argument;
sample() of a conditional; for models: forward / gradient / adjoint with a wrong-size argument, forward with an unknown
keyword.  The library may refuse (any exception) or accept (the result is dropped); either way every live object must keep
its fingerprint, and on an original the outcome must be the outcome on a fresh world.  ``consumers`` = the object used the
way the library's own estimators and samplers use it: get_matrix() of the forward model it carries, and a BayesianProblem
made of it the way a user would ((data distribution, prior).set_data / (likelihood, prior) / likelihood and prior of a
Posterior): MAP (closed form for Gaussian-Gaussian-LinearModel, numerical otherwise), ML, sample_posterior with the automatic
sampler choice of both interfaces (direct Gaussian sampling where the library selects it), 3 LinearRTO and 3 pCN steps of both
interfaces.  Linear Bayesian worlds ``lin:<def>:<geom>:<focus>`` (y|x ~ N(A x, cI), x ~ N(m0, c0 I); A a LinearModel given
as a MATRIX or as forward/adjoint FUNCTIONS; default geometries, MappedGeometry on the domain, MappedGeometry on the range,
StepExpansion domain, KLExpansion domain - in the last four the operator acts on function values; original of the cell = the
joint, y, or the model) put every consumer route on every model representation.

Wrapper family and attribute assignment.  The specials contain EVERY distribution class of the library that keeps another
distribution object inside and forwards to it (Lognormal; Regularized / Constrained / Nonnegative Gaussian and GMRF;
RegularizedUnboundedUniform; JointGaussianSqrtPrec with its lists of parameter blocks), each in the variants the class admits:
all parameters numbers / second parameter a function of d / mean a plain function of m and no geometry, so that the dimension
is unknown until conditioning and sibling copies are conditioned on m of 4 and of 2 entries; and joint worlds ``wrapj:<class>``
y | x ~ N(A x, c I) with such a prior x (original = the joint; y, x, A tracked).  In these worlds the fingerprint also reads what
the samplers read (sqrtprec, sqrtprecTimesMean, the parameters / dim of the prior a Posterior carries and of the distribution a
Likelihood carries) because the log-density of an implicit prior is not a number.  ``assign`` = a parameter the class offers a
setter for (a public mutable variable that currently holds numbers) := another value, on the original, on any derived
distribution and, in joint worlds, on the factors the joint was built from.  The assigned object and its VIEWS (the Likelihood
made by to_likelihood of it and the JointDistribution it was given to hold the very object) legitimately change; EVERY OTHER live
object must keep its fingerprint; the assigned object must read the value back, must equal (complete fingerprint) the object
obtained by the same derivation from an original BUILT with that value, a Likelihood view must equal the view made now, and
assigning the old value back must restore it.

Gaussian matrix worlds ``gmat:<parameterisation>:<storage>:<size>:<variant>``.  The matrix parameter of a Gaussian is an ARRAY
OBJECT OF THE USER: given as cov / prec / sqrtcov / sqrtprec; dense symmetric or (for the two square roots, where it is legal) dense
non-symmetric non-triangular; in an owning C-ordered array or as the Fortran-ordered view R.T; of dimension 3 or just above the
library's sparse switch (config.MIN_DIM_SPARSE + 1).  Variants: mean a vector of the user (known), mean = lambda m: m (cond: the
original is conditional, its copies are sampled), JointDistribution(y | x ~ N(A x, c I), x ~ this Gaussian) (joint: the consumers
run on it).  The user's arrays (matrix, mean vector) are tracked objects of the world: fingerprint = shape, dtype, memory layout,
sha1 of the bytes, taken BEFORE any library object is read and re-taken after every step like every other fingerprint.  The
fingerprints of the Gaussians in these worlds also read sqrtprec / sqrtprecTimesMean, and every live distribution with one free
parameter is sampled (N = 1, rng) after every step, ``reads`` draws N = 3.

Finite-difference worlds (cells with ``alphabet = fd``).  The FD switch of a density is a documented mutator of ITS object; the
public state (FD_enabled, FD_epsilon) of every live object - and of the likelihood / prior a posterior carries - is part of every
fingerprint.  In an FD world the alphabet is {cond(S), condB, call0, to_likelihood, model(dist), reads} plus the HISTORY-DEPENDENT
switches: fd_on = enable_FD() where the switch is off, fd_eps = enable_FD(epsilon = another spacing) and fd_off = disable_FD()
where it is on - on the original, on the tracked factors of a joint original, on every derived object, and on the likelihood /
prior part of a Posterior / MultipleLikelihoodPosterior, at any position of the history and NOT reverted inside it (the switch
stays in force for the whole sub-tree; it is put back through the public interface when the search leaves the sub-tree).  The
switched object and its views (the Likelihood made by to_likelihood of it, the distribution a Likelihood view forwards to, the
joint holding a factor) are re-baselined and must report the state asked for; every other live object - copies made before, the
original, siblings - must keep its complete fingerprint; objects derived later from an original are compared with the same
derivation on a fresh world that received the same switches.  (All other cells keep the older ``enable_fd`` operation: a coarse
spacing set on a derived object and reverted at once.)

Functions of several variables (specials ``callable3-gauss``, ``callable2-gauss``).  A parameter given as a plain function of
SEVERAL conditioning variables is fixed in successive PARTIAL conditionings; each intermediate copy (still conditional, its parameter
a partially evaluated function) is a pool member: it is conditioned further (every subset of what is left, and a second value of the
shared variable b in sibling histories) and, like every live object, must keep its conditioning variables, parameter names and its
log-density under full conditioning after every later step on itself, on its source or on its siblings.

The depth-first search keeps live objects (legitimate exactly as long as nothing was altered - which is what is
re-checked after every step); every detected alteration is confirmed by replaying its history on a FRESH world
before it is reported, and the live world is rebuilt from scratch before the search continues.
"""
import itertools
import math
import numpy as np
from vfw.core import CellResult, close
from vfw import refs
from checks import _graphs as GR

PROPERTY = "C11"
RULE = ("cells = original object (every joint and every factor of graphs G1..G10, 26 specials = 2 models + 2 plain distributions of unknown "
        "dimension + 2 Gaussians whose parameters are plain functions of SEVERAL conditioning variables (callable3-gauss: mean(a, b, c); "
        "callable2-gauss: mean(a, b) and cov(b, c) sharing b), reached by successive PARTIAL conditionings so that every still-conditional "
        "intermediate copy is a live object that is conditioned further (partially / fully, and on a second value of b in sibling "
        "histories) and re-fingerprinted after every step + the wrapper family {Lognormal, RegularizedGaussian, ConstrainedGaussian, NonnegativeGaussian, RegularizedGMRF, "
        "ConstrainedGMRF, NonnegativeGMRF} x {all parameters numbers | second parameter a function | mean a function and no geometry: "
        "dimension unknown until conditioned, sibling copies conditioned on values of 4 and of 2 entries (refused by the GMRF classes "
        "at construction)} + RegularizedUnboundedUniform + JointGaussianSqrtPrec; 8 joint worlds wrapj = JointDistribution(y | x ~ "
        "N(A x, c I), x ~ wrapper prior); 30 linear Bayesian worlds = "
        "{operator given as matrix | as forward/adjoint functions} x {default geometries | MappedGeometry domain | MappedGeometry "
        "range | StepExpansion domain | KLExpansion domain} x {original = joint | data distribution | model}; 72 Gaussian matrix worlds "
        "gmat = {cov | prec | sqrtcov | sqrtprec given as the USER's array} x {dense symmetric | dense non-symmetric non-triangular "
        "(square roots only; a non-symmetric cov / prec is refused by the library and not enumerated)} x {C-ordered owning array | "
        "Fortran-ordered view R.T} x {dimension 3 | MIN_DIM_SPARSE + 1} x {mean a vector of the user | mean = lambda m: m | joint with "
        "a LinearModel data distribution}, the user's arrays being tracked objects (fingerprint = shape, dtype, layout, sha1 of the "
        "bytes, baseline taken before any library object is read)) x value catalogue x "
        "depth; inside a cell all sequences of {cond(S), call0, to_likelihood, model(dist), gibbs_new, gibbs_old, mh_new, mh_old, reads, "
        "refusals, consumers, assign(parameter)} up to the depth are executed on the original and on every pool member derived so far "
        "(assign also on the tracked factors of a joint original); assign = every public mutable variable of a distribution that "
        "holds numbers := twice its value (a zero vector: + 1/2): the assigned object and its views (to_likelihood of it, the "
        "joint holding it) are re-baselined, every other live object must keep its fingerprint, the assigned object must read the "
        "value back, equal the same derivation from an original BUILT with the value (worlds built by World.mk), its Likelihood "
        "view must equal the view made now, and the old value assigned back must restore it; refusals = "
        "{conditioning with an unknown keyword | unknown next to a valid keyword | surplus positional | variable given twice | "
        "wrong-size value, logd with a variable missing (positional | keyword), gradient without argument, sample of a "
        "conditional; models: wrong-size forward / gradient / adjoint, unknown keyword} - refused or accepted, the outcome on an "
        "original must be the outcome on a fresh world and nothing live may change; consumers = {get_matrix of the carried model, "
        "BayesianProblem MAP | ML | sample_posterior (automatic choice, both interfaces), 3 steps of LinearRTO and pCN of both "
        "interfaces} with results on an original compared with a fresh world; every operation on an original must end as on a "
        "fresh world (same refusal type / same derived fingerprint); all read-only operations "
        "(names, conditioning variables, attributes, logd x2, gradient, seeded draw) run on every live object after every "
        "step; after every step the fingerprints of the original, the tracked factors/helpers and all "
        "pool members are re-taken and compared; finite-difference worlds (alphabet = fd) = chosen originals with the alphabet "
        "{cond(S), condB, call0, to_likelihood, model(dist), reads} + history-dependent FD switches {fd_on = enable_FD() where off | "
        "fd_eps = enable_FD(another spacing) where on | fd_off = disable_FD() where on} on the original, the tracked factors of a joint "
        "original, every derived object and the likelihood / prior a posterior carries, at any position and un-reverted for the "
        "sub-tree below: the switched object and its views are re-baselined and must report the state asked for, everything else "
        "must keep its fingerprint (FD_enabled / FD_epsilon of the object and of its likelihood / prior are fingerprint entries in "
        "ALL cells), later derivations from an original must equal those of a fresh world given the same switches; "
        "states = (original, multiset of pool-member descriptors, assignments and FD switches in force), "
        "transitions = operations executed, traces = maximal histories; a cell is non-trivial when at least one "
        "derived object was created and fingerprinted; naming cells = (world N1..N3) x focus original x first operation: every "
        "history of {cond(S), call0, to_likelihood, join} below it is replayed on fresh objects for each (name given by name= | "
        "inferred from the variable) x (names first read before step t0, t0 = 0..len) route and every live object is compared "
        "with the name/parameter/density names the history prescribes and with the explicit-name read-first route")
BOUND = {
    "quick": "depth 3 for factors and specials (depth 2 for the six data factors y|x,s that repeat G1.y structurally), "
             "depth 3 for the joints G3 and G9 (3 variables), depth 2 for the other joints; "
             "depth 2 for the 30 linear Bayesian worlds; refusals / consumers close a history (nothing but the read-only "
             "operations of the fingerprints follows them in that history; the live world then continues with the sibling "
             "histories), on every target and after every history shorter than the depth; "
             "new wrapper-family specials: depth 3 for the classes with code of their own (Lognormal, RegularizedGaussian, "
             "RegularizedGMRF), depth 2 for the Constrained / Nonnegative classes (constructor forwarding only), RegularizedUnboundedUniform "
             "and JointGaussianSqrtPrec; wrapj joint worlds for Lognormal, RegularizedGaussian, RegularizedGMRF at depth 2; assign is in "
             "the alphabet of the wrapper-family specials, the wrapj worlds and the factors G1.x, G1.d, and closes a history (the old "
             "value is assigned back before the sibling histories continue); "
             "the 72 Gaussian matrix worlds at depth 2 with assign closing a history; finite-difference worlds: factors G1.y and G1.x, "
             "the linear joint world lin:mat:id:joint (tracked factors switched too) and lognormal-cond at depth 3; "
             "the two function-of-several-variables Gaussians (callable3-gauss, callable2-gauss) at depth 2 with cond on every singleton / the "
             "full set of the original and on every subset of the parameters of each intermediate, plus condB(b = a second value); "
             "1 value catalogue (seed%3); conditioning alphabet = all non-empty subsets of the target's parameters "
             "(<=3 parameters) or singletons + full set (>=4); horizon run: 200 alternating re-conditionings of G1; "
             "naming: N1 (focus y, x) and N2 (focus z, s) to depth 3, N3 (focus y, d) to depth 2, 1 catalogue; routes: inferred names x "
             "first read before step 0..len(history), explicit names x first read at the end, observing the name-related "
             "entries (class, name, parameter names, conditioning variables, logd by keyword, get_density by name); join "
             "combines the target only with the un-conditioned other originals",
    "thorough": "refusals / consumers are ordinary members of the alphabet (any position, every target) in all cells of depth <= 3 "
                "and close a history (every target) in the depth-4 cells; assign is in the alphabet of every factor and special cell "
                "and of the joint cells of catalogue 0 (tracked factors); it stays in force for the whole sub-tree below it in the "
                "special cells of depth 3 and in the depth-3 factor cells of catalogue 0 (later operations on an assigned original are "
                "compared with a fresh world that received the same assignments; the built-with-the-value reference is taken for the "
                "first assignment of a history) and closes a history in all other cells; all 20 wrapper-family specials and the 8 wrapj worlds at depth 3 in 3 catalogues (the 6 older "
                "wrapper specials at depth 4 in catalogue 0); the 30 linear Bayesian worlds at depth 3 in 3 catalogues; "
                "Gaussian matrix worlds: dimension 3 at depth 3 in 3 catalogues, dimension MIN_DIM_SPARSE + 1 at depth 2 in catalogue 0; "
                "finite-difference worlds (catalogue 0): every joint (depth 3 for <= 3 variables, else 2) and every factor of G1..G10 "
                "(depth 3), the 10 older specials, the 30 linear worlds and gmat:sqrtprec:fullF:small:* at depth 3, G1.y, G1.x and "
                "lin:mat:id:joint also at depth 4; "
                "callable3-gauss / callable2-gauss at depth 3 in 3 catalogues (not at depth 4, not in the finite-difference worlds); "
                "3 value catalogues at depth 3 for every factor and special; joints at depth 3 in catalogue 0 (G3, G9 in all "
                "catalogues) and depth 2 otherwise; in addition depth 4 for factors with <=2 "
                "parameters and for the specials in catalogue 0; horizon run: 2000 alternating "
                "re-conditionings of G1, G2 and G9 posteriors (the Gibbs pattern); naming: N1, N2, N3 to depth 3 with both "
                "ways of naming x every first-read point and complete fingerprints, N1 also to depth 4 with the quick routes",
}
ASSUMPTIONS = [
    "behavioural equality is observed through a finite fingerprint (two probe points, one seeded draw, public "
    "attributes); an alteration invisible to all fingerprint entries is not detected",
    "numeric fingerprint entries are compared with rtol 1e-10 (a cache may change the floating-point path), "
    "everything else exactly; exception TYPES are part of the fingerprint, messages are not",
    "operations are executed on live objects; soundness of re-using a world across sibling histories rests on the "
    "fingerprints re-taken after every step; every report is first reproduced on a fresh world",
    "finite-difference worlds: two spacings besides the default (1e-3, and 1e-2 where 1e-3 is in force); the switch of an "
    "EvaluatedDensity (a constant whose gradient always refuses and whose conditioning returns the object itself) is neither "
    "operated nor fingerprinted; refused / consumer operations, assignment, samplers are not in the alphabet of these worlds; an FD "
    "switch is put back by enable_FD(old spacing) / disable_FD() when the search leaves its sub-tree (not clean -> the live world "
    "is rebuilt)",
    "Gaussian matrix worlds: one SPD matrix S per (dimension, catalogue) (eigenvalues apart, so that the eigen-factorisation above "
    "the sparse switch is well conditioned) and one non-symmetric square root S H (H a Householder reflection); Fortran storage = "
    "a non-owning transposed view of a C-contiguous array, float64; sparse and LinearOperator inputs are not in this facet",
    "enable_FD on a derived object and attribute assignment are documented mutators of THEIR object: they are in the alphabet, the "
    "object itself and the views that hold it (Likelihood of to_likelihood, JointDistribution of a factor) are re-baselined, everything "
    "else must not notice; one assigned value per parameter (2 x value, zero vector + 1/2), only parameters holding numbers (a "
    "parameter that is a function or unset is not assigned), at most one assignment per (object, parameter) in a history",
    "the reference 'freshly built with the assigned value' exists for the worlds this module builds through World.mk (specials, "
    "linear and wrapj worlds) and for the first assignment of a history; in graph cells (factors of G1..G10) the assigned object is "
    "judged by read-back, restore and the fresh-world replay of the same history only",
    "wrapper worlds: the extra fingerprint entries (sqrtprec, sqrtprecTimesMean, prior / carried-distribution parameters) are read "
    "in the wrapper-family and wrapj worlds only; an alteration of a nan-valued implicit prior inside a graph cell would be seen "
    "through its public mutable attributes only",
    "functions of several variables as parameters: one Gaussian with mean(a, b, c) (3 scalar variables) and one with mean(a, b), "
    "cov(b, c) (2 + 2 variables, one shared), dimension 2 given by geometry; plain lambdas only (no functools.partial or callable object "
    "handed in by the user), at most 3 successive conditionings (quick: 2); signatures of these worlds carry the facet "
    "[function-of-several-variables] after the class name",
    "a cell whose fresh original answers the read-only operations of the fingerprint differently the second time is reported once "
    "(operation 'fingerprint') and not explored further",
    "refused operations: one representative per kind of malformed call (one unknown keyword, one surplus argument, the first "
    "parameter given twice / with 2 entries too many); whether the library refuses or accepts is not judged (only that it does "
    "what it does on a fresh world); objects an accepted malformed call returns are dropped, not explored further",
    "consumers: BayesianProblem with 4 samples / 3 sampler steps, scale 0.1 for pCN, driven by numpy's global generator seeded "
    "immediately before (state restored afterwards); consumer results on an original are compared with a fresh world at rtol "
    "1e-7 (through an optimiser for ML / numerical MAP); only objects that carry a forward model are given to consumers; the "
    "mapped geometries are linear maps (2p, 4p) so that the closed-form Gaussian routes stay applicable",
    "quick tier: a latent effect of a refused / consumer operation that no fingerprint entry shows immediately is seen only "
    "through the sibling histories that continue on the same live world (reported with the suffix |latent)",
    "Gibbs sweeps are driven by numpy's global generator seeded immediately before (state restored afterwards)",
    "library objects are held only in obj*/_* names or containers so that stack-based name inference cannot pick "
    "up harness variable names",
    "naming cells: an un-named original is referred to by exactly one admissible variable (its intended name, a local of "
    "the naming frame the history runs in) in all frames the library searches; other ways a user program may hold such an "
    "object (several aliases, containers only, module globals, attributes) are not enumerated",
    "naming cells: the operation alphabet of a history is read off the explicit-name baseline world; the first-read "
    "facet has one intermediate observation point per run (all live objects at once), not every subset of objects",
]

RT = 1e-10
JOINTS = GR.ORDER + GR.ORDER5


# ----------------------------------------------------------------------------------------
# cells
# ----------------------------------------------------------------------------------------
QUICK_SHALLOW = {("G2", "y"), ("G5", "y2"), ("G7", "y"), ("G8", "y"), ("G9", "y"), ("G10", "y")}
SPECIALS = ["lognormal", "lognormal-cond", "reggauss", "reggauss-cond", "reggmrf-cond", "nonneggmrf", "model-linear", "model-nonlinear",
            "unknown-dim-normal", "unknown-dim-gamma", "callable3-gauss", "callable2-gauss"]
# callable3-gauss / callable2-gauss: a Gaussian whose parameters are PLAIN FUNCTIONS OF SEVERAL conditioning variables
# (mean(a, b, c) / mean(a, b) and cov(b, c), the variable b shared by both parameters), so that the object is reached by SUCCESSIVE
# PARTIAL conditionings: every intermediate copy (still conditional, its parameter a partially evaluated function) is a live
# pool member that is conditioned further - partially and fully, in sibling histories - and re-fingerprinted after every step
# wrapper family: every distribution class of the library that keeps ANOTHER distribution object (or the parameter blocks of
# several) inside and forwards to it - Lognormal (inner Gaussian), Regularized / Constrained / Nonnegative Gaussian (inner
# Gaussian, write-through setters), Regularized / Constrained / Nonnegative GMRF (inner GMRF), RegularizedUnboundedUniform
# (inner zero-precision Gaussian), JointGaussianSqrtPrec (lists of means / square-root precisions) - each in the variants the
# class admits:  known = all parameters numbers (no conditioning variable, dimension known);  cond = the second parameter a
# function of d (dimension known);  unk = mean a plain function of m and no geometry (dimension unknown until conditioned;
# sibling copies conditioned on m of 4 and of 2 entries).  The GMRF classes refuse the unk construction (a GMRF needs its
# geometry at construction); RegularizedUnboundedUniform and JointGaussianSqrtPrec have no parameter that may be a function.
# name of the special -> (class key, variant)
CALLABLE_WORLDS = ("callable3-gauss", "callable2-gauss")
WRAP = {
    "lognormal": ("lognormal", "known"), "lognormal-cond": ("lognormal", "cond"), "unknown-dim-lognormal": ("lognormal", "unk"),
    "reggauss": ("reggauss", "known"), "reggauss-cond": ("reggauss", "cond"), "unknown-dim-reggauss": ("reggauss", "unk"),
    "constrgauss": ("constrgauss", "known"), "constrgauss-cond": ("constrgauss", "cond"), "unknown-dim-constrgauss": ("constrgauss", "unk"),
    "nonneggauss": ("nonneggauss", "known"), "nonneggauss-cond": ("nonneggauss", "cond"), "unknown-dim-nonneggauss": ("nonneggauss", "unk"),
    "reggmrf": ("reggmrf", "known"), "reggmrf-cond": ("reggmrf", "cond"),
    "constrgmrf": ("constrgmrf", "known"), "constrgmrf-cond": ("constrgmrf", "cond"),
    "nonneggmrf": ("nonneggmrf", "known"), "nonneggmrf-cond": ("nonneggmrf", "cond"),
    "reguniform": ("reguniform", "known"), "jointsqrtprec": ("jointsqrtprec", "known"),
}
WRAP_NEW = [n for n in WRAP if n not in SPECIALS]
# classes with code of their own (the Constrained / Nonnegative classes only forward their constructor arguments)
WRAP_OWN_CODE = ("lognormal", "reggauss", "reggmrf")
# joint worlds  y | x ~ N(A x, c I),  x ~ <wrapper prior, known variant>:  original = JointDistribution(y, x); y, x, A tracked
WRAPJ_CLASSES = ["lognormal", "reggauss", "constrgauss", "nonneggauss", "reggmrf", "constrgmrf", "nonneggmrf", "reguniform"]
# linear Bayesian worlds  y | x ~ N(A x, c I),  x ~ N(0, c0 I):  how the LinearModel is defined x geometry x focus original
LIN_DEFS = ["mat", "fun"]                                   # operator given as a matrix | as forward/adjoint callables
LIN_GEOMS = ["id", "mapdom", "maprange", "step", "kl"]      # default geometries | MappedGeometry on the domain | on the range |
#                                                             StepExpansion domain | KLExpansion domain (matrix acts on function values)
LIN_FOCUS = ["joint", "y", "model"]                         # which object of the world is the original of the cell


def lin_specials(tier):
    out = []
    for df in LIN_DEFS:
        for gm in LIN_GEOMS:
            for fc in LIN_FOCUS:
                out.append("lin:%s:%s:%s" % (df, gm, fc))
    return out


# Gaussian matrix worlds  gmat:<parameterisation>:<storage>:<size>:<variant>:  a Gaussian whose matrix parameter is an ARRAY
# OBJECT OF THE USER (the library keeps the very object, or a factor computed from it, and every conditioned copy shares it)
GM_PARS = ["cov", "prec", "sqrtcov", "sqrtprec"]            # which of the four matrix parameters the user gives
GM_STORAGE = ["symC", "symF", "fullC", "fullF"]              # dense symmetric | dense non-symmetric non-triangular (legal for the two
#                                                              square roots only) x C-ordered | Fortran-ordered (the user passes R.T)
GM_SIZES = ["small", "large"]                                # dimension 3 | config.MIN_DIM_SPARSE + 1 (the library's sparse switch)
GM_VARIANTS = ["known", "cond", "joint"]                     # mean a vector of the user | mean = lambda m: m (conditional original) |
#                                                              JointDistribution(y | x ~ N(A x, c I), x ~ this Gaussian)


def gm_legal(par, sto):
    return sto.startswith("sym") or par in ("sqrtcov", "sqrtprec")


def gm_specials(tier):
    """[(name, depth)] of the Gaussian matrix worlds of a tier"""
    q = tier == "quick"
    out = []
    for par in GM_PARS:
        for sto in GM_STORAGE:
            if not gm_legal(par, sto):
                continue
            for sz in GM_SIZES:
                for var in GM_VARIANTS:
                    out.append(("gmat:%s:%s:%s:%s" % (par, sto, sz, var), 2 if (q or sz == "large") else 3))
    return out


# finite-difference worlds: cells whose alphabet is {cond(S), call0, to_likelihood, reads} + the history-dependent FD switches
# (fd_on / fd_eps / fd_off on the object itself and on the likelihood / prior it carries), NOT reverted inside the history
FD_CELLS = {
    "quick": [("factor", "G1", "y", 3), ("factor", "G1", "x", 3), ("special", "lin:mat:id:joint", None, 3),
              ("special", "lognormal-cond", None, 3)],
    "thorough": [("factor", "G1", "y", 4), ("factor", "G1", "x", 4), ("special", "lin:mat:id:joint", None, 4)],
}


def cells(tier, seed):
    cats = [refs.cat(seed)] if tier == "quick" else [0, 1, 2]
    q = tier == "quick"
    out = []
    for k in cats:
        for gid in JOINTS:
            g = GR.GRAPHS[gid]
            nv = len(g.free)
            depth = 3 if (gid in ("G3", "G9") or (not q and k == cats[0])) else 2
            out.append({"kind": "joint", "graph": gid, "cat": k, "depth": depth})
        for gid in JOINTS:
            g = GR.GRAPHS[gid]
            for name in g.free + g.data0:
                npar = len(g.parents[name]) + 1
                if q:
                    # quick: the 3-parameter Gaussian data factors y|x,s with a LinearModel repeat structurally
                    # (G1.y is kept at depth 3); the repeats are explored to depth 2 here and to depth 3 in thorough
                    d = 2 if (npar >= 3 and (gid, name) in QUICK_SHALLOW) else 3
                else:
                    d = 3 if (npar >= 3 or k != cats[0]) else 4
                out.append({"kind": "factor", "graph": gid, "name": name, "cat": k, "depth": d})
        for sp in SPECIALS:
            if sp in CALLABLE_WORLDS:
                # 4 parameters and sibling values: depth 2 in quick (two successive partial conditionings + the fingerprints
                # of all intermediates), depth 3 in thorough
                out.append({"kind": "special", "name": sp, "cat": k, "depth": 2 if q else 3})
                continue
            out.append({"kind": "special", "name": sp, "cat": k, "depth": 3 if (q or k != cats[0]) else 4})
        for sp in lin_specials(tier):
            out.append({"kind": "special", "name": sp, "cat": k, "depth": 2 if q else 3})
        for sp in WRAP_NEW:
            own = WRAP[sp][0] in WRAP_OWN_CODE
            out.append({"kind": "special", "name": sp, "cat": k, "depth": (3 if own else 2) if q else 3})
        for cl in WRAPJ_CLASSES:
            if q and cl not in WRAP_OWN_CODE:
                continue
            out.append({"kind": "special", "name": "wrapj:" + cl, "cat": k, "depth": 2 if q else 3})
        for sp, d in gm_specials(tier):
            if not q and k != cats[0] and sp.split(":")[3] == "large":
                continue         # thorough: the large matrices in catalogue 0 only
            out.append({"kind": "special", "name": sp, "cat": k, "depth": d})
    # finite-difference worlds (un-reverted FD switches in the history)
    fdc = list(FD_CELLS["quick"]) if q else list(FD_CELLS["thorough"])
    if not q:
        for gid in JOINTS:
            g = GR.GRAPHS[gid]
            fdc.append(("joint", gid, None, 3 if len(g.free) <= 3 else 2))
            for name in g.free + g.data0:
                fdc.append(("factor", gid, name, 3))
        for sp in [_s for _s in SPECIALS if _s not in CALLABLE_WORLDS] + lin_specials(tier) + ["gmat:sqrtprec:fullF:small:%s" % v for v in GM_VARIANTS]:
            fdc.append(("special", sp, None, 3))
    for kind, a, b, d in fdc:
        c = {"kind": kind, "cat": cats[0], "depth": d, "alphabet": "fd"}
        if kind == "special":
            c["name"] = a
        else:
            c["graph"] = a
            if kind == "factor":
                c["name"] = b
        out.append(c)
    # naming cells: how the random-variable name is given (explicit name= / inferred from the variable the object is
    # assigned to) x when the name is first read; one cell per (world, focus original, first operation on the focus)
    for wid in NAMING_ORDER:
        for focus in NAMING_FOCUS[wid]:
            for first in range(naming_first_ops(wid, focus)):
                for d, routes in NAMING_DEPTH[wid][0 if q else 1]:
                    out.append({"kind": "naming", "world": wid, "focus": focus, "first": first, "cat": cats[0], "depth": d,
                                "routes": routes})
    if q:
        out.append({"kind": "horizon", "graph": "G1", "cat": cats[0], "n": 200})
    else:
        for gid in ("G1", "G2", "G9"):
            out.append({"kind": "horizon", "graph": gid, "cat": cats[0], "n": 2000})
    # refused / consumer operations: "leaf" = they close a history, "full" = ordinary members of the alphabet
    for c in out:
        if c["kind"] in ("joint", "factor", "special"):
            c["closing"] = "leaf" if q else ("full" if c["depth"] <= 3 else "leaf")
            # attribute assignment (a parameter of a live object := another value):  "leaf" = it closes a history (it is undone
            # before the sibling histories continue), "full" = it stays in force for the whole sub-tree below it
            wrap = c["kind"] == "special" and (c["name"] in WRAP or c["name"].startswith("wrapj:") or c["name"].startswith("gmat:"))
            if c.get("alphabet") == "fd":
                pass             # (finite-difference worlds: no assignment, no refused / consumer operations)
            elif q:
                if wrap or (c["kind"] == "factor" and c["graph"] == "G1" and c["name"] in ("x", "d")):
                    c["assign"] = "leaf"
            elif c["kind"] == "special":
                c["assign"] = "full" if c["depth"] <= 3 else "leaf"
            elif c["kind"] == "factor":
                c["assign"] = "full" if (c["depth"] <= 3 and c["cat"] == cats[0]) else "leaf"
            elif c["cat"] == cats[0]:
                c["assign"] = "leaf"
    # longest cells first (better pool utilisation); order is deterministic
    out.sort(key=lambda c: (-(c.get("depth", 9) * 10 + (5 if c["kind"] == "joint" else 0)), str(sorted(c.items()))))
    return out


# ----------------------------------------------------------------------------------------
# worlds
# ----------------------------------------------------------------------------------------
class World:
    """objs[0] is the original; objs[1:ntracked] are tracked-only helpers/factors (never operation targets,
    except helper distributions used as arguments of model(dist)); objs[ntracked:] is the pool."""

    def __init__(self, cell, _given=None, override=None):
        self.cell = cell
        k = cell["cat"]
        # override = (object index, parameter name, value): that object is BUILT with the parameter set to the value (the
        # reference "a freshly built object with that value" of the assignment operation); only for objects made by mk()
        self.override = override
        self.override_used = False
        self.inforce = []    # attribute assignments currently in force: [object index, attribute, old value, {index: fingerprint before}]
        self.fdforce = []    # FD switches made in the current history, in order: [op name, object index, part, state before, {index: fingerprint before}]
        self.extra_props = False
        self.objs = []
        self.role = []       # 'original' | 'tracked' | 'pool'
        self.src = []        # index of the object this one was derived from
        self.fp = []
        self.vals = {}
        self.valsB = {}
        self.graph = None
        self.how = {}        # pool index -> operation that created it
        self.arg = {}        # pool index -> argument of that operation
        if cell["kind"] in ("joint", "factor"):
            g = GR.GRAPHS[cell["graph"]]
            self.graph = g
            _b = g.build(k)
            self.vals = g.values(k)
            self.valsB = g.values((k + 1) % 3)
            if cell["kind"] == "joint":
                self.add(_b.joint, "original")
                for n in g.free + g.data0:
                    self.add(_b.factors[n], "tracked")
                for _m in _b.models.values():
                    self.add(_m, "tracked")
            else:
                self.add(_b.factors[cell["name"]], "original")
                for _m in _b.models.values():
                    self.add(_m, "tracked")
        elif cell["kind"] == "naming":
            # baseline route: explicit name=; variant routes hand in the originals made inside their naming frame
            _l = _given if _given is not None else NAMING_FRAMES[cell["world"]](k, "explicit", lambda _d: _d)
            self.orig_names = [cell["focus"]] + [n for n in _l if n != cell["focus"]]
            for n in self.orig_names:
                self.add(_l[n], "original" if n == cell["focus"] else "tracked")
            self.vals, self.valsB = naming_values(cell["world"], k)
        else:
            self.special(cell["name"], k)
        self.ntracked = len(self.objs)

    def add(self, obj, role, src=None, how=None, arg=None):
        self.objs.append(obj)
        self.role.append(role)
        self.src.append(src)
        self.fp.append(None)
        if how is not None:
            self.how[len(self.objs) - 1] = how
            self.arg[len(self.objs) - 1] = arg

    def truncate(self, n):
        del self.objs[n:], self.role[n:], self.src[n:], self.fp[n:]

    def mk(self, ctor, _slot=None, **kw):
        """construct the object that will be stored at index _slot (default: the one add() stores next); an override addressed
        to that index replaces one constructor keyword"""
        ov = self.override
        if ov is not None and ov[0] == (len(self.objs) if _slot is None else _slot) and ov[1] in kw:
            kw[ov[1]] = ov[2]
            self.override_used = True
        return ctor(**kw)

    def views_of(self, i):
        """objects that by construction ARE object i seen through another interface (they hold object i itself, not a copy):
        the Likelihood made by to_likelihood of a conditional distribution, and the JointDistribution a tracked factor was
        given to.  Everything else derived from i is a copy."""
        out = [j for j in range(self.ntracked, len(self.objs))
               if self.src[j] == i and self.how.get(j) == "to_likelihood" and kind_of(self.objs[j]) == "lik"]
        if 0 < i < self.ntracked and kind_of(self.objs[0]) == "joint" and kind_of(self.objs[i]) == "dist":
            out.append(0)
        return out

    def special(self, name, k):
        import cuqi
        D = cuqi.distribution
        m2 = refs.dyadic_vec(2, k + 1, scale=0.125)
        C2 = refs.spd_matrix(2, k)
        m3 = refs.dyadic_vec(3, k + 2, scale=0.125)
        pos = lambda v: np.abs(v) + 0.25  # noqa
        IP = cuqi.implicitprior
        if name in WRAP or name.startswith("wrapj:"):
            self.extra_props = True      # fingerprints also read what the samplers read: sqrtprec, sqrtprecTimesMean, prior / inner parameters
        if name == "lognormal":
            self.add(self.mk(D.Lognormal, mean=m2, cov=C2, name="l"), "original")
            self.vals = {"l": pos(refs.dyadic_vec(2, k + 3))}
            self.valsB = {"l": pos(refs.dyadic_vec(2, k + 6))}
        elif name == "lognormal-cond":
            self.add(self.mk(D.Lognormal, mean=lambda u: u * np.array([0.5, -0.25]), cov=C2, name="l"), "original")
            self.vals = {"l": pos(refs.dyadic_vec(2, k + 3)), "u": [1.0, 1.25, 2.5][k]}
            self.valsB = {"l": pos(refs.dyadic_vec(2, k + 6)), "u": [0.75, 2.0, 1.5][k]}
        elif name == "reggauss":
            self.add(self.mk(IP.RegularizedGaussian, mean=m3, cov=0.5 + 0.25 * k, constraint="nonnegativity", name="x"), "original")
            self.vals = {"x": pos(refs.dyadic_vec(3, k))}
            self.valsB = {"x": pos(refs.dyadic_vec(3, k + 4))}
        elif name == "reggauss-cond":
            self.add(self.mk(IP.RegularizedGaussian, mean=m3, cov=lambda d: 1.0 / d, constraint="nonnegativity", geometry=3, name="x"), "original")
            self.vals = {"x": pos(refs.dyadic_vec(3, k)), "d": GR.H3[0][k]}
            self.valsB = {"x": pos(refs.dyadic_vec(3, k + 4)), "d": GR.H3[1][k]}
        elif name == "reggmrf-cond":
            self.add(self.mk(IP.RegularizedGMRF, mean=m3, prec=lambda d: d, regularization="l1", strength=2.0, name="x"), "original")
            self.vals = {"x": refs.dyadic_vec(3, k), "d": GR.H3[0][k]}
            self.valsB = {"x": refs.dyadic_vec(3, k + 4), "d": GR.H3[1][k]}
        elif name == "nonneggmrf":
            self.add(self.mk(IP.NonnegativeGMRF, mean=m3, prec=1.5 + k, name="x"), "original")
            self.vals = {"x": pos(refs.dyadic_vec(3, k))}
            self.valsB = {"x": pos(refs.dyadic_vec(3, k + 4))}
        elif name in WRAP:
            cl, variant = WRAP[name]
            nm = "l" if cl == "lognormal" else "x"
            self.add(self.wrapper(cl, variant, k, nm), "original")
            if variant == "unk":
                # dimension unknown until conditioned: sibling copies are conditioned on m of 4 entries (cond) and of 2 (condB)
                self.vals = {nm: pos(refs.dyadic_vec(4, k)), "m": refs.dyadic_vec(4, k + 1, scale=0.25)}
                self.valsB = {nm: pos(refs.dyadic_vec(4, k + 3)), "m": refs.dyadic_vec(4, k + 5, scale=0.25)}
                self.valsC = {"m": refs.dyadic_vec(2, k + 2, scale=0.25)}
                self.valsCx = {nm: pos(refs.dyadic_vec(2, k + 4))}
                self.use_condB = True
            else:
                self.vals = {nm: pos(refs.dyadic_vec(3, k)), "d": GR.H3[0][k]}
                self.valsB = {nm: pos(refs.dyadic_vec(3, k + 4)), "d": GR.H3[1][k]}
        elif name.startswith("wrapj:"):
            _A = cuqi.model.LinearModel(refs.full_matrix(2, 3, k))
            _y = self.mk(D.Gaussian, _slot=1, mean=_A, cov=0.25 + 0.125 * k, name="y")
            _x = self.wrapper(name.split(":")[1], "known", k, "x", _slot=2)
            self.add(D.JointDistribution(_y, _x), "original")
            for _o in (_y, _x, _A):
                self.add(_o, "tracked")
            self.vals = {"x": pos(refs.dyadic_vec(3, k + 1, scale=0.25)), "y": refs.dyadic_vec(2, k + 2, scale=0.5)}
            self.valsB = {"x": pos(refs.dyadic_vec(3, k + 4, scale=0.25)), "y": refs.dyadic_vec(2, k + 6, scale=0.5)}
        elif name == "model-linear":
            _A = refs.full_matrix(2, 3, k)
            self.add(cuqi.model.LinearModel(_A), "original")
            self.add(D.Gaussian(m3, 0.5, name="z"), "tracked")
            self.add(D.Gaussian(np.zeros(3), lambda d: 1.0 / d, name="w"), "tracked")
            self.vals = {"x": refs.dyadic_vec(3, k), "z": refs.dyadic_vec(3, k + 1), "w": refs.dyadic_vec(3, k + 2), "d": GR.H3[0][k]}
            self.valsB = {"x": refs.dyadic_vec(3, k + 5), "z": refs.dyadic_vec(3, k + 6), "w": refs.dyadic_vec(3, k + 7), "d": GR.H3[1][k]}
        elif name == "model-nonlinear":
            self.add(cuqi.model.Model(lambda x: GR._F4(x), range_geometry=3, domain_geometry=2, jacobian=lambda x: GR._J4(x)), "original")
            self.add(D.Gaussian(m2, 0.5, name="z"), "tracked")
            self.add(D.Gamma(2.0, 1.0, geometry=2, name="q"), "tracked")
            self.vals = {"x": refs.dyadic_vec(2, k, scale=0.125), "z": refs.dyadic_vec(2, k + 1, scale=0.125), "q": pos(refs.dyadic_vec(2, k + 2))}
            self.valsB = {"x": refs.dyadic_vec(2, k + 5, scale=0.125), "z": refs.dyadic_vec(2, k + 6, scale=0.125), "q": pos(refs.dyadic_vec(2, k + 7))}
        elif name in ("unknown-dim-normal", "unknown-dim-gamma"):
            # an original whose dimension is unknown until it is conditioned; it is conditioned with values of DIFFERENT
            # sizes (probe A: 4 entries, probe B: 1 entry) - copies must not inherit each other's inferred geometry
            if name == "unknown-dim-normal":
                self.add(self.mk(D.Normal, mean=lambda m: m, std=1.0, name="x"), "original")
                self.vals = {"x": refs.dyadic_vec(4, k, scale=0.25), "m": refs.dyadic_vec(4, k + 1, scale=0.25)}
                self.valsB = {"x": refs.dyadic_vec(4, k + 3, scale=0.25), "m": refs.dyadic_vec(4, k + 5, scale=0.25)}
                self.valsC = {"m": np.array([0.5 + 0.25 * k])}
            else:
                self.add(self.mk(D.Gamma, shape=lambda a: a, rate=lambda b: b, name="x"), "original")
                self.vals = {"x": pos(refs.dyadic_vec(4, k)), "a": pos(refs.dyadic_vec(4, k + 1)) + 1, "b": pos(refs.dyadic_vec(4, k + 2))}
                self.valsB = {"x": pos(refs.dyadic_vec(4, k + 3)), "a": pos(refs.dyadic_vec(4, k + 4)) + 1, "b": pos(refs.dyadic_vec(4, k + 5))}
                self.valsC = {"a": np.array([2.0 + 0.5 * k]), "b": np.array([1.5])}
            self.use_condB = True
        elif name in ("callable3-gauss", "callable2-gauss"):
            _v = [refs.dyadic_vec(2, k + 1 + _j, scale=0.25) for _j in range(3)]
            if name == "callable3-gauss":
                self.add(self.mk(D.Gaussian, mean=lambda a, b, c: a * _v[0] + 10.0 * b * _v[1] + 100.0 * c * _v[2], cov=C2,
                                 geometry=2, name="x"), "original")
            else:
                self.add(self.mk(D.Gaussian, mean=lambda a, b: a * _v[0] + 10.0 * b * _v[1],
                                 cov=lambda b, c: (0.5 + b * b + c) * C2, geometry=2, name="x"), "original")
            self.vals = {"x": refs.dyadic_vec(2, k, scale=0.5), "a": [1.0, 1.25, 2.5][k], "b": [-0.5, 2.0, 0.75][k], "c": [1.5, 0.25, 3.0][k]}
            self.valsB = {"x": refs.dyadic_vec(2, k + 4, scale=0.5), "a": [0.75, 2.0, 1.5][k], "b": [3.0, -1.5, 0.5][k], "c": [0.5, 1.75, 2.0][k]}
            # sibling copies of every live object are also conditioned on ANOTHER value of the shared variable b (condB)
            self.valsC = {"b": [2.5, 0.5, -1.25][k]}
            self.use_condB = True
        elif name.startswith("gmat:"):
            _, par, sto, sz, var = name.split(":")
            n = 3 if sz == "small" else int(cuqi.config.MIN_DIM_SPARSE) + 1
            _M = gm_matrix(par, sto, n, k)                       # the array object the user passes (Fortran: the view R.T)
            _m0 = refs.dyadic_vec(n, k + 2, scale=0.125)          # the user's mean vector
            self.extra_props = True
            self.user_arrays = True
            if var == "known":
                self.add(self.mk(D.Gaussian, mean=_m0, name="x", **{par: _M}), "original")
                _tr = [_M, _m0]
            elif var == "cond":
                self.add(self.mk(D.Gaussian, mean=lambda m: m, geometry=n, name="x", **{par: _M}), "original")
                _tr = [_M]
            elif var == "joint":
                _A = cuqi.model.LinearModel(refs.full_matrix(2, n, k))
                _y = self.mk(D.Gaussian, _slot=1, mean=_A, cov=0.25 + 0.125 * k, name="y")
                _x = self.mk(D.Gaussian, _slot=2, mean=_m0, name="x", **{par: _M})
                self.add(D.JointDistribution(_y, _x), "original")
                _tr = [_y, _x, _A, _M, _m0]
            else:
                raise ValueError(name)
            for _o in _tr:
                self.add(_o, "tracked")
            self.vals = {"x": refs.dyadic_vec(n, k + 1, scale=0.25), "m": refs.dyadic_vec(n, k + 3, scale=0.25),
                         "y": refs.dyadic_vec(2, k + 2, scale=0.5)}
            self.valsB = {"x": refs.dyadic_vec(n, k + 4, scale=0.25), "m": refs.dyadic_vec(n, k + 5, scale=0.25),
                          "y": refs.dyadic_vec(2, k + 6, scale=0.5)}
            _keep = {"known": ("x",), "cond": ("x", "m"), "joint": ("x", "y")}[var]
            self.vals = {_n: self.vals[_n] for _n in _keep}
            self.valsB = {_n: self.valsB[_n] for _n in _keep}
        elif name.startswith("lin:"):
            _, df, gm, fc = name.split(":")
            _A, _x, _y = lin_world(df, gm, k, self.mk, {"joint": (2, 1), "y": (1, 0), "model": (2, 1)}[fc])
            if fc == "joint":
                self.add(D.JointDistribution(_y, _x), "original")
                for _o in (_y, _x, _A):
                    self.add(_o, "tracked")
            elif fc == "y":
                self.add(_y, "original")
                for _o in (_x, _A):
                    self.add(_o, "tracked")
            elif fc == "model":
                self.add(_A, "original")
                for _o in (_y, _x):
                    self.add(_o, "tracked")
            else:
                raise ValueError(name)
            self.vals = {"x": refs.dyadic_vec(3, k + 1, scale=0.25), "y": refs.dyadic_vec(2, k + 2, scale=0.5)}
            self.valsB = {"x": refs.dyadic_vec(3, k + 4, scale=0.25), "y": refs.dyadic_vec(2, k + 6, scale=0.5)}
        else:
            raise ValueError(name)


def _wrapper(self, cl, variant, k, nm, _slot=None):
    """one object of the wrapper family (see WRAP): class ``cl`` in variant known | cond | unk, random variable ``nm``"""
    import cuqi
    IP = cuqi.implicitprior
    D = cuqi.distribution
    m3 = refs.dyadic_vec(3, k + 2, scale=0.125)
    if cl == "reguniform":
        return self.mk(IP.RegularizedUnboundedUniform, _slot=_slot, geometry=cuqi.geometry.Continuous1D(3), regularization="l1", strength=2.0, name=nm)
    if cl == "jointsqrtprec":
        return self.mk(D.JointGaussianSqrtPrec, _slot=_slot, means=[m3.copy(), refs.dyadic_vec(3, k + 4, scale=0.125)],
                       sqrtprecs=[refs.spd_matrix(3, k), (1.5 + 0.5 * k) * np.eye(3)], name=nm)
    gmrf = cl.endswith("gmrf")
    kw = {"name": nm}
    kw["mean"] = (lambda m: m) if variant == "unk" else m3
    second = "prec" if gmrf else "cov"
    if variant == "cond":
        kw[second] = (lambda d: d) if gmrf else (lambda d: 1.0 / d)
        if not gmrf:
            kw["geometry"] = 3
    else:
        kw[second] = (1.5 + k) if gmrf else (0.5 + 0.25 * k)
    if cl == "lognormal":
        return self.mk(D.Lognormal, _slot=_slot, **kw)
    if cl in ("reggauss", "reggmrf"):
        kw.update(regularization="l1", strength=2.0)
    elif cl in ("constrgauss", "constrgmrf"):
        kw.update(constraint="box", lower_bound=0.0, upper_bound=2.0)
    ctor = {"reggauss": IP.RegularizedGaussian, "constrgauss": IP.ConstrainedGaussian, "nonneggauss": IP.NonnegativeGaussian,
            "reggmrf": IP.RegularizedGMRF, "constrgmrf": IP.ConstrainedGMRF, "nonneggmrf": IP.NonnegativeGMRF}[cl]
    return self.mk(ctor, _slot=_slot, **kw)


World.wrapper = _wrapper


def gm_matrix(par, sto, n, k):
    """The matrix a user passes as ``par`` of an n-dimensional Gaussian.  sym = a well-conditioned SPD matrix S (eigenvalues
    apart); full = S H with H a Householder reflection: square, non-singular, neither symmetric nor triangular (legal as a square
    root only).  C = an owning C-contiguous array; F = the transposed VIEW of a C-contiguous array holding the transpose (what a
    user writes as R.T): same numbers, Fortran-ordered memory, float64."""
    S = refs.spd_matrix(n, k)
    S = 0.5 * (S + S.T)
    if sto.startswith("full"):
        if par not in ("sqrtcov", "sqrtprec"):
            raise ValueError("a non-symmetric %s is not a legal parameter" % par)
        v = refs.dyadic_vec(n, k + 1)
        S = S @ (np.eye(n) - 2.0 * np.outer(v, v) / float(v @ v))
    if sto.endswith("C"):
        return np.ascontiguousarray(S, dtype=float)
    _base = np.ascontiguousarray(S.T, dtype=float)
    return _base.T


def lin_world(df, gm, k, mk, slots):
    """LinearModel _A (3 parameters -> 2 data) defined by a matrix or by forward/adjoint callables, with default geometries or a
    non-identity geometry on one side (the operator then acts on FUNCTION values); x ~ N(m0, c0 I) on the domain geometry;
    y | x ~ N(A x, c I).  ``mk`` = World.mk, ``slots`` = indices (of x, of y) the objects will be stored at."""
    import cuqi
    G = cuqi.geometry
    dg, rg, nf = None, None, 3
    if gm == "mapdom":
        dg = G.MappedGeometry(G.Continuous1D(3), map=lambda p: 2.0 * p, imap=lambda f: 0.5 * f)
    elif gm == "maprange":
        rg = G.MappedGeometry(G.Continuous1D(2), map=lambda p: 4.0 * p, imap=lambda f: 0.25 * f)
    elif gm == "step":
        dg, nf = G.StepExpansion(np.linspace(0.0, 1.0, 6), n_steps=3), 6
    elif gm == "kl":
        dg, nf = G.KLExpansion(np.linspace(0.0, 1.0, 6), num_modes=3), 6
    elif gm != "id":
        raise ValueError(gm)
    _M = refs.full_matrix(2, nf, k)
    if df == "mat":
        _A = cuqi.model.LinearModel(_M, range_geometry=rg, domain_geometry=dg)
    elif df == "fun":
        _A = cuqi.model.LinearModel(lambda x: _M @ x, lambda y: _M.T @ y, range_geometry=rg if rg is not None else 2,
                                    domain_geometry=dg if dg is not None else nf)
    else:
        raise ValueError(df)
    _x = mk(cuqi.distribution.Gaussian, _slot=slots[0], mean=refs.dyadic_vec(3, k + 3, scale=0.125), cov=0.5 + 0.25 * k,
            geometry=_A.domain_geometry, name="x")
    _y = mk(cuqi.distribution.Gaussian, _slot=slots[1], mean=_A, cov=0.25 + 0.125 * k, name="y")
    return _A, _x, _y



# ----------------------------------------------------------------------------------------
# naming worlds: the same small models built with explicit name= or with names inferred from the variables
# ----------------------------------------------------------------------------------------
# CUQIpy infers a missing name lazily, at the first look-up, by walking the call stack from the outermost frame inwards
# for a local variable that IS the object (names starting with self/cls/obj/var/_ are ignored).  A naming frame below
# creates the originals as local variables whose names are the intended random-variable names and then runs the whole
# history INSIDE that frame (continuation ``_body``), so that during every look-up exactly one admissible variable
# refers to each un-named original; everything deeper holds library objects only in obj*/_* names or containers.
def _kw(how):
    return (lambda n: {"name": n}) if how == "explicit" else (lambda n: {})


def _frame_N1(k, how, _body):
    """chain:  x ~ Gaussian,  y | x ~ Gaussian(x, C)"""
    import cuqi
    D = cuqi.distribution
    kw = _kw(how)
    C2 = refs.spd_matrix(2, k)
    x = D.Gaussian(refs.dyadic_vec(2, k + 1, scale=0.125), 1.0 + 0.5 * k, **kw("x"))
    y = D.Gaussian(lambda x: x, C2, **kw("y"))
    _l = {"x": x, "y": y}
    if how == "explicit":
        del x, y            # explicit route: no variable may supply a name that name= lost
    return _body(_l)


def _frame_N2(k, how, _body):
    """two hyper-parameters:  s, t ~ Gamma,  z | s, t ~ Gaussian(0, (s + t) I)"""
    import cuqi
    D = cuqi.distribution
    kw = _kw(how)
    s = D.Gamma(1.0 + 0.5 * k, 1.0, **kw("s"))
    z = D.Gaussian(np.zeros(2), lambda s, t: (s + t) * np.ones(2), **kw("z"))
    t = D.Gamma(2.0, 1.0 + 0.25 * k, **kw("t"))
    _l = {"z": z, "s": s, "t": t}
    if how == "explicit":
        del s, z, t
    return _body(_l)


def _frame_N3(k, how, _body):
    """linear inverse problem:  x ~ Gaussian,  d ~ Gamma,  y | x, d ~ Gaussian(A x, 1/d)   (A@x reads the name of x)"""
    import cuqi
    D = cuqi.distribution
    kw = _kw(how)
    _A = cuqi.model.LinearModel(refs.full_matrix(2, 3, k))
    x = D.Gaussian(refs.dyadic_vec(3, k + 2, scale=0.125), 0.5, **kw("x"))
    d = D.Gamma(2.0, 1.0 + 0.5 * k, **kw("d"))
    y = D.Gaussian(_A @ x, lambda d: 1.0 / d, **kw("y"))
    _l = {"y": y, "x": x, "d": d}
    if how == "explicit":
        del x, d, y
    return _body(_l)


NAMING_FRAMES = {"N1": _frame_N1, "N2": _frame_N2, "N3": _frame_N3}
NAMING_ORDER = ["N1", "N2", "N3"]
# parameters of each focus original (conditioning variables + own name) - fixes the size of the root alphabet
NAMING_FOCUS = {"N1": {"y": 2, "x": 1}, "N2": {"z": 3, "s": 1}, "N3": {"y": 3, "d": 1}}
# (quick, thorough): list of (depth, routes); routes "light" = names inferred x first read before step 0..L and explicit
# names x first read at the end, name-related observations (LIGHT); "all" = both ways x every first-read point, complete
# fingerprints
NAMING_DEPTH = {"N1": ([(3, "light")], [(3, "all"), (4, "light")]),
                "N2": ([(3, "light")], [(3, "all")]),
                "N3": ([(2, "light")], [(3, "all")])}


def naming_first_ops(wid, focus):
    """size of the root alphabet of a focus original: to_likelihood, call0, join + all non-empty parameter subsets"""
    return 3 + (2 ** NAMING_FOCUS[wid][focus] - 1)


def naming_values(wid, k):
    pos = lambda v: np.abs(v) + 0.25  # noqa
    if wid == "N1":
        return ({"x": refs.dyadic_vec(2, k), "y": refs.dyadic_vec(2, k + 3)},
                {"x": refs.dyadic_vec(2, k + 5), "y": refs.dyadic_vec(2, k + 6)})
    if wid == "N2":
        return ({"z": refs.dyadic_vec(2, k + 3), "s": GR.H3[0][k], "t": GR.H3[1][k]},
                {"z": refs.dyadic_vec(2, k + 6), "s": GR.H3[1][k], "t": GR.H3[2][k]})
    if wid == "N3":
        return ({"y": refs.dyadic_vec(2, k + 3), "x": refs.dyadic_vec(3, k), "d": GR.H3[0][k]},
                {"y": refs.dyadic_vec(2, k + 6), "x": refs.dyadic_vec(3, k + 4), "d": GR.H3[1][k]})
    raise ValueError(wid)


def naming_ops_for(w, i):
    """Alphabet of a naming cell for target i (the focus original or a pool member), read off the BASELINE world:
    condition on every non-empty subset of its parameters, condition on nothing, to_likelihood, and ``join`` = build a
    JointDistribution from the (possibly pre-conditioned) object and the other originals."""
    import cuqi
    obj = w.objs[i]
    kd = kind_of(obj)
    names = guard(lambda: list(obj.get_parameter_names()))
    if isinstance(names, tuple) or kd in ("model", "other"):
        return []
    ops = []
    injoint = naming_join_root(w, i) is not None
    if kd == "dist" and not injoint and not isinstance(obj, cuqi.distribution.JointDistribution):
        nm = guard(lambda: obj.name)
        if isinstance(nm, str) and nm in w.vals:
            ops.append(("to_likelihood", i, nm))
    ops.append(("call0", i, None))
    if kd in ("dist", "lik", "eval") and not injoint:
        ops.append(("join", i, tuple(range(1, w.ntracked))))
    for S in cond_subsets([n for n in names if n in w.vals]):
        ops.append(("cond", i, S))
    return ops


def naming_join_root(w, j):
    """index of the pool member created by ``join`` that j descends from (j itself included), or None"""
    while j is not None and j >= w.ntracked:
        if w.how.get(j) == "join":
            return j
        j = w.src[j]
    return None


def naming_reference(w, j, kinds):
    """What the history alone says about object j:  (expected name or None, expected parameter names or None,
    expected set of density names of a joint or None).  ``kinds`` = kind_of every object of the run under test."""
    if j < w.ntracked:
        return w.orig_names[j], None, None
    jr = naming_join_root(w, j)
    if jr is None:
        # conditioned copy / likelihood / evaluated density of a plain density: the name of its source
        if w.how.get(j) in ("cond", "call0", "to_likelihood") and kinds[j] in ("dist", "lik", "eval"):
            return naming_reference(w, w.src[j], kinds)[0], None, None
        return None, None, None
    # descends from JointDistribution(target, *other originals): members keep their names whatever is conditioned
    tgt = w.src[jr]
    members = [(naming_reference(w, tgt, kinds)[0], kinds[tgt])] + [(w.orig_names[m], kinds[m]) for m in range(1, w.ntracked)]
    if any(n is None for n, _ in members):
        return None, None, None
    fixed = set()
    jj = j
    while jj != jr:
        if w.how.get(jj) == "cond":
            fixed.update(w.arg[jj])
        jj = w.src[jj]
    pars = tuple(n for n, kd in members if kd == "dist" and n not in fixed)
    name = pars[0] if (kinds[j] == "dist" and len(pars) == 1) else None
    return name, pars, (frozenset(n for n, _ in members) if kinds[j] == "joint" else None)


def naming_run(cell, _l, history, t0):
    """Execute ``history`` on the originals ``_l`` of a naming frame; nothing is observed before step t0; all live
    objects are fingerprinted immediately before step t0 (if t0 < len(history)) and at the end."""
    w = World(cell, _given=_l)
    light = cell.get("routes") != "all"
    outs, mid, lazy = [], None, None
    for t, op in enumerate(history):
        if t == t0:
            mid = [fingerprint(_o, w, light) for _o in w.objs]
        if t == 0:
            lazy = getattr(w.objs[0], "_name", "?") is None      # coverage counter only, never a verdict
        outcome, _new = do_op(w, op)
        outs.append(outcome)
        if _new is not None:
            w.add(_new, "pool", op[1], op[0], op[2])
    end = [fingerprint(_o, w, light) for _o in w.objs]
    return outs, mid, end, [kind_of(_o) for _o in w.objs], [type(_o).__name__ for _o in w.objs], lazy


# ----------------------------------------------------------------------------------------
# fingerprints
# ----------------------------------------------------------------------------------------
def kind_of(obj):
    import cuqi
    if isinstance(obj, cuqi.model.Model):
        return "model"
    if isinstance(obj, cuqi.distribution.JointDistribution):
        return "joint"
    if isinstance(obj, cuqi.likelihood.Likelihood):
        return "lik"
    if isinstance(obj, cuqi.density.EvaluatedDensity):
        return "eval"
    if isinstance(obj, cuqi.distribution.Distribution):
        return "dist"
    return "other"


def guard(fn):
    try:
        return fn()
    except Exception as e:  # noqa
        return ("exc", type(e).__name__)


def num(v):
    """numeric entry -> float ndarray (compared with tolerance); anything else -> description string."""
    if isinstance(v, tuple) and len(v) == 2 and v[0] == "exc":
        return v
    try:
        if hasattr(v, "todense"):
            v = v.todense()
        a = np.array(v, dtype=float)
        return a
    except Exception:  # noqa
        return "<%s>" % type(v).__name__


def describe_attr(v):
    import cuqi
    if v is None:
        return "None"
    if isinstance(v, cuqi.model.Model):
        return "Model%s" % (tuple(cuqi.utilities.get_non_default_args(v)),)
    if callable(v) and not hasattr(v, "shape"):
        try:
            return "callable%s" % (tuple(cuqi.utilities.get_non_default_args(v)),)
        except Exception:  # noqa
            return "callable"
    return num(v)


def same(a, b):
    if isinstance(a, np.ndarray) and isinstance(b, np.ndarray):
        return a.shape == b.shape and close(a, b, RT)
    if isinstance(a, np.ndarray) or isinstance(b, np.ndarray):
        return False
    return a == b


def args_for(names, vals):
    if any(n not in vals for n in names):
        return None
    return {n: GR.copy_val(vals[n]) for n in names}


LIGHT = ("class", "name", "parameter_names", "conditioning_variables", "logdA", "densities_by_name")


def fingerprint(obj, w, light=False):
    """Ordered list of (entry name, value).  Only public, behavioural observations.
    ``light``: only the entries that involve random-variable names (LIGHT)."""
    import cuqi
    if isinstance(obj, np.ndarray):
        # an array object of the USER that was handed to a constructor: its bytes (logical order), layout and writability
        import hashlib
        return [("class", "ndarray"), ("shape", tuple(obj.shape)), ("dtype", str(obj.dtype)),
                ("layout", (bool(obj.flags["C_CONTIGUOUS"]), bool(obj.flags["F_CONTIGUOUS"]), bool(obj.flags["WRITEABLE"]))),
                ("bytes", hashlib.sha1(obj.tobytes()).hexdigest()), ("values", np.array(obj, dtype=float).ravel()[:6])]
    kd = kind_of(obj)
    fp = [("class", type(obj).__name__)]
    if light and kd != "model":
        fp.append(("name", guard(lambda: obj.name)))
        names = guard(lambda: tuple(obj.get_parameter_names()))
        fp.append(("parameter_names", names))
        if hasattr(obj, "get_conditioning_variables"):
            fp.append(("conditioning_variables", guard(lambda: tuple(obj.get_conditioning_variables()))))
        a = args_for(names, w.vals) if (isinstance(names, tuple) and not (len(names) == 2 and names[0] == "exc")) else None
        fp.append(("logdA", "n/a" if a is None else num(guard(lambda: obj.logd(**a)))))
        if kd == "joint" and hasattr(obj, "get_density"):
            fp.append(("densities_by_name", tuple((n, guard(lambda: type(obj.get_density(n)).__name__)) for n in sorted(w.vals))))
        return fp
    if kd == "model":
        an = guard(lambda: tuple(cuqi.utilities.get_non_default_args(obj)))
        fp.append(("argument_names", an))
        fp.append(("dims", guard(lambda: (obj.domain_dim, obj.range_dim))))
        probe = GR.copy_val(w.vals["x"])
        fp.append(("forward", num(guard(lambda: obj(GR.copy_val(probe))))))
        if isinstance(an, tuple) and an and an[0] != "exc":
            fp.append(("forward_keyword", num(guard(lambda: obj(**{an[0]: GR.copy_val(probe)})))))
        fp.append(("forward_B", num(guard(lambda: obj.forward(GR.copy_val(w.valsB["x"]))))))
        rd = guard(lambda: obj.range_dim)
        if isinstance(rd, (int, np.integer)):
            fp.append(("gradient", num(guard(lambda: obj.gradient(np.arange(1.0, rd + 1.0), GR.copy_val(probe))))))
            if hasattr(obj, "adjoint"):
                fp.append(("adjoint", num(guard(lambda: obj.adjoint(np.arange(1.0, rd + 1.0))))))
        return fp
    fp.append(("name", guard(lambda: obj.name)))
    names = guard(lambda: tuple(obj.get_parameter_names()))
    fp.append(("parameter_names", names))
    if hasattr(obj, "get_conditioning_variables"):
        fp.append(("conditioning_variables", guard(lambda: tuple(obj.get_conditioning_variables()))))
    fp.append(("dim", guard(lambda: obj.dim if not isinstance(obj.dim, list) else tuple(obj.dim))))
    # the finite-difference switch (public properties) of the object and of the likelihood / prior it carries
    for _pt in fd_parts(obj):
        fp.append(("FD" if _pt == "self" else "FD." + _pt, fd_state(fd_part(obj, _pt))))
    if kd in ("dist", "lik"):
        fp.append(("geometry", guard(lambda: (type(obj.geometry).__name__, obj.geometry.par_shape))))
    if kd == "dist" and hasattr(obj, "get_mutable_variables"):
        mv = guard(lambda: tuple(obj.get_mutable_variables()))
        fp.append(("mutable_variables", mv))
        if not (len(mv) == 2 and mv[0] == "exc"):
            for v in mv:
                if v in ("likelihood", "prior"):
                    continue
                fp.append(("attr:" + v, guard(lambda: describe_attr(getattr(obj, v)))))
    if kd == "lik":
        fp.append(("data", num(guard(lambda: obj.data))))
    if getattr(w, "extra_props", False) and kd in ("dist", "lik"):
        # wrapper worlds: what the library's samplers read off a prior / posterior (the log-density of an implicit prior is
        # not a number, so its parameters are only seen through these) - the stacked square-root precision, its product with
        # the mean, and the parameters of the distribution a Posterior / Likelihood carries
        for v in ("sqrtprec", "sqrtprecTimesMean"):
            if hasattr(type(obj), v):
                fp.append((v, guard(lambda: describe_attr(getattr(obj, v)))))
        for pre, _inner in (("prior", guard(lambda: obj.prior) if hasattr(obj, "prior") else None),
                            ("distribution", guard(lambda: obj.distribution) if kd == "lik" else None)):
            if kind_of(_inner) != "dist":
                continue
            imv = guard(lambda: tuple(_inner.get_mutable_variables()))
            for v in (() if (len(imv) == 2 and imv[0] == "exc") else imv):
                if v not in ("likelihood", "prior"):
                    fp.append(("%s.attr:%s" % (pre, v), guard(lambda: describe_attr(getattr(_inner, v)))))
            fp.append((pre + ".dim", guard(lambda: _inner.dim)))
            for v in ("sqrtprec", "sqrtprecTimesMean"):
                if hasattr(type(_inner), v):
                    fp.append(("%s.%s" % (pre, v), guard(lambda: describe_attr(getattr(_inner, v)))))
    ok_names = isinstance(names, tuple) and not (len(names) == 2 and names[0] == "exc")
    for tag, vals in (("A", w.vals), ("B", w.valsB)):
        a = args_for(names, vals) if ok_names else None
        if a is None:
            fp.append(("logd" + tag, "n/a"))
        else:
            fp.append(("logd" + tag, num(guard(lambda: obj.logd(**a)))))
    if getattr(w, "valsCx", None) is not None:
        # unknown-dimension worlds: a probe of the size of the sibling conditioning value
        a = args_for(names, w.valsCx) if (ok_names and len(names) == 1) else None
        fp.append(("logdC", "n/a" if a is None else num(guard(lambda: obj.logd(**a)))))
    # gradient w.r.t. the single free parameter
    if ok_names and len(names) == 1 and names[0] in w.vals and hasattr(obj, "gradient"):
        fp.append(("gradient", num(guard(lambda: obj.gradient(GR.copy_val(w.vals[names[0]]))))))
    else:
        fp.append(("gradient", "n/a"))
    # seeded draw
    if kd == "dist" and ok_names and len(names) == 1:
        fp.append(("sample", num(guard(lambda: obj.sample(rng=np.random.RandomState(5))))))
    else:
        fp.append(("sample", "n/a"))
    # conditioning probe: fix everything but the first parameter, evaluate at the first
    if kd in ("joint", "lik") and ok_names and len(names) >= 2 and all(n in w.vals for n in names):
        def probe():
            _c = obj(**{n: GR.copy_val(w.vals[n]) for n in names[1:]})
            _g = guard(lambda: _c.gradient(GR.copy_val(w.vals[names[0]])))
            return (type(_c).__name__, tuple(_c.get_parameter_names()), float(np.asarray(_c.logd(GR.copy_val(w.vals[names[0]]))).ravel()[0]), _g)
        r = guard(probe)
        if len(r) == 4:
            fp.append(("cond_probe_class", r[0] + str(r[1])))
            fp.append(("cond_probe_logd", num(r[2])))
            fp.append(("cond_probe_gradient", num(r[3])))
        else:
            fp.append(("cond_probe_class", r))
    # which random variables a joint holds a density for (free or fixed), by public look-up
    if kd == "joint" and hasattr(obj, "get_density"):
        fp.append(("densities_by_name", tuple((n, guard(lambda: type(obj.get_density(n)).__name__)) for n in sorted(w.vals))))
    return fp


def fd_part(obj, part):
    """the object whose FD switch is meant: the object itself, or the likelihood / first likelihood / prior it carries"""
    if part == "self":
        return obj
    if part == "likelihood0":
        return obj.likelihoods[0]
    return getattr(obj, part)


def fd_parts(obj):
    """which FD switches an object offers through its public interface"""
    out = []
    import cuqi
    if isinstance(obj, cuqi.density.EvaluatedDensity):
        return out       # a constant: its gradient always refuses, the switch has no behaviour; conditioning it returns the object itself
    if hasattr(obj, "enable_FD") and hasattr(obj, "disable_FD") and hasattr(obj, "FD_enabled"):
        out.append("self")
    if isinstance(obj, cuqi.distribution.Posterior):
        cand = ("likelihood", "prior")
    elif isinstance(obj, cuqi.distribution.MultipleLikelihoodPosterior):
        cand = ("likelihood0", "prior")
    else:
        cand = ()
    for p in cand:
        _s = guard(lambda: fd_part(obj, p))
        if hasattr(_s, "enable_FD") and hasattr(_s, "disable_FD") and hasattr(_s, "FD_enabled"):
            out.append(p)
    return out


def fd_state(tgt):
    return guard(lambda: (bool(tgt.FD_enabled), None if tgt.FD_epsilon is None else float(tgt.FD_epsilon)))


def fp_diff(a, b):
    """first differing entry name, or None"""
    for (na, va), (nb, vb) in zip(a, b):
        if na != nb:
            return "entries"
        if not same(va, vb):
            return na
    if len(a) != len(b):
        return "entries"
    return None


# ----------------------------------------------------------------------------------------
# operations
# ----------------------------------------------------------------------------------------
def cond_subsets(names):
    names = list(names)
    if len(names) <= 3:
        out = []
        for r in range(1, len(names) + 1):
            out += list(itertools.combinations(names, r))
        return out
    return [(n,) for n in names] + [tuple(names)]


GIBBS_VARS = {"x", "d", "s"}


def assignable(obj):
    """parameters of a distribution the class offers a setter for (its public mutable variables) that currently hold a number /
    vector / matrix: these can be assigned another value of the same shape"""
    mv = guard(lambda: list(obj.get_mutable_variables())) if hasattr(obj, "get_mutable_variables") else []
    out = []
    for v in (mv if isinstance(mv, list) else []):
        if v.startswith("_") or v in ("likelihood", "prior"):
            continue
        val = guard(lambda: getattr(obj, v))
        if val is None or (isinstance(val, tuple) and len(val) == 2 and val[0] == "exc") or (callable(val) and not hasattr(val, "shape")):
            continue
        n = num(val)
        if isinstance(n, np.ndarray) and n.size > 0 and np.all(np.isfinite(n)):
            out.append(v)
    return out


def assign_value(old):
    """the other value: twice the current one (stays positive / positive definite, exact in binary); a parameter that is zero
    everywhere (a zero mean) is shifted by 1/2 instead"""
    import scipy.sparse as sps
    if sps.issparse(old):
        return old * 2.0
    if np.any(np.asarray(old, dtype=float) != 0):
        return old * 2.0
    return old + 0.5


def tracked_assign_ops(w):
    """joint worlds: the factors the joint was built from are assigned to as well (the joint holds these very objects)"""
    out = []
    if w.cell.get("assign") and kind_of(w.objs[0]) == "joint":
        for j in range(1, w.ntracked):
            if kind_of(w.objs[j]) == "dist":
                for a in assignable(w.objs[j]):
                    if not any(r[0] == j and r[1] == a for r in w.inforce):
                        out.append(("assign", j, a))
    return out


FD_OPS = ("fd_on", "fd_eps", "fd_off")
# alphabet of a finite-difference world
FD_ALPHABET = ("reads", "to_likelihood", "call0", "cond", "condB", "apply") + FD_OPS
FD_EPS = (1e-3, 1e-2)        # the second spacing: the first one that differs from the spacing in force


def fd_ops_for(w, i):
    """History-dependent FD alphabet of object i: a switch that is off can be turned on (enable_FD(), default spacing); a switch
    that is on can be given ANOTHER spacing (enable_FD(epsilon=e2)) or be turned off (disable_FD); for the object itself and for
    the likelihood / prior a posterior carries."""
    out = []
    for part in fd_parts(w.objs[i]):
        st = fd_state(fd_part(w.objs[i], part))
        if len(st) != 2 or st[0] == "exc":
            continue
        if st[0]:
            out.append(("fd_eps", i, part))
            out.append(("fd_off", i, part))
        else:
            out.append(("fd_on", i, part))
    return out


def tracked_fd_ops(w):
    """joint worlds: the factors the joint was built from are switched as well (the joint holds these very objects)"""
    out = []
    if w.cell.get("alphabet") == "fd" and kind_of(w.objs[0]) == "joint":
        for j in range(1, w.ntracked):
            if kind_of(w.objs[j]) == "dist":
                out += fd_ops_for(w, j)
    return out


def ops_for(w, i):
    """Operation alphabet for target index i in world w: list of (opname, i, arg)."""
    import cuqi
    obj = w.objs[i]
    kd = kind_of(obj)
    ops = []
    if w.cell.get("alphabet") == "fd" and kd in ("dist", "lik", "joint"):
        ops += fd_ops_for(w, i)
    if kd == "model":
        ops.append(("reads", i, None))
        for j, _d in enumerate(w.objs):
            if kind_of(_d) == "dist" and w.role[j] != "pool":
                ops.append(("apply", i, j))
        ops.append(("refusals", i, None))
        if consumer_subops(w, i):
            ops.append(("consumers", i, None))
        return ops
    if kd == "other":
        return ops
    names = guard(lambda: list(obj.get_parameter_names()))
    if isinstance(names, tuple):
        return [("reads", i, None)]
    known = [n for n in names if n in w.vals]
    ops.append(("reads", i, None))
    if kd == "dist" and not isinstance(obj, cuqi.distribution.JointDistribution):
        nm = guard(lambda: obj.name)
        if isinstance(nm, str) and nm in w.vals:
            ops.append(("to_likelihood", i, None))
    ops.append(("call0", i, None))
    if w.role[i] == "pool" and getattr(w, "how", {}).get(i) in ("cond", "condB", "call0") and \
            (hasattr(obj, "enable_FD") or hasattr(obj, "likelihood")):
        ops.append(("enable_fd", i, None))       # a setting changed ON A DERIVED OBJECT must not reach its relatives
    for S in cond_subsets(known):
        ops.append(("cond", i, S))
    if getattr(w, "use_condB", False):
        for S in cond_subsets([n for n in names if n in w.valsC]):
            ops.append(("condB", i, S))          # the same conditioning with values of another size
    if isinstance(obj, (cuqi.distribution.Posterior, cuqi.distribution.MultipleLikelihoodPosterior)) and len(names) == 1 and len(known) == 1:
        ops.append(("mh_new", i, None))      # a sampler run on a conditioned copy (both interfaces)
        ops.append(("mh_old", i, None))
    if kd == "joint" and set(names) == GIBBS_VARS and w.graph is not None and w.graph.gid in ("G1", "G2", "G7"):
        ops.append(("gibbs_new", i, None))
        ops.append(("gibbs_old", i, None))
    if w.cell.get("assign") and kd == "dist":
        for a in assignable(obj):
            if not any(r[0] == i and r[1] == a for r in w.inforce):
                ops.append(("assign", i, a))      # a parameter of this object := another value
    if kd in ("dist", "lik", "joint") and names:
        ops.append(("refusals", i, None))     # operations the library is expected to refuse: they must not leave traces either
    if kd in ("dist", "lik") and consumer_subops(w, i):
        ops.append(("consumers", i, None))    # the object used the way the library's estimators / samplers use it
    return ops


# ----------------------------------------------------------------------------------------
# refused operations and consumers (both create nothing: the state after them is the state before them)
# ----------------------------------------------------------------------------------------
UNKNOWN_KW = "zz_unknown"


def refusal_subops(w, i):
    """Ordered list of (name, thunk): malformed uses of object i.  The library may refuse each (any exception) or accept it
    (the result is dropped); what it does must be what it does on a fresh world, and nothing live may change."""
    obj = w.objs[i]
    kd = kind_of(obj)
    v = w.vals
    out = []
    val = lambda n: GR.copy_val(v[n])  # noqa
    if kd == "model":
        dd = guard(lambda: int(obj.domain_dim))
        rd = guard(lambda: int(obj.range_dim))
        if isinstance(dd, int) and isinstance(rd, int):
            out.append(("bad_forward_size", lambda: obj(np.ones(dd + 2))))
            out.append(("bad_forward_keyword", lambda: obj(**{UNKNOWN_KW: val("x")})))
            out.append(("bad_gradient_size", lambda: obj.gradient(np.ones(rd + 2), val("x"))))
            if hasattr(obj, "adjoint"):
                out.append(("bad_adjoint_size", lambda: obj.adjoint(np.ones(rd + 2))))
        return out
    if kd not in ("dist", "lik", "joint"):
        return out
    pn = guard(lambda: list(obj.get_parameter_names()))
    if not isinstance(pn, list) or not pn:
        return out
    known = all(n in v for n in pn)
    out.append(("bad_keyword", lambda: obj(**{UNKNOWN_KW: 1.0})))                       # y(sigma=2)
    if len(pn) >= 2 and pn[0] in v:
        out.append(("bad_keyword_mixed", lambda: obj(**{pn[0]: val(pn[0]), UNKNOWN_KW: 2.0})))
    if known:
        out.append(("bad_surplus_positional", lambda: obj(*([val(n) for n in pn] + [1.0]))))
    if pn[0] in v:
        out.append(("bad_twice", lambda: obj(val(pn[0]), **{pn[0]: val(pn[0])})))        # positional and keyword
        out.append(("bad_size", lambda: obj(**{pn[0]: np.ones(np.size(v[pn[0]]) + 2)})))
    if known:
        out.append(("bad_logd_missing", lambda: obj.logd(*[val(n) for n in pn[:-1]])))
        out.append(("bad_logd_missing_keyword", lambda: obj.logd(**{n: val(n) for n in pn[1:]})))
    if hasattr(obj, "gradient"):
        out.append(("bad_gradient_missing", lambda: obj.gradient()))
    if kd == "dist" and len(pn) >= 2 and hasattr(obj, "sample"):
        out.append(("bad_sample_conditional", lambda: obj.sample(rng=np.random.RandomState(7))))
    return out


def find_prior(w, pname):
    """an un-conditional original/tracked distribution of the world for the random variable ``pname``"""
    import cuqi
    for j in range(w.ntracked):
        _d = w.objs[j]
        if kind_of(_d) == "dist" and not isinstance(_d, cuqi.distribution.Posterior) and guard(lambda: _d.name) == pname \
                and guard(lambda: list(_d.get_parameter_names())) == [pname]:
            return _d
    return None


def _arr(r):
    """numeric digest of what a consumer returned"""
    if hasattr(r, "get_samples"):
        r = r.get_samples()
    if hasattr(r, "samples"):
        r = r.samples
    if hasattr(r, "todense"):
        r = r.todense()
    return np.array(r, dtype=float)


def consumer_subops(w, i):
    """Ordered list of (name, thunk): object i used the way the library's own estimators and samplers use it - through the
    forward model it carries (get_matrix) and through a BayesianProblem made of it (closed-form or numerical MAP, ML, automatic
    sampler selection with both interfaces, a few LinearRTO / pCN steps of both interfaces).  Only for objects that carry a
    forward model; the BayesianProblem is built the way a user would: (data distribution, prior).set_data / (likelihood, prior)."""
    import cuqi
    obj = w.objs[i]
    kd = kind_of(obj)
    v = w.vals
    if kd == "model":
        return [("get_matrix", lambda: _arr(obj.get_matrix()))] if hasattr(obj, "get_matrix") else []
    if kd not in ("dist", "lik"):
        return []
    pn = guard(lambda: list(obj.get_parameter_names()))
    if not isinstance(pn, list):
        return []
    BP = cuqi.problem.BayesianProblem
    mk = None
    if isinstance(obj, cuqi.distribution.Posterior):
        if len(pn) == 1 and pn[0] in v:
            mk = lambda: BP(obj.likelihood, obj.prior)  # noqa
    elif kd == "lik":
        _p = find_prior(w, pn[0]) if len(pn) == 1 else None
        if _p is not None:
            mk = lambda: BP(obj, _p)  # noqa
    elif not isinstance(obj, cuqi.distribution.MultipleLikelihoodPosterior) and len(pn) == 2:
        nm = guard(lambda: obj.name)
        _p = find_prior(w, pn[0]) if (nm == pn[1] and nm in v) else None
        if _p is not None:
            mk = lambda: BP(obj, _p).set_data(**{nm: GR.copy_val(v[nm])})  # noqa
    if mk is not None:
        get_model = lambda: mk().model  # noqa
    elif kd == "lik" or isinstance(obj, cuqi.distribution.Posterior):
        get_model = lambda: obj.model  # noqa
    else:
        return []
    _m = guard(get_model)
    if not isinstance(_m, cuqi.model.Model):
        return []
    out = []
    if hasattr(_m, "get_matrix"):
        out.append(("get_matrix", lambda: _arr(get_model().get_matrix())))
    if mk is None:
        return out
    M = cuqi.experimental.mcmc
    S = cuqi.sampler
    out.append(("bp_map", lambda: _arr(mk().MAP(disp=False))))
    out.append(("bp_sample_posterior", lambda: _arr(mk().sample_posterior(4))))
    out.append(("bp_sample_posterior_experimental", lambda: _arr(mk().sample_posterior(4, experimental=True))))
    out.append(("bp_ml", lambda: _arr(mk().ML(disp=False))))
    out.append(("linear_rto_old", lambda: _arr(S.LinearRTO(mk().posterior).sample(3))))
    out.append(("linear_rto_new", lambda: _arr(M.LinearRTO(mk().posterior).sample(3))))
    out.append(("pcn_old", lambda: _arr(S.pCN(mk().posterior, scale=0.1).sample(3))))
    out.append(("pcn_new", lambda: _arr(M.PCN(mk().posterior, scale=0.1).sample(3))))
    return out


BUNDLES = {"refusals": refusal_subops, "consumers": consumer_subops}
REFUSAL_NAMES = ("bad_forward_size", "bad_forward_keyword", "bad_gradient_size", "bad_adjoint_size", "bad_keyword", "bad_keyword_mixed",
                 "bad_surplus_positional", "bad_twice", "bad_size", "bad_logd_missing", "bad_logd_missing_keyword", "bad_gradient_missing",
                 "bad_sample_conditional")
CONSUMER_NAMES = ("get_matrix", "bp_map", "bp_sample_posterior", "bp_sample_posterior_experimental", "bp_ml", "linear_rto_old",
                  "linear_rto_new", "pcn_old", "pcn_new")
CLOSING = set(BUNDLES) | set(REFUSAL_NAMES) | set(CONSUMER_NAMES)
NONCREATING = CLOSING | {"reads", "gibbs_new", "gibbs_old", "mh_new", "mh_old"}


def run_subops(w, subs):
    """execute the sub-operations one after the other, each guarded on its own -> (outcomes, numeric results)"""
    outs, results = [], {}
    for nm, thunk in subs:
        with SavedRNG(6):
            try:
                _r = thunk()
                if isinstance(_r, np.ndarray):
                    results[nm] = _r
                    outs.append("%s=done" % nm)
                else:
                    outs.append("%s=accepted:%s" % (nm, type(_r).__name__))
                del _r
            except Exception as e:  # noqa  refused; allowed
                outs.append("%s=%s" % (nm, type(e).__name__))
    return outs, results


class SavedRNG:
    def __init__(self, seed):
        self.seed = seed

    def __enter__(self):
        self.st = np.random.get_state()
        np.random.seed(self.seed)

    def __exit__(self, *a):
        np.random.set_state(self.st)
        return False


def do_op(w, op):
    """Execute one operation.  Returns (outcome string, new object or None)."""
    import cuqi
    name, i, arg = op
    obj = w.objs[i]
    v = w.vals
    w.last_results = {}
    w.last_assign = None
    w.last_fd = None
    if name in CLOSING:
        if name in BUNDLES:
            subs = BUNDLES[name](w, i)
        else:
            subs = [x for x in (refusal_subops if name in REFUSAL_NAMES else consumer_subops)(w, i) if x[0] == name]
        outs, w.last_results = run_subops(w, subs)
        return "%s[%s]" % (name, " ".join(outs)), None
    try:
        if name == "reads":
            # every read-only operation of the alphabet, with arguments different from the fingerprint's:
            # get_parameter_names, get_conditioning_variables, logd (probe B, positional), gradient (probe B),
            # sample (3 draws, other seed) - each guarded on its own (a refusal must not stop the others)
            if kind_of(obj) == "model":
                guard(lambda: obj.forward(GR.copy_val(w.valsB["x"])))
                guard(lambda: obj.gradient(np.ones(obj.range_dim), GR.copy_val(w.valsB["x"])))
                return "reads", None
            pn = guard(lambda: list(obj.get_parameter_names()))
            if hasattr(obj, "get_conditioning_variables"):
                guard(lambda: obj.get_conditioning_variables())
            if isinstance(pn, list) and all(n in w.valsB for n in pn):
                guard(lambda: obj.logd(*[GR.copy_val(w.valsB[n]) for n in pn]))
                if len(pn) == 1 and hasattr(obj, "gradient"):
                    guard(lambda: obj.gradient(GR.copy_val(w.valsB[pn[0]])))
            if kind_of(obj) == "dist" and hasattr(obj, "sample"):
                guard(lambda: obj.sample(3, rng=np.random.RandomState(9)))
            return "reads", None
        if name == "to_likelihood":
            return "to_likelihood", obj.to_likelihood(GR.copy_val(v[arg if arg is not None else obj.name]))
        if name == "join":
            return "join", cuqi.distribution.JointDistribution(obj, *[w.objs[_j] for _j in arg])
        if name == "call0":
            return "call0", obj()
        if name == "assign":
            _old = getattr(obj, arg)
            _newv = assign_value(_old)
            w.last_assign = [i, arg, _old, _newv]
            setattr(obj, arg, _newv)
            return "assign:" + arg, None
        if name in FD_OPS:
            tgt = fd_part(obj, arg)
            st = fd_state(tgt)
            w.last_fd = None
            if name == "fd_on":
                tgt.enable_FD()
                exp = (True, 1e-8)
            elif name == "fd_eps":
                e2 = [e for e in FD_EPS if not (st[0] is True and st[1] == e)][0]
                tgt.enable_FD(epsilon=e2)
                exp = (True, e2)
            else:
                tgt.disable_FD()
                exp = (False, None)
            w.last_fd = [name, i, arg, st, exp]
            return name, None
        if name == "enable_fd":
            tgt = obj.likelihood if hasattr(obj, "likelihood") and hasattr(obj.likelihood, "enable_FD") else obj
            tgt.enable_FD(epsilon=1e-3)        # coarse step: the switch is visible in the gradient entry
            if hasattr(obj, "enable_FD"):
                obj.enable_FD(epsilon=1e-3)
            return "enable_fd", None
        if name == "cond":
            return "cond", obj(**{n: GR.copy_val(v[n]) for n in arg})
        if name == "condB":
            return "condB", obj(**{n: GR.copy_val(w.valsC[n]) for n in arg})
        if name == "apply":
            return "apply", obj(w.objs[arg])
        if name == "mh_new":
            with SavedRNG(4):
                _s = cuqi.experimental.mcmc.MH(obj, scale=0.1, initial_point=np.atleast_1d(GR.copy_val(v[obj.get_parameter_names()[0]])))
                _s.sample(3)
            return "mh_new", None
        if name == "mh_old":
            with SavedRNG(4):
                _s = cuqi.sampler.MH(obj, scale=0.1, x0=np.atleast_1d(GR.copy_val(v[obj.get_parameter_names()[0]])))
                _s.sample(3)
            return "mh_old", None
        if name == "gibbs_new":
            M = cuqi.experimental.mcmc
            with SavedRNG(3):
                _s = M.HybridGibbs(obj, {"x": M.LinearRTO(), "d": M.Conjugate(), "s": M.Conjugate()})
                _s.sample(2)
            return "gibbs_new", None
        if name == "gibbs_old":
            with SavedRNG(3):
                _s = cuqi.sampler.Gibbs(obj, {"x": cuqi.sampler.LinearRTO, ("d", "s"): cuqi.sampler.Conjugate})
                _s.sample(2)
            return "gibbs_old", None
    except Exception as e:  # noqa  the operation was refused; allowed - but it still must not alter anything
        return "refused:%s:%s" % (name, type(e).__name__), None
    raise ValueError(name)


def op_str(w, op):
    name, i, arg = op
    s = "%s@%d" % (name, i)
    if name in ("cond", "condB"):
        s += "{%s}" % ",".join(arg)
    elif name == "assign":
        s += ".%s" % arg
    elif name in FD_OPS:
        s += ".%s" % arg
    elif name == "apply":
        s += "(obj%d)" % arg
    elif name == "join":
        s += "(%s)" % ",".join("#%d" % _j for _j in arg)
    return s


# ----------------------------------------------------------------------------------------
class Explorer:
    def __init__(self, res, cell):
        self.res = res
        self.cell = cell
        self.depth = cell["depth"]
        self.w = None
        self.created = 0
        self.nfail = {}
        self.outs = []       # outcomes of the operations of the current history (baseline world)

    def _label(self):
        c = self.cell
        if c["kind"] == "joint":
            return "joint %s" % c["graph"]
        if c["kind"] == "factor":
            return "factor %s.%s" % (c["graph"], c["name"])
        if c["kind"] == "naming":
            return "naming %s.%s" % (c["world"], c["focus"])
        return "special %s" % c["name"]

    def label(self):
        return self._label() + (" [FD world]" if self.cell.get("alphabet") == "fd" else "")

    def fresh(self):
        w = World(self.cell)
        # (the user's own arrays first: their baseline is taken before any library object is read)
        arrays = [i for i, _o in enumerate(w.objs) if isinstance(_o, np.ndarray)]
        for i in arrays + [i for i in range(len(w.objs)) if i not in arrays]:
            _o = w.objs[i]
            f1 = fingerprint(_o, w)
            f2 = fingerprint(_o, w)
            w.fp[i] = f1
            d = fp_diff(f1, f2)
            if d is not None:
                if not getattr(self, "unstable", False):
                    self.report(w, [], i, d, "fingerprint", f1, f2, confirmed=True)
                self.unstable = True     # the read-only operations of the fingerprint alter the object: reported once
        for i in arrays:
            f3 = fingerprint(w.objs[i], w)
            d = fp_diff(w.fp[i], f3)
            if d is not None:
                if not getattr(self, "unstable_array", False):
                    self.report(w, [], i, d, "fingerprint", w.fp[i], f3, confirmed=True)
                self.unstable = self.unstable_array = True
        return w

    def report(self, w, history, j, entry, opname, before, after, confirmed, latent_log=None, new_object=False):
        cls = type(w.objs[j]).__name__
        if self.cell.get("name") in CALLABLE_WORLDS:
            cls += "[function-of-several-variables]"      # facet: parameters that are partially evaluated functions
        role = w.role[j]
        if history:
            tgt = history[-1][1]
            if j == tgt:
                role = "target"
            elif new_object:
                role = "new"
            elif role == "pool":
                role = "sibling" if w.src[j] != tgt and w.src[tgt] != j else "relative"
        # entries of the assignment oracles carry a prefix: fresh: (differs from a freshly built object with the value),
        # view: (a view differs from the view made now), restore: (assigning the old value back does not restore the object)
        pre = ""
        for _p in ("fresh:", "view:", "restore:"):
            if entry.startswith(_p):
                pre, entry = _p, entry[len(_p):]
        short = entry.split(":")[0] if ".attr:" in entry or entry.startswith("attr:") else entry
        sig = "C11|%s|%s:%s|%s" % (cls, opname, role, pre + short)
        if not confirmed:
            sig += "|latent"
        self.nfail[sig] = self.nfail.get(sig, 0) + 1
        if self.nfail[sig] > 25:
            self.res.count("failures_not_stored")
            return
        b = dict(before).get(entry)
        a = dict(after).get(entry)
        entry = pre + entry
        if entry.endswith("entries"):
            b, a = [n for n, _ in before], [n for n, _ in after]
        what = {"": "changed its '%s'", "fresh:": "is not what the same derivation from an original BUILT with the assigned value gives, entry '%s' (built -> assigned)",
                "view:": "is not the view made now, entry '%s' (made now -> live view)",
                "restore:": "is not what it was once the old value is assigned back, entry '%s' (before -> restored)"}[pre] % entry[len(pre):]
        self.res.fail(sig, "[%s cat=%d] after %s the %s object #%d (%s) %s: %s -> %s"
                      % (self.label(), self.cell["cat"], " ; ".join(op_str(w, o) for o in history) or "taking its fingerprint twice",
                         role, j, cls, what, _short(b), _short(a)),
                      focus={"history": [op_str(w, o) for o in history], "altered_object": j, "entry": entry},
                      before=b, after=a, latent_log=latent_log)

    def check_all(self, w, upto):
        """Re-take the fingerprints of objects [0, upto) and compare; returns list of (index, entry, old, new)."""
        bad = []
        for j in range(upto):
            f = fingerprint(w.objs[j], w)
            self.res.evaluations += 1
            d = fp_diff(w.fp[j], f)
            if d is not None:
                bad.append((j, d, w.fp[j], f, False))
        return bad

    def after_assign(self, w, extra_bad):
        """An attribute of object i was just assigned.  The object itself and its VIEWS (World.views_of) legitimately change and
        are re-baselined - every other live object is compared with its earlier fingerprint by the caller.  Oracles for the
        assigned object: the value reads back; it is what a freshly built object with that value is (same derivation from an
        original BUILT with the value); a Likelihood view of it is the view made now."""
        res = self.res
        i, attr, old, newv = w.last_assign
        L = [i] + w.views_of(i)
        first = not w.inforce
        w.inforce.append([i, attr, old, {j: w.fp[j] for j in L}])
        for j in L:
            w.fp[j] = fingerprint(w.objs[j], w)
        _t = w.objs[i]
        res.count("assign:%s.%s" % (type(_t).__name__, attr))
        res.outcomes.add("assign:%s.%s:%s" % (type(_t).__name__, attr, "original" if i == 0 else ("factor" if i < w.ntracked else w.how.get(i))))
        rb = guard(lambda: describe_attr(getattr(_t, attr)))
        res.evaluations += 1
        if not same(rb, num(newv)):
            extra_bad.append((i, "readback", [("readback", num(newv))], [("readback", rb)], False))
        if first:
            for j, f0 in self.assign_reference(w, i, attr, newv).items():
                res.evaluations += 1
                d = fp_diff(f0, w.fp[j])
                if d is not None:
                    extra_bad.append((j, "fresh:" + d, f0, w.fp[j], False))
        else:
            res.count("assign:no_reference:not_the_first_assignment")
        for j in L[1:]:
            if kind_of(w.objs[j]) == "lik":
                _n = w.arg.get(j)
                _v = guard(lambda: _t.to_likelihood(GR.copy_val(w.vals[_n if _n is not None else _t.name])))
                res.evaluations += 1
                if kind_of(_v) == "lik":
                    d = fp_diff(fingerprint(_v, w), w.fp[j])
                    if d is not None:
                        extra_bad.append((j, "view:" + d, fingerprint(_v, w), w.fp[j], False))
                del _v

    def fd_group(self, w, i):
        """object i and everything that by construction IS object i seen through another interface: a Likelihood made by
        to_likelihood forwards its FD switch to the distribution it holds, so the group is taken from that distribution"""
        r = i
        while r >= w.ntracked and w.how.get(r) == "to_likelihood" and kind_of(w.objs[r]) == "lik" and w.src[r] is not None:
            r = w.src[r]
        L = [r] + [j for j in w.views_of(r) if j != r]
        return L if i in L else L + [i]

    def after_fd(self, w, extra_bad):
        """An FD switch of object i (or of the likelihood / prior it carries) was just set.  The object and its VIEWS legitimately
        change and are re-baselined - every other live object is compared with its earlier fingerprint by the caller.  Oracle for
        the switched object: it reports the state that was asked for."""
        res = self.res
        name, i, part, before, exp = w.last_fd
        L = self.fd_group(w, i)
        # (L[0] = the object that holds the switch: object i, or the distribution a Likelihood view of it forwards to)
        w.fdforce.append([name, i, part, before, {j: w.fp[j] for j in L}, L[0] if L[0] != i else i])
        for j in L:
            w.fp[j] = fingerprint(w.objs[j], w)
        _t = w.objs[i]
        res.count("%s:%s.%s" % (name, type(_t).__name__, part))
        res.outcomes.add("%s:%s.%s:%s:was=%s" % (name, type(_t).__name__, part,
                                                 "original" if i == 0 else ("factor" if i < w.ntracked else w.how.get(i)), before))
        now = fd_state(fd_part(_t, part))
        res.evaluations += 1
        if now != exp:
            extra_bad.append((i, "FD-readback", [("FD-readback", exp)], [("FD-readback", now)], False))

    def undo_fd(self, w):
        """put the switch back the way it was (public interface); -> [(index, entry, fingerprint before, now)] for the objects
        that are not what they were before the switch was set"""
        name, i, part, before, saved, _root = w.fdforce.pop()
        out = []

        def back():
            _t = fd_part(w.objs[i], part)
            if before[0] is True:
                _t.enable_FD(epsilon=before[1])
            else:
                _t.disable_FD()
        r = guard(back)
        for j in sorted(saved):
            if j < len(w.objs):
                f2 = fingerprint(w.objs[j], w)
                self.res.evaluations += 1
                d = fp_diff(saved[j], f2)
                if d is not None or isinstance(r, tuple):
                    out.append((j, d or "raises", saved[j], f2))
                w.fp[j] = saved[j]
        return out

    def undo_assign(self, w):
        """assign the old value back; -> [(index, entry, fingerprint before the assignment, fingerprint now)] for the objects
        that are not what they were before the assignment"""
        i, attr, old, saved = w.inforce.pop()
        out = []
        r = guard(lambda: setattr(w.objs[i], attr, old))
        for j in sorted(saved):
            if j < len(w.objs):
                f2 = fingerprint(w.objs[j], w)
                self.res.evaluations += 1
                d = fp_diff(saved[j], f2)
                if d is not None or isinstance(r, tuple):
                    out.append((j, d or "raises", saved[j], f2))
                w.fp[j] = saved[j]
        return out

    def assign_reference(self, w, i, attr, newv):
        """{object index: fingerprint} of object i (and of the joint that holds it) in a world whose root original was BUILT
        with attr=newv and from which object i was derived by the same operations (a conditioning variable that the built-in
        value makes disappear is left out).  Only for the worlds built by World.mk; {} when no such reference exists."""
        chain, j = [], i
        while j >= w.ntracked:
            chain.append((w.how.get(j), w.arg.get(j)))
            j = w.src[j]
        chain.reverse()
        root = j
        key = (root, tuple((h, tuple(a) if isinstance(a, (tuple, list)) else a) for h, a in chain), attr)
        cache = self.__dict__.setdefault("_assign_ref", {})
        if key not in cache:
            cache[key] = self._assign_reference(w, i, root, chain, attr, newv)
        if not cache[key]:
            self.res.count("assign:no_reference:world_not_rebuildable")
        return {(i if j == "target" else j): f for j, f in cache[key].items()}

    def _assign_reference(self, w, i, root, chain, attr, newv):
        if self.cell["kind"] != "special":
            return {}
        w0 = guard(lambda: World(self.cell, override=(root, attr, newv)))
        if not isinstance(w0, World) or not w0.override_used:
            return {}
        cur = root
        for how, arg in chain:
            if how in ("cond", "condB"):
                pn = guard(lambda: list(w0.objs[cur].get_parameter_names()))
                if not isinstance(pn, list):
                    return {}
                a2 = tuple(n for n in arg if n in pn)
                op = (how, cur, a2) if a2 else ("call0", cur, None)
            elif how == "call0":
                op = ("call0", cur, None)
            else:
                return {}
            _o, _n = do_op(w0, op)
            if _n is None:
                return {}
            w0.add(_n, "pool", cur, op[0], op[2])
            cur = len(w0.objs) - 1
        ref = {"target": fingerprint(w0.objs[cur], w0)}
        if i < w.ntracked:
            for v in w.views_of(i):
                ref[v] = fingerprint(w0.objs[v], w0)
        return ref

    def step(self, w, op):
        """Apply op in world w; fingerprint; returns (outcome, alterations, name_problem)."""
        n0 = len(w.objs)
        pre_fd = tuple((r[0], r[5], r[2]) for r in w.fdforce if r[5] < w.ntracked)
        outcome, _new = do_op(w, op)
        self.res.transitions += 1
        self.res.count("op:" + op[0])
        extra_bad = []
        if op[0] == "assign" and outcome.startswith("assign:"):
            self.after_assign(w, extra_bad)
        if op[0] in FD_OPS and w.last_fd is not None:
            self.after_fd(w, extra_bad)
        if outcome.startswith("refused"):
            self.res.refused += 1
        if op[0] in CLOSING:
            # one transition per sub-operation; each one's outcome (done / accepted / exception type) is an observed outcome
            subs = outcome[outcome.index("[") + 1:-1].split()
            self.res.transitions += max(0, len(subs) - 1)
            for _s in subs:
                self.res.outcomes.add("%s:%s" % (kind_of(w.objs[op[1]]), _s))
                if not (_s.endswith("=done") or "=accepted:" in _s):
                    self.res.refused += 1
                    self.res.count("refused:" + _s.split("=")[0])
                else:
                    self.res.count("performed:" + _s.split("=")[0])
        else:
            self.res.outcomes.add(outcome)
        results = dict(getattr(w, "last_results", {}))
        if op[0] == "enable_fd":
            # the target's own behaviour legitimately changes: re-baseline it (and the likelihood VIEWS made of it with
            # to_likelihood, which by design wrap the very same distribution object); everything else must be unchanged
            w.fp[op[1]] = fingerprint(w.objs[op[1]], w)
            for _j in range(len(w.objs)):
                if w.src[_j] == op[1] and getattr(w, "how", {}).get(_j) == "to_likelihood":
                    w.fp[_j] = fingerprint(w.objs[_j], w)
        bad = self.check_all(w, n0) + extra_bad
        if op[0] == "assign" and w.inforce and self.cell.get("assign") != "full":
            # the assignment closes the history: the old value is assigned back (the object must then be what it was) and the
            # sibling histories continue on the same live world
            for (_j, _d, _f, _f2) in self.undo_assign(w):
                bad.append((_j, "restore:" + _d, _f, _f2, False))
        if op[0] == "enable_fd":
            _t = w.objs[op[1]]
            for _x in ([_t.likelihood] if hasattr(_t, "likelihood") and hasattr(_t.likelihood, "disable_FD") else []) + \
                      ([_t] if hasattr(_t, "disable_FD") else []):
                guard(lambda: _x.disable_FD())
            w.fp[op[1]] = fingerprint(_t, w)
            for _j in range(len(w.objs)):
                if w.src[_j] == op[1] and getattr(w, "how", {}).get(_j) == "to_likelihood":
                    w.fp[_j] = fingerprint(w.objs[_j], w)
        nameprob = None
        # differential oracle for every operation on an ORIGINAL: it ends as it ends on a fresh world ("every later evaluation,
        # conditioning or sample of the original gives the result it would have given had the intervening operations not
        # happened"): same outcome (done / refused with the same exception type) and, for consumers, the same numbers
        f0 = None
        if op[1] < w.ntracked and (op[0] != "apply" or op[2] < w.ntracked):
            # (assignments made earlier in this history to an original / tracked object and still in force belong to the
            # fresh world as well; the one just made is the operation itself)
            pre = tuple((r[0], r[1]) for r in w.inforce if r[0] < w.ntracked and not (op[0] == "assign" and r[0] == op[1] and r[1] == op[2]))
            key = (pre, pre_fd, op[0], op[1], tuple(op[2]) if isinstance(op[2], (tuple, list)) else op[2])
            cache = self.__dict__.setdefault("_fresh_new_fp", {})
            if key not in cache:
                w0 = World(self.cell)
                for _i, _a in pre:
                    do_op(w0, ("assign", _i, _a))
                for _f in pre_fd:
                    # (the FD switches made earlier in this history on an original / tracked object belong to the fresh world too)
                    do_op(w0, _f)
                _o0, _n0 = do_op(w0, op)
                cache[key] = (_o0, fingerprint(_n0, w0) if _n0 is not None else None, dict(w0.last_results))
            o0, f0, r0 = cache[key]
            self.res.evaluations += 1
            if o0 != outcome:
                bad.append((op[1], "outcome", [("outcome", o0)], [("outcome", outcome)], False))
            else:
                for _k in sorted(r0):
                    self.res.evaluations += 1
                    if not (r0[_k].shape == results[_k].shape and close(r0[_k], results[_k], 1e-7)):
                        bad.append((op[1], "result", [("result", r0[_k])], [("result", results[_k])], False))
                        break
        if _new is not None:
            w.add(_new, "pool", op[1], op[0], op[2])
            f1 = fingerprint(_new, w)
            f2 = fingerprint(_new, w)
            w.fp[-1] = f1
            self.created += 1
            self.res.count("derived:" + type(_new).__name__)
            self.res.outcomes.add("%s:%s->%s%s" % (op[0], type(w.objs[op[1]]).__name__, type(_new).__name__,
                                                  dict(f1).get("parameter_names", dict(f1).get("argument_names"))))
            d = fp_diff(f1, f2)
            if d is not None:
                bad.append((len(w.objs) - 1, d, f1, f2, True))
            # differential oracle for the NEW object: derived from an original it must be what the same operation gives
            # on a fresh world ("the result it would have given had the intervening operations not happened")
            else:
                if f0 is not None:
                    self.res.evaluations += 1
                    d0 = fp_diff(f0, f1)
                    if d0 is not None:
                        bad.append((len(w.objs) - 1, d0, f0, f1, True))
            # a conditioned copy keeps the random-variable name of its source
            if op[0] in ("cond", "call0", "to_likelihood") and kind_of(w.objs[op[1]]) in ("dist", "lik", "eval"):
                n_src = dict(w.fp[op[1]]).get("name")
                n_new = dict(f1).get("name")
                self.res.evaluations += 1
                if n_src != n_new:
                    nameprob = (n_src, n_new)
        return outcome, bad, nameprob

    # ------------------------------------------------------------------------------------
    # naming cells: the same history on every (how the name is given) x (when names are first read) route
    # ------------------------------------------------------------------------------------
    def naming_fail(self, w, h2, j, cls, entry, how, t0, msg):
        L = len(h2)
        read = "before-first-operation" if t0 == 0 else ("after-last-operation" if t0 >= L else "between-operations")
        made = w.how.get(j, "original")
        sig = "C11|%s|naming:%s|%s,name=%s,first-read=%s" % (cls, made, entry, how, "before-first-operation" if t0 == 0 else "later")
        self.nfail[sig] = self.nfail.get(sig, 0) + 1
        if self.nfail[sig] > 10:
            self.res.count("failures_not_stored")
            return
        self.res.fail(sig, "[%s cat=%d] history %s with names given %s and first read %s (t0=%d): object #%d (%s, made by %s) %s"
                      % (self.label(), self.cell["cat"], " ; ".join(op_str(w, o) for o in h2),
                         "by name=" if how == "explicit" else "by the variables the objects are assigned to", read, t0, j, cls, made, msg),
                      focus={"history": [op_str(w, o) for o in h2], "name_given": how, "first_read_before_step": t0, "object": j})

    def naming_compare(self, w, h2, how, t0, fps, kinds, classes, skip=()):
        """reference (history only) and differential (baseline fingerprints) oracles for one observation of all
        live objects; returns the indices of the objects reported"""
        res = self.res
        reported = set()
        for j in range(len(fps)):
            if j in skip:
                continue
            got = dict(fps[j])
            e_name, e_pars, e_dens = naming_reference(w, j, kinds)
            res.evaluations += 1
            msg = entry = None
            if e_name is not None and got.get("name") != e_name:
                entry, msg = "name", "reports name %r, its original is the random variable %r" % (got.get("name"), e_name)
            elif e_pars is not None and got.get("parameter_names") != e_pars:
                entry, msg = "parameter_names", "reports parameters %r; members and fixed variables of the joint give %r" \
                    % (got.get("parameter_names"), e_pars)
            elif e_dens is not None and frozenset(n for n, c in got.get("densities_by_name", ()) if isinstance(c, str)) != e_dens:
                entry, msg = "densities_by_name", "answers get_density for %r; it was built from densities of %r" \
                    % (sorted(n for n, c in got.get("densities_by_name", ()) if isinstance(c, str)), sorted(e_dens))
            elif not (how == "explicit" and t0 == 0):        # (explicit, 0) is the baseline itself
                present = set(n for n, _ in fps[j])
                d = fp_diff([e for e in w.fp[j] if e[0] in present] if len(present) < len(w.fp[j]) else w.fp[j], fps[j])
                res.evaluations += 1
                if d is not None:
                    entry = d.split(":")[0] if d.startswith("attr:") else d
                    msg = "differs from the explicit-name / read-first route in '%s': %s -> %s" \
                        % (d, _short(dict(w.fp[j]).get(d)), _short(got.get(d)))
            if entry is not None:
                reported.add(j)
                self.naming_fail(w, h2, j, classes[j], entry, how, t0, msg)
        return reported

    def naming_routes(self, w, h2):
        res = self.res
        L = len(h2)
        kinds0 = [kind_of(_o) for _o in w.objs]
        classes0 = [type(_o).__name__ for _o in w.objs]
        # the baseline (explicit names, everything read after every step) against the history-only reference
        self.naming_compare(w, h2, "explicit", 0, w.fp, kinds0, classes0)
        routes = [("inferred", t) for t in range(L + 1)]
        routes += [("explicit", t) for t in (range(1, L + 1) if self.cell.get("routes") == "all" else [L])]
        for how, t0 in routes:
            frame = NAMING_FRAMES[self.cell["world"]]
            outs, mid, end, kinds, classes, lazy = frame(self.cell["cat"], how, lambda _l: naming_run(self.cell, _l, h2, t0))
            res.transitions += L
            res.count("route:%s" % how)
            if lazy:
                res.count("route:name_unresolved_at_first_operation")
            res.outcomes.add("route:%s:first-read-%s:%s" % (how, "before" if t0 == 0 else ("after" if t0 >= L else "between"),
                                                         "lazy" if lazy else "resolved"))
            if outs != self.outs:
                t = min(i for i in range(L) if outs[i] != self.outs[i])
                self.naming_fail(w, h2, h2[t][1], classes0[h2[t][1]], "outcome", how, t0,
                                 "operation %s ends as %r, on the explicit-name / read-first route as %r" % (op_str(w, h2[t]), outs[t], self.outs[t]))
                continue
            seen = self.naming_compare(w, h2, how, t0, mid, kinds, classes) if mid is not None else ()
            self.naming_compare(w, h2, how, t0, end, kinds, classes, skip=seen)

    def replay(self, history):
        """history on a fresh world, checks after every step: -> (world, first step with alteration or None, bad)"""
        w = self.fresh()
        for t, op in enumerate(history):
            outcome, bad, _ = self.step(w, op)
            if bad:
                return w, t, bad
        return w, None, []

    def explore(self):
        self.w = self.fresh()
        self.log = []
        if getattr(self, "unstable", False):
            # reading a fresh object twice gives two answers: that is the finding of this cell; histories on top of it would
            # only repeat it under the name of every operation
            self.res.count("cell_closed:fingerprint_alters_the_object")
            return
        self.dfs([])

    def state_key(self, w):
        desc = []
        for j in range(w.ntracked, len(w.objs)):
            f = dict(w.fp[j])
            desc.append("%s%s" % (f.get("class"), f.get("parameter_names", f.get("argument_names"))))
        asg = ",".join(sorted("%s.%s" % ("orig" if r[0] < w.ntracked else "copy", r[1]) for r in w.inforce))
        fds = ",".join("%s:%s.%s" % (r[0], "orig" if r[1] == 0 else ("factor" if r[1] < w.ntracked else "copy"), r[2]) for r in w.fdforce)
        return "%s|%s%s%s" % (self.label(), "+".join(sorted(desc)), ("|assigned:" + asg) if asg else "", ("|fd:" + fds) if fds else "")

    def dfs(self, history, newest=None):
        res = self.res
        res.state(self.state_key(self.w))
        if len(history) >= self.depth:
            res.traces += 1
            return
        targets = [0] + list(range(self.w.ntracked, len(self.w.objs)))
        allops = []
        naming = self.cell["kind"] == "naming"
        for i in targets:
            allops += naming_ops_for(self.w, i) if naming else ops_for(self.w, i)
        if not naming:
            allops += tracked_assign_ops(self.w)
            allops += tracked_fd_ops(self.w)
        if self.cell.get("alphabet") == "fd":
            allops = [o for o in allops if o[0] in FD_ALPHABET]
        if naming and not history:
            # the cell covers the sub-tree below ONE first operation; the size of the root alphabet is part of the bound
            n_exp = naming_first_ops(self.cell["world"], self.cell["focus"])
            if len(allops) != n_exp:
                res.fail("C11|%s|naming:alphabet|parameter_names" % type(self.w.objs[0]).__name__,
                         "[%s] the focus original offers %d operations, %d expected from its declared parameters: %s"
                         % (self.label(), len(allops), n_exp, [op_str(self.w, o) for o in allops]))
            allops = allops[self.cell["first"]:self.cell["first"] + 1]
        closing = self.cell.get("closing", "leaf")
        if closing == "leaf-new" and history and len(history) == self.depth - 1:
            # (economy mode, not used by the tiers as enumerated: at the last level refused / consumer operations only on the
            # object the last operation made)
            allops = [o for o in allops if o[0] not in CLOSING or o[1] == newest]
        if not allops:
            res.traces += 1
            return
        for op in allops:
            w = self.w
            self.outs = self.outs[:len(history)]
            n0 = len(w.objs)
            n_inforce = len(w.inforce)
            n_fdforce = len(w.fdforce)
            self.log.append(op_str(w, op))
            outcome, bad, nameprob = self.step(w, op)
            self.outs.append(outcome)
            h2 = history + [op]
            if nameprob is not None:
                sig = "C11|%s|%s|name-not-kept" % (type(w.objs[op[1]]).__name__, op[0])
                self.nfail[sig] = self.nfail.get(sig, 0) + 1
                if self.nfail[sig] <= 25:
                    res.fail(sig, "[%s cat=%d] after %s the derived %s reports name %r, its source reports %r"
                             % (self.label(), self.cell["cat"], " ; ".join(op_str(w, o) for o in h2), type(w.objs[-1]).__name__,
                                nameprob[1], nameprob[0]), focus={"history": [op_str(w, o) for o in h2]})
            if bad:
                # confirm on a fresh world, report, rebuild the live world, do not descend
                w2, t, bad2 = self.replay(h2)
                res.count("alterations_detected")
                if t is not None:
                    # shorten: drop the non-creating operations before the offending step if it still reproduces
                    hmin = [o for o in h2[:t] if o[0] not in NONCREATING] + [h2[t]]
                    if len(hmin) < t + 1:
                        w3, t3, bad3 = self.replay(hmin)
                        if t3 == len(hmin) - 1 and [b[:2] for b in bad3[:2]] == [b[:2] for b in bad2[:2]]:
                            w2, t, bad2, h2 = w3, t3, bad3, hmin
                    if h2[t][0] in BUNDLES:
                        # name the first sub-operation that alone reproduces the first alteration
                        # (the sub-operations that apply to the target are read off an un-altered world)
                        w3, t3, _ = self.replay(h2[:t])
                        for _sn in ([x[0] for x in BUNDLES[h2[t][0]](w3, h2[t][1])] if t3 is None else []):
                            hsub = h2[:t] + [(_sn, h2[t][1], h2[t][2])]
                            w3, t3, bad3 = self.replay(hsub)
                            if t3 == t and bad3 and bad3[0][:2] == bad2[0][:2]:
                                w2, bad2, h2 = w3, bad3, hsub
                                break
                    for (j, entry, old, new, isnew) in bad2[:2]:
                        self.report(w2, h2[:t + 1], j, entry, h2[t][0], old, new, confirmed=True, new_object=isnew)
                else:
                    for (j, entry, old, new, isnew) in bad[:2]:
                        self.report(w, h2, j, entry, op[0], old, new, confirmed=False, latent_log=self.log[-30:], new_object=isnew)
                self.w, t0, _ = self.replay(history)
                self.log = [op_str(self.w, o) for o in history]
                if t0 is not None:
                    # the parent history itself alters something on a fresh world (already reported higher up)
                    return
                continue
            if res.sample is None and len(h2) == self.depth and len(w.objs) > n0:
                res.sample = {"original": self.label(), "history": [op_str(w, o) for o in h2],
                              "objects": [type(_o).__name__ for _o in w.objs], "all_fingerprints_unchanged": True}
            if naming:
                self.naming_routes(w, h2)
            if op[0] in CLOSING and closing != "full":
                # a refused / consumer operation closes the history: it created nothing, and by the fingerprints just re-taken
                # the state is the one before it, from which the sibling histories continue on the same live world
                res.state(self.state_key(self.w) + "|after:" + op[0])
                res.traces += 1
                continue
            if op[0] == "assign" and len(w.inforce) == n_inforce and outcome.startswith("assign:"):
                # the assignment closed the history (it is already undone)
                res.state(self.state_key(self.w) + "|after:assign")
                res.traces += 1
                continue
            self.dfs(h2, newest=(len(w.objs) - 1) if len(w.objs) > n0 else None)
            self.w.truncate(n0)
            while len(self.w.fdforce) > n_fdforce:
                # leaving the sub-tree of an FD switch: it is put back the way it was (enable_FD(old spacing) / disable_FD); should
                # that not restore the objects the live world is rebuilt
                if self.undo_fd(self.w):
                    res.count("fd_undo_not_clean")
                    self.w, _t0, _ = self.replay(history)
                    self.log = [op_str(self.w, o) for o in history]
                    break
            while len(self.w.inforce) > n_inforce:
                # leaving the sub-tree of an assignment: the old value is assigned back; should that not restore the objects the
                # live world is rebuilt (the restore oracle itself is decided where assignments close a history)
                if self.undo_assign(self.w):
                    res.count("assign_undo_not_clean")
                    self.w, _t0, _ = self.replay(history)
                    self.log = [op_str(self.w, o) for o in history]
                    break


def _short(v):
    if isinstance(v, np.ndarray):
        return np.array2string(v.ravel()[:6], precision=6)
    return repr(v)[:120]


# ----------------------------------------------------------------------------------------
# horizon run: the Gibbs re-conditioning pattern, thousands of times
# ----------------------------------------------------------------------------------------
def horizon(res, cell):
    g = GR.GRAPHS[cell["graph"]]
    k = cell["cat"]
    w = World({"kind": "joint", "graph": g.gid, "cat": k})
    fp0 = [fingerprint(_o, w) for _o in w.objs]
    data = [n for n in g.free if n.startswith("y")]
    try:
        _post = w.objs[0](**{n: GR.copy_val(w.vals[n]) for n in data})
    except Exception as e:  # noqa
        res.fail("C11|JointDistribution|recondition-horizon|raises", "[horizon %s] conditioning on the data raised %r" % (g.gid, e))
        return
    w.add(_post, "pool", 0)
    fpp = fingerprint(_post, w)
    free = [n for n in g.free if n not in data]
    cur = {n: GR.copy_val(w.vals[n]) for n in free}
    first = {}
    res.state("horizon|%s" % g.gid)
    label = "horizon %s" % g.gid
    for it in range(cell["n"]):
        src = w.vals if it % 2 == 0 else w.valsB
        for n in free:
            others = {m: GR.copy_val(cur[m]) for m in free if m != n}
            res.transitions += 1
            try:
                _c = _post(**others)
                val = float(np.asarray(_c.logd(GR.copy_val(cur[n]))).ravel()[0])
            except Exception as e:  # noqa  the very same call worked (or was never tried) in an earlier sweep
                res.fail("C11|JointDistribution|recondition-horizon|raises",
                         "[%s] re-conditioning on %s and evaluating at %s raised %s: %s in sweep %d"
                         % (label, sorted(others), n, type(e).__name__, str(e)[:160], it))
                return
            key = (n, np.asarray(cur[n], float).tobytes(), tuple(sorted((m, np.asarray(others[m], float).tobytes()) for m in others)))
            res.evaluations += 1
            if key in first:
                if not close(val, first[key], RT):
                    res.fail("C11|%s|recondition-horizon|drift" % type(_c).__name__,
                             "[%s] conditional of %s evaluates to %.15g at re-conditioning %d but %.15g the first time" % (label, n, val, it, first[key]))
                    return
            else:
                first[key] = val
                # and it is the reference joint value
                full = dict(w.vals)
                full.update(others)
                full[n] = cur[n]
                ref = g.ref_joint(k, full)
                if np.isfinite(ref) and not close(val, ref, 1e-9):
                    res.fail("C11|%s|recondition-horizon|value" % type(_c).__name__, "[%s] conditional of %s = %.15g, reference joint %.15g" % (label, n, val, ref))
                    return
            cur[n] = GR.copy_val(src[n])
        if it in (0, 1, cell["n"] // 2, cell["n"] - 1):
            for j, _o in enumerate(w.objs):
                f = fingerprint(_o, w)
                d = fp_diff(fp0[j] if j < len(fp0) else fpp, f)
                res.evaluations += 1
                if d is not None:
                    res.fail("C11|%s|recondition-horizon:%s|%s" % (type(_o).__name__, w.role[j], d),
                             "[%s] after %d sweeps of re-conditioning object #%d changed its '%s'" % (label, it + 1, j, d))
                    return
    res.traces += 1
    res.outcomes.add("horizon:%s:%d distinct conditionals" % (g.gid, len(first)))
    res.sample = {"horizon": g.gid, "sweeps": cell["n"], "distinct_conditionals": len(first)}


def eval_cell(cell):
    res = CellResult(cell)
    if cell["kind"] == "horizon":
        horizon(res, cell)
        return res
    ex = Explorer(res, cell)
    ex.explore()
    res.nontrivial = ex.created > 0
    return res
