"""C18 helpers: the grid LOCATION / SCALE facet.

The solution grid and the observation grid handed to the PDE object are the unit-interval grids of c18.py mapped by
x -> offset + scale * x (offset in {0, 2^10, 2^20}, scale in {2^-10, 1, 2^10}); the time grid may be translated by T0 in
{0, 2^10, 2^20}.  The library uses the grids only in observe(), and (spline / polynomial) interpolation commutes with affine
changes of the coordinate, so the expected observation is the one of the unit grid - but the reference must not inherit the
cancellation of the far-away coordinates.  It is therefore computed in coordinates RELATIVE TO THE GRID'S OWN FIRST NODE:
local(x) = x - grid[0] for the very floating point numbers that were handed to the library (a difference of neighbouring
floats, exact by Sterbenz' lemma whenever offset != 0), which makes the reference as well conditioned as on the unit grid.

What remains is the library's own rounding in global coordinates, bounded by a few units of
    cond = eps * max(|x|_max / h_x, |t|_max / h_t)          (h = smallest cell of the grid)
i.e. the spacing of the floats at the grid's position relative to one cell (interp1d's quadratic spline places its knots at
the mid-points (x_i + x_{i+1}) / 2, which are rounded to that spacing).  place_tol() = 16 * cond is added to the tolerance of the
INTERPOLATED values only; restriction at coinciding nodes / times keeps 1e-10.  Largest value in the enumerated space:
offset 2^20, scale 2^-10, N = 6: cond = 1.7e-6, tolerance 2.7e-5 (an un-interpolated answer is off by O(1e-1) for the
quarter-cell shift and O(5e-4) for the 2^-10-cell shift).
"""
import numpy as np

OFFSETS = [None, 10, 20]        # exponent of the translation (None: no translation)
SCALES = [-10, 0, 10]           # exponent of the scaling
IDENTITY = [None, 0]


def spatial(cell):
    """(offset, scale) of the cell's grids"""
    e_off, e_sc = cell.get("place") or IDENTITY
    return (0.0 if e_off is None else 2.0 ** e_off), 2.0 ** e_sc


def time_origin(cell):
    e = cell.get("tplace")
    return 0.0 if e is None else 2.0 ** e


def is_identity(cell):
    return list(cell.get("place") or IDENTITY) == IDENTITY and cell.get("tplace") is None


def place_grid(g, cell):
    off, sc = spatial(cell)
    return g if (off == 0.0 and sc == 1.0) else off + sc * g


def facet(cell):
    """signature facet of a defect that needs the placement in order to show (no values: far / rescaled)"""
    e_off, e_sc = cell.get("place") or IDENTITY
    parts = []
    if e_off is not None:
        parts.append("grid=far-from-origin")
    elif e_sc != 0:
        parts.append("grid=rescaled")
    if cell.get("tplace") is not None:
        parts.append("time=far-from-origin")
    return ",".join(parts)


def cond(x):
    """spacing of the floats at the grid's position relative to its smallest cell"""
    if x is None:
        return 0.0
    x = np.asarray(x, dtype=float)
    if x.size < 2:
        return 0.0
    return float(np.finfo(float).eps * np.max(np.abs(x)) / np.min(np.abs(np.diff(x))))


def place_tol(grid, times=None):
    return 16.0 * max(cond(grid), cond(times))


def local(x, ref):
    """coordinates relative to the first node of the grid `ref`"""
    return np.asarray(x, dtype=float) - float(np.asarray(ref, dtype=float).ravel()[0])


# ----------------------------------------------------------------------------------------
# hand-written piecewise (bi)linear interpolants (no scipy): a member of the accepted family of interpolants that is
# computed cell by cell from coordinate DIFFERENCES only
# ----------------------------------------------------------------------------------------
def _cells(g, x):
    g = np.asarray(g, dtype=float)
    x = np.atleast_1d(np.asarray(x, dtype=float))
    j = np.clip(np.searchsorted(g, x, side="right") - 1, 0, len(g) - 2)
    w = (x - g[j]) / (g[j + 1] - g[j])
    return j, w


def pl_interp(g, u, x):
    """piecewise linear interpolant of the nodal values u on the increasing grid g at the points x (inside the grid)"""
    u = np.asarray(u, dtype=float)
    j, w = _cells(g, x)
    return (1.0 - w) * u[j] + w * u[j + 1]


def bilinear(g, t, U, x, s):
    """tensor-product piecewise linear interpolant of U[i, k] = u(g_i, t_k) at the points (x_a, s_b)"""
    U = np.asarray(U, dtype=float)
    jx, wx = _cells(g, x)
    jt, wt = _cells(t, s)
    lo = (1.0 - wx)[:, None] * U[jx, :] + wx[:, None] * U[jx + 1, :]         # (len(x), len(t))
    return lo[:, jt] * (1.0 - wt)[None, :] + lo[:, jt + 1] * wt[None, :]
