"""Helpers of check C12: dense reference geometry maps and the catalogue of forward models.

Everything the *oracle* uses lives here and is written in plain dense numpy, independent of the
library's model layer (Model._2fun/_2par/_apply_func, CUQIarray, Samples) that C12 judges:

* ``RefGeom``     - a library geometry object + the harness' own parameter<->function maps,
* ``build_model`` - a library model built from *natural user code* (numpy expressions without any
                    sanitising of the argument) + the same mathematical function on plain arrays.

Conventions a user of the library has to follow (Model docstring, tests/test_model.py):
  forward(x_fun)               -> function values of the range geometry (array of its fun_shape)
  gradient(direction_fun, wrt_fun) -> derivative w.r.t. the *function values* of the domain, in
                                  the domain's fun_shape
  jacobian(wrt_fun)            -> (range_dim, domain_dim) matrix; for the reshaping geometries
                                  (Image2D / Continuous2D) rows/columns follow the parameter index
  geometry.gradient(direction_fun, wrt_par) -> J_par2fun(wrt_par)^T direction
"""
import numpy as np
from vfw import refs

# ----------------------------------------------------------------------------------------------
# sizes per geometry kind: (role, size-variant) -> constructor arguments
# ----------------------------------------------------------------------------------------------
DOM_KINDS = ["default1d", "default2d", "cont1d", "cont2d", "image2d_C", "image2d_F", "image2d_vis",
             "discrete", "mapped", "mapped_grad", "kl", "kl_grad", "step", "step_grad", "user"]
RNG_KINDS = ["default1d", "default2d", "cont1d", "cont2d", "image2d_C", "image2d_F", "discrete",
             "mapped", "kl", "step", "user"]

_SIZES = {
    # kind-family: {role: [variant0, variant1]}
    "1d": {"dom": [4, 6], "rng": [3, 5]},
    "2d": {"dom": [(2, 3), (3, 2)], "rng": [(3, 2), (2, 2)]},
    # range sizes of variant 0 share the node count (4) with the plain 1-D domain: coinciding grids
    # are a corner case of their own (geometry comparison), non-square cases come from the others
    "kl": {"dom": [(6, 4), (5, 5)], "rng": [(4, 3), (5, 5)]},           # (N grid nodes, modes)
    "step": {"dom": [(7, 3), (9, 4)], "rng": [(4, 2), (9, 4)]},         # (N grid nodes, steps)
    "user": {"dom": [3, 4], "rng": [3, 4]},                             # par dim; fun dim = n + 1
}


def _family(kind):
    if kind in ("default1d", "cont1d", "discrete", "mapped", "mapped_grad"):
        return "1d"
    if kind in ("default2d", "cont2d", "image2d_C", "image2d_F", "image2d_vis"):
        return "2d"
    if kind in ("kl", "kl_grad"):
        return "kl"
    if kind in ("step", "step_grad"):
        return "step"
    return "user"


def size_of(kind, role, variant):
    return _SIZES[_family(kind)][role][variant]


_USER_CLS = None


def _user_geometry_class():
    """A user-written geometry: par (n,) -> fun (n+1,) = W sinh(p); it provides `gradient`."""
    global _USER_CLS
    if _USER_CLS is None:
        import cuqi

        class UserSinhGeometry(cuqi.geometry.Geometry):
            def __init__(self, W):
                self.W = W
                self.Wpinv = np.linalg.pinv(W)

            @property
            def par_shape(self):
                return (self.W.shape[1],)

            @property
            def fun_shape(self):
                return (self.W.shape[0],)

            def par2fun(self, p):
                return self.W @ np.sinh(p)

            def fun2par(self, f):
                return np.arcsinh(self.Wpinv @ f)

            def gradient(self, direction, wrt):
                return (self.W * np.cosh(wrt)).T @ direction

            def _plot(self, values, **kwargs):
                raise NotImplementedError

        _USER_CLS = UserSinhGeometry
    return _USER_CLS


class RefGeom:
    """Library geometry + dense reference maps (the harness' own implementation)."""

    def __init__(self, kind, role, variant, k):
        import cuqi
        G = cuqi.geometry
        self.kind, self.role = kind, role
        size = size_of(kind, role, variant)
        self.size = size
        self.has_gradient = kind in ("mapped_grad", "kl_grad", "step_grad", "user")
        fam = _family(kind)
        self.arg = None        # what is passed to the model constructor (int/tuple for defaults)
        if fam == "1d":
            n = size
            self.n, self.fshape = n, (n,)
            if kind == "default1d":
                self.arg = n
                self._p2f, self._f2p = (lambda p: p), (lambda f: f)
            elif kind == "cont1d":
                grid = np.cumsum(1.0 + 0.25 * np.arange(n))        # non-uniform grid
                self.arg = G.Continuous1D(grid)
                self._p2f, self._f2p = (lambda p: p), (lambda f: f)
            elif kind == "discrete":
                self.arg = G.Discrete(["a%d" % i for i in range(n)])
                self._p2f, self._f2p = (lambda p: p), (lambda f: f)
            else:  # mapped / mapped_grad : sinh after the identity map of Continuous1D
                self.arg = G.MappedGeometry(G.Continuous1D(n), map=np.sinh, imap=np.arcsinh)
                if kind == "mapped_grad":
                    # written in the idiom of tests/test_model.py::test_gradient_computation
                    self.arg.gradient = lambda direction, wrt: np.diag(np.cosh(wrt)) @ direction
                self._p2f, self._f2p = (lambda p: np.sinh(p)), (lambda f: np.arcsinh(f))
        elif fam == "2d":
            n1, n2 = size
            self.n = n1 * n2
            if kind == "image2d_vis":
                self.fshape = (self.n,)
                self.arg = G.Image2D((n1, n2), visual_only=True)
                self._p2f, self._f2p = (lambda p: p), (lambda f: f)
            else:
                self.fshape = (n1, n2)
                order = "F" if kind == "image2d_F" else "C"
                if kind == "default2d":
                    self.arg = (n1, n2)
                elif kind == "cont2d":
                    self.arg = G.Continuous2D((np.cumsum(1.0 + 0.5 * np.arange(n1)), 0.5 * np.arange(n2)))
                else:
                    self.arg = G.Image2D((n1, n2), order=order)
                # image[i, j] = p[i*n2 + j] (C) or p[i + j*n1] (F), by explicit index arithmetic
                idx = np.empty((n1, n2), dtype=int)
                for i in range(n1):
                    for j in range(n2):
                        idx[i, j] = i * n2 + j if order == "C" else i + j * n1
                inv = np.empty(self.n, dtype=int)
                inv[idx.reshape(-1)] = np.arange(self.n)            # p[q] = image.reshape(-1)[inv[q]]
                self._p2f = lambda p, idx=idx: np.asarray(p)[idx]
                self._f2p = lambda f, inv=inv: np.asarray(f).reshape(-1)[inv]
        elif fam == "kl":
            N, modes = size
            gamma, tau = 1.5, 2.0
            self.n, self.fshape = modes, (N,)
            Bfull = np.zeros((N, N))
            for K in range(N):
                for i in range(N):
                    if i < N - 1:
                        Bfull[K, i] = np.sin(np.pi / N * (i + 1) * (K + 0.5)) / ((i + 1) ** gamma * tau)
                    else:
                        Bfull[K, i] = 0.5 * (-1) ** K / (N ** gamma * tau)
            B = Bfull[:, :modes]
            P = np.linalg.inv(Bfull)[:modes, :]
            self.B = B
            self.arg = G.KLExpansion(np.arange(N, dtype=float), decay_rate=gamma, normalizer=tau, num_modes=modes)
            if kind == "kl_grad":
                self.arg.gradient = lambda direction, wrt, B=B: B.T @ direction
            self._p2f, self._f2p = (lambda p: B @ p), (lambda f: P @ f)
        elif fam == "step":
            N, steps = size
            self.n, self.fshape = steps, (N,)
            S = np.zeros((N, steps))
            for t in range(N):          # integer grid 0..N-1: node t in step i iff i(N-1) < t*steps <= (i+1)(N-1)
                for i in range(steps):
                    if (t == 0 and i == 0) or (i * (N - 1) < t * steps <= (i + 1) * (N - 1)):
                        S[t, i] = 1.0
            cnt = S.sum(axis=0)
            self.S = S
            self.arg = G.StepExpansion(np.arange(N, dtype=float), n_steps=steps)
            if kind == "step_grad":
                self.arg.gradient = lambda direction, wrt, S=S: S.T @ direction
            self._p2f, self._f2p = (lambda p: S @ p), (lambda f: (S.T @ f) / cnt)
        else:  # user
            n = size
            W = refs.full_matrix(n + 1, n, k + 1) * 0.5
            Wp = np.linalg.pinv(W)
            self.n, self.fshape = n, (n + 1,)
            self.arg = _user_geometry_class()(W)
            self._p2f, self._f2p = (lambda p: W @ np.sinh(p)), (lambda f: np.arcsinh(Wp @ f))
        self.fdim = int(np.prod(self.fshape))
        # V: C-ordered function vector = V @ "natural" vector (parameter index for reshaping
        # geometries, the function vector itself for 1-D function spaces)
        if len(self.fshape) == 2:
            q = self._p2f(np.arange(self.n)).reshape(-1)
            V = np.zeros((self.fdim, self.n))
            V[np.arange(self.fdim), q] = 1.0
            self.V = V
        else:
            self.V = np.eye(self.fdim)

    def p2f(self, p):
        return self._p2f(np.asarray(p, dtype=float))

    def f2p(self, f):
        return self._f2p(np.asarray(f, dtype=float))


def other_grid_geometry(shape):
    """A different-but-compatible identity-like geometry for arrays of the given shape: Continuous1D (resp.
    Continuous2D) on a grid with the same number of nodes as, but other coordinates than, every grid of the
    catalogue (those start at 0 or 1).  It never compares equal to a catalogue geometry."""
    import cuqi
    G = cuqi.geometry
    if len(shape) == 1:
        return G.Continuous1D(10.0 + 0.5 * np.arange(shape[0]))
    return G.Continuous2D((10.0 + 0.5 * np.arange(shape[0]), 20.0 + 0.5 * np.arange(shape[1])))


def int_point(n, k):
    """Integer-valued generic point with small non-zero entries (representable in every dtype of the dtype facet)."""
    base = [1, -2, 2, -1]
    return np.array([base[(i + k) % len(base)] for i in range(n)], dtype=float)


# ----------------------------------------------------------------------------------------------
# models
# ----------------------------------------------------------------------------------------------
MODELS = ["jac", "grad", "nograd", "lin_mat", "lin_fun", "pde_poisson", "pde_poisson_jac",
          "pde_poisson_vjp", "pde_heat_fe", "pde_heat_be"]


def lin_mat_applicable(dom, rng):
    """lin_mat applies the matrix to the function values directly: only 1-D function spaces."""
    ok = lambda kd: _family(kd) != "2d" or kd == "image2d_vis"
    return ok(dom) and ok(rng)


class Built:
    pass


def build_model(name, gd, gr, k):
    """Returns Built with .model (library object), .f (dense function on plain function arrays:
    fun-shaped in, fun-shaped out), .has_grad (the user supplied derivative information)."""
    import cuqi
    out = Built()
    nf, mf = gd.fdim, gr.fdim
    dshape, rshape = gd.fshape, gr.fshape
    Vd, Vr = gd.V, gr.V
    A = 0.5 * refs.full_matrix(mf, nf, k)
    Bm = 0.25 * refs.full_matrix(mf, nf, k + 1)

    if name in ("jac", "grad", "nograd"):
        def forward(x):
            v = x.reshape(-1)
            return (A @ np.sin(v) + 0.5 * (Bm @ v) ** 2).reshape(rshape)

        def jacobian(x):
            v = x.reshape(-1)
            return Vr.T @ (A * np.cos(v) + (Bm @ v)[:, None] * Bm) @ Vd

        def gradient(direction, wrt):
            v = wrt.reshape(-1)
            d = direction.reshape(-1)
            return (d @ (A * np.cos(v)) + (d * (Bm @ v)) @ Bm).reshape(dshape)

        kw = {}
        if name == "jac":
            kw["jacobian"] = jacobian
        elif name == "grad":
            kw["gradient"] = gradient
        out.model = cuqi.model.Model(forward, range_geometry=gr.arg, domain_geometry=gd.arg, **kw)
        out.has_grad = name != "nograd"

        def f(xf):
            v = np.asarray(xf, float).reshape(-1)
            return (A @ np.sin(v) + 0.5 * (Bm @ v) ** 2).reshape(rshape)
        out.f = f
        return out

    if name in ("lin_mat", "lin_fun", "lin_inferred"):
        Al = refs.full_matrix(mf, nf, k)
        if name == "lin_mat":
            out.model = cuqi.model.LinearModel(Al.copy(), range_geometry=gr.arg, domain_geometry=gd.arg)
        elif name == "lin_inferred":
            out.model = cuqi.model.LinearModel(Al.copy())
        else:
            def forward(x):
                return (Al @ x.reshape(-1)).reshape(rshape)

            def adjoint(y):
                return (Al.T @ y.reshape(-1)).reshape(dshape)
            out.model = cuqi.model.LinearModel(forward, adjoint, range_geometry=gr.arg, domain_geometry=gd.arg)
        out.has_grad = True
        out.f = lambda xf: (Al @ np.asarray(xf, float).reshape(-1)).reshape(rshape)
        # dense adjoint on plain function arrays (range fun-shaped in, domain fun-shaped out), transposed index by index
        AlT = np.array([[Al[i, j] for i in range(mf)] for j in range(nf)])
        out.fT = lambda yf: (AlT @ np.asarray(yf, float).reshape(-1)).reshape(dshape)
        return out

    # ---- PDE based -------------------------------------------------------------------------
    M = mf
    h = 1.0 / (M + 1)
    D = refs.fd1_1d(M, "zero")                      # (M+1) x M
    obs_map = None if len(rshape) == 1 else (lambda u: u.reshape(rshape))

    if name.startswith("pde_poisson"):
        Pi = 0.125 * refs.full_matrix(M + 1, nf, k)
        b = 1.0 + 0.5 * refs.dyadic_vec(M, k + 1)

        def PDE_form(x):
            kappa = np.exp(Pi @ x.reshape(-1))
            return (D.T * kappa) @ D / h ** 2, b

        def jac_C(wrt):
            v = np.asarray(wrt, float).reshape(-1)
            kappa = np.exp(Pi @ v)
            Aop = (D.T * kappa) @ D / h ** 2
            u = np.linalg.solve(Aop, b)
            cols = []
            for j in range(nf):
                dA = (D.T * (kappa * Pi[:, j])) @ D / h ** 2
                cols.append(-np.linalg.solve(Aop, dA @ u))
            return np.array(cols).T                 # M x nf, C-ordered function indices

        class _JacPDE(cuqi.pde.SteadyStateLinearPDE):
            def jacobian_wrt_parameter(self, wrt):
                return Vr.T @ jac_C(wrt) @ Vd

        class _VjpPDE(cuqi.pde.SteadyStateLinearPDE):
            def gradient_wrt_parameter(self, direction, wrt):
                return (direction.reshape(-1) @ jac_C(wrt)).reshape(dshape)

        cls = {"pde_poisson": cuqi.pde.SteadyStateLinearPDE, "pde_poisson_jac": _JacPDE,
               "pde_poisson_vjp": _VjpPDE}[name]
        pde = cls(PDE_form, observation_map=obs_map)
        out.model = cuqi.model.PDEModel(pde, range_geometry=gr.arg, domain_geometry=gd.arg)
        out.has_grad = name != "pde_poisson"

        def f(xf):
            v = np.asarray(xf, float).reshape(-1)
            kappa = np.exp(Pi @ v)
            Aop = D.T @ np.diag(kappa) @ D / h ** 2
            return np.linalg.solve(Aop, b).reshape(rshape)
        out.f = f
        return out

    if name.startswith("pde_heat"):
        method = "forward_euler" if name.endswith("fe") else "backward_euler"
        Lap = -(D.T @ D) / h ** 2
        dt = 0.25 * h ** 2
        nt = 4
        steps = dt * np.arange(nt)
        Sm = 0.5 * refs.full_matrix(M, nf, k + 2)
        src = 0.5 * refs.dyadic_vec(M, k + 2)

        def PDE_form(x, t):
            w = Sm @ x.reshape(-1)
            return Lap, src, w + 0.25 * w ** 2

        pde = cuqi.pde.TimeDependentLinearPDE(PDE_form, steps, method=method, observation_map=obs_map)
        out.model = cuqi.model.PDEModel(pde, range_geometry=gr.arg, domain_geometry=gd.arg)
        out.has_grad = False

        def f(xf):
            w = Sm @ np.asarray(xf, float).reshape(-1)
            u = w + 0.25 * w ** 2
            I = np.eye(M)
            for _ in range(nt - 1):
                if method == "forward_euler":
                    u = u + dt * (Lap @ u + src)
                else:
                    u = np.linalg.solve(I - dt * Lap, u + dt * src)
            return u.reshape(rshape)
        out.f = f
        return out
    raise ValueError(name)
