"""Helpers of check C12: dense reference geometry maps and the catalogue of forward models.

Everything the *oracle* uses lives here and is written in plain dense numpy, independent of the
library's model layer (Model._2fun/_2par/_apply_func, CUQIarray, Samples) that C12 judges:

* ``RefGeom``     - a library geometry object + the harness' own parameter<->function maps,
* ``build_model`` - a library model built from *natural user code* (numpy expressions without any
                    sanitising of the argument) + the same mathematical function on plain arrays.

Conventions a user of the library has to follow (Model docstring, tests/test_model.py):
  forward(x_fun)               -> function values of the range geometry (array of its fun_shape)
  gradient(direction_fun, wrt_fun) -> derivative w.r.t. the *function values* of the domain, in
                                  the domain's fun_shape
  jacobian(wrt_fun)            -> (range_dim, domain_dim) matrix; for the reshaping geometries
                                  (Image2D / Continuous2D) rows/columns follow the parameter index
  geometry.gradient(direction_fun, wrt_par) -> J_par2fun(wrt_par)^T direction
"""
import numpy as np
from vfw import refs

# ----------------------------------------------------------------------------------------------
# sizes per geometry kind: (role, size-variant) -> constructor arguments
# ----------------------------------------------------------------------------------------------
DOM_KINDS = ["default1d", "default2d", "cont1d", "cont2d", "image2d_C", "image2d_F", "image2d_vis",
             "discrete", "mapped", "mapped_grad", "kl", "kl_grad", "step", "step_grad", "user"]
RNG_KINDS = ["default1d", "default2d", "cont1d", "cont2d", "image2d_C", "image2d_F", "discrete",
             "mapped", "kl", "step", "user"]

# ---- MappedGeometry alphabet: map x base geometry -------------------------------------------------
# kind "map_<map>_<base>[_grad]".  Maps (all invertible, the inverse is handed to the library as `imap`):
#   ew      element-wise sinh                                   (commutes with every reshaping)
#   cs      cumulative sum along axis 0 (down the image rows)   inverse: differences along axis 0
#   perm    cyclic shift by one along every axis                inverse: shift back
#   mix     dense linear mixing W @ f (acts along axis 0)       inverse: solve
#   cssinh  cumulative sum of sinh (non-linear, not element-wise; only with an attached `gradient`)
# Bases: c1 Continuous1D (1-D function space), imgC / imgF Image2D in row-/column-major order, c2 Continuous2D.
# The kinds "mapped"/"mapped_grad" of the original catalogue are (ew, c1).
MAP_NAMES = ["ew", "cs", "perm", "mix"]
MAP_BASES = ["c1", "imgC", "imgF", "c2"]
MAPPED_KINDS = ["map_%s_%s" % (m_, b_) for m_ in MAP_NAMES for b_ in MAP_BASES if (m_, b_) != ("ew", "c1")]
MAPPED_GRAD_KINDS = ["map_cssinh_c1_grad", "map_cssinh_imgF_grad"]          # domain only
# quick tier: every non-element-wise map over a reshaping base, every base, one 1-D base per role
QUICK_MAPPED_DOM = ["map_cs_imgF", "map_perm_c2", "map_mix_imgC", "map_cs_c1", "map_cssinh_imgF_grad"]
QUICK_MAPPED_RNG = ["map_cs_imgC", "map_perm_imgF", "map_mix_c2", "map_mix_c1"]


def parse_map_kind(kind):
    """('cs', 'imgF', has_gradient) of a kind 'map_cs_imgF[_grad]', else None."""
    if not kind.startswith("map_"):
        return None
    parts = kind.split("_")
    return parts[1], parts[2], kind.endswith("_grad")

_SIZES = {
    # kind-family: {role: [variant0, variant1]}
    "1d": {"dom": [4, 6], "rng": [3, 5]},
    "2d": {"dom": [(2, 3), (3, 2)], "rng": [(3, 2), (2, 2)]},
    # range sizes of variant 0 share the node count (4) with the plain 1-D domain: coinciding grids
    # are a corner case of their own (geometry comparison), non-square cases come from the others
    "kl": {"dom": [(6, 4), (5, 5)], "rng": [(4, 3), (5, 5)]},           # (N grid nodes, modes)
    "step": {"dom": [(7, 3), (9, 4)], "rng": [(4, 2), (9, 4)]},         # (N grid nodes, steps)
    "step_n": {"dom": [(7, 2), (9, 3)], "rng": [(4, 3), (9, 3)]},       # the same grids, another number of steps
    "klfull": {"dom": [5, 6]},                                          # N grid nodes = number of parameters
    "ckl": {"dom": [(6, 3), (7, 2)]},                                   # (N grid nodes, truncation)
    "ckl_trunc": {"dom": [(6, 2), (7, 3)]},                             # the same grids, another truncation
    "user": {"dom": [3, 4], "rng": [3, 4]},                             # par dim; fun dim = n + 1
}

# ---- hidden constructor options ------------------------------------------------------------------
# Kinds "<family>[_<option variant>][_grad]" of the expansion geometries.  All variants of a family share the coarse
# shape of the family's base kind (same role and size variant -> same grid, same number of modes / steps); they differ
# in ONE hidden constructor option each (options that neither the parameter nor the function shape shows):
#   kl      KLExpansion(grid, decay_rate, normalizer, num_modes)    base (1.5, 2.0) | decay: 2.25 | norm: 0.5
#   klfull  KLExpansion_Full(grid, std, cor_len, nu)                base (1.0, 0.2, 3.0) | std: 1.5 | cor: 0.5 | nu: 1.5
#   ckl     CustomKL(grid, mean, std, cov_func, trunc_term)         base (0, 1, exponential kernel of length 2) |
#                                                                   mean: 0.5 | cov: length 1 | amp: std 1.5 (kernel
#                                                                   amplitude std^2) | trunc: another truncation, same grid
#   step    StepExpansion(grid, n_steps, fun2par_projection)        base 'mean' | max | min | n: another n_steps, same grid
# (MappedGeometry: the map alphabet above shares bases and sizes; Image2D: image2d_C / image2d_F share the sizes.)
# klfull and ckl have no fun2par in the library: domain geometries only, no adjoint into them, no equal-copy range.
KL_OPTS = {"": (1.5, 2.0), "decay": (2.25, 2.0), "norm": (1.5, 0.5)}
KLFULL_OPTS = {"": (1.0, 0.2, 3.0), "std": (1.5, 0.2, 3.0), "cor": (1.0, 0.5, 3.0), "nu": (1.0, 0.2, 1.5)}
CKL_OPTS = {"": (0.0, 1.0, 2.0), "mean": (0.5, 1.0, 2.0), "cov": (0.0, 1.0, 1.0), "amp": (0.0, 1.5, 2.0),
            "trunc": (0.0, 1.0, 2.0)}                                   # (mean, std, kernel length)
STEP_OPTS = {"": "mean", "max": "max", "min": "min", "n": "mean"}
_OPT_TABLES = {"kl": KL_OPTS, "klfull": KLFULL_OPTS, "ckl": CKL_OPTS, "step": STEP_OPTS}
# option kinds beyond the original catalogue (kl, kl_grad, step, step_grad), per role
OPT_DOM_KINDS = ["kl_decay_grad", "kl_norm",
                 "klfull", "klfull_std", "klfull_cor_grad", "klfull_nu",
                 "ckl", "ckl_mean", "ckl_cov_grad", "ckl_amp", "ckl_trunc",
                 "step_max", "step_min", "step_n"]
OPT_RNG_KINDS = ["kl_decay", "kl_norm", "step_max", "step_min", "step_n"]
# history facet: (kind of the model under test, kind of the decoy) - a star around the base kind of every family, both
# directions; the two kinds of a pair share role and size variant, hence the coarse shape (step_n / ckl_trunc: the grid)
_STARS_DOM = [("kl", ["kl_decay", "kl_norm"]), ("klfull", ["klfull_std", "klfull_cor", "klfull_nu"]),
              ("ckl", ["ckl_mean", "ckl_cov", "ckl_amp", "ckl_trunc"]), ("step", ["step_max", "step_min", "step_n"]),
              ("image2d_C", ["image2d_F"]), ("mapped", ["map_cs_c1"]), ("map_cs_imgF", ["map_perm_imgF"])]
_STARS_RNG = [("kl", ["kl_decay", "kl_norm"]), ("step", ["step_max", "step_min", "step_n"]),
              ("image2d_C", ["image2d_F"]), ("mapped", ["map_mix_c1"]), ("map_cs_imgC", ["map_mix_imgC"])]


def _pairs(stars):
    out = []
    for base, variants in stars:
        for v in variants:
            out += [(base, v), (v, base)]
    return out


HISTORY_PAIRS = {"dom": _pairs(_STARS_DOM), "rng": _pairs(_STARS_RNG)}
# interleavings of the decoy's life (D built, d evaluated) with the model's (M built, m first evaluated), all before the
# judged batteries: every order of the four events with D before d and M before m
HISTORY_ORDERS = ["DdMm", "DMdm", "DMmd", "MDdm", "MDmd", "MmDd"]
HISTORY_ORDERS_QUICK = ["DdMm", "MmDd"]
HISTORY_MODELS_QUICK = ["jac", "lin_fun"]
HISTORY_MODELS = ["jac", "nograd", "lin_mat", "lin_fun", "lin_fun_T", "pde_poisson_jac"]
OPT_MODELS_QUICK = ["jac", "nograd", "lin_mat", "lin_fun", "lin_fun_T", "pde_poisson_jac"]


def parse_opt_kind(kind):
    """('kl', 'decay', has_gradient) of 'kl_decay_grad'; None for kinds without option variants."""
    parts = kind.split("_")
    if parts[0] not in _OPT_TABLES:
        return None
    grad = parts[-1] == "grad"
    if grad:
        parts = parts[:-1]
    variant = "_".join(parts[1:])
    if variant not in _OPT_TABLES[parts[0]]:
        raise ValueError(kind)
    return parts[0], variant, grad


def has_fun2par(kind):
    ok = parse_opt_kind(kind)
    return ok is None or ok[0] not in ("klfull", "ckl")


def _family(kind):
    mk = parse_map_kind(kind)
    if mk is not None:
        return "1d" if mk[1] == "c1" else "2d"
    ok = parse_opt_kind(kind)
    if ok is not None:
        return ok[0] + "_" + ok[1] if (ok[0] + "_" + ok[1]) in _SIZES else ok[0]
    if kind in ("default1d", "cont1d", "discrete", "mapped", "mapped_grad"):
        return "1d"
    if kind in ("default2d", "cont2d", "image2d_C", "image2d_F", "image2d_vis"):
        return "2d"
    return "user"


def size_of(kind, role, variant):
    return _SIZES[_family(kind)][role][variant]


_USER_CLS = None


def _user_geometry_class():
    """A user-written geometry: par (n,) -> fun (n+1,) = W sinh(p); it provides `gradient`."""
    global _USER_CLS
    if _USER_CLS is None:
        import cuqi

        class UserSinhGeometry(cuqi.geometry.Geometry):
            def __init__(self, W):
                self.W = W
                self.Wpinv = np.linalg.pinv(W)

            @property
            def par_shape(self):
                return (self.W.shape[1],)

            @property
            def fun_shape(self):
                return (self.W.shape[0],)

            def par2fun(self, p):
                return self.W @ np.sinh(p)

            def fun2par(self, f):
                return np.arcsinh(self.Wpinv @ f)

            def gradient(self, direction, wrt):
                return (self.W * np.cosh(wrt)).T @ direction

            def _plot(self, values, **kwargs):
                raise NotImplementedError

        _USER_CLS = UserSinhGeometry
    return _USER_CLS


# ----------------------------------------------------------------------------------------------
# MappedGeometry alphabet.  (a) the maps as a user hands them to the library: module-level numpy expressions, one
# function object per map (separately constructed geometries with the same map compare equal);
# (b) the harness' own dense versions of the same maps (explicit index loops / dense matrices) for the oracle.
# ----------------------------------------------------------------------------------------------
def _u_cs(x):
    return np.cumsum(x, axis=0)


def _u_ics(f):
    return np.diff(f, axis=0, prepend=0)


def _u_perm(x):
    for ax in range(np.ndim(x)):
        x = np.roll(x, 1, axis=ax)
    return x


def _u_iperm(f):
    for ax in range(np.ndim(f)):
        f = np.roll(f, -1, axis=ax)
    return f


def _u_cssinh(x):
    return np.cumsum(np.sinh(x), axis=0)


def _u_icssinh(f):
    return np.arcsinh(np.diff(f, axis=0, prepend=0))


_MIX = {}


def _mix(n0, k):
    """(map, imap, W) of the dense mixing along axis 0; memoised so that equal geometries share the callables."""
    if (n0, k) not in _MIX:
        W = 0.5 * refs.full_matrix(n0, n0, k + 2)
        if np.linalg.cond(W) > 1e3:
            raise AssertionError("harness: ill-conditioned mixing matrix")
        _MIX[(n0, k)] = ((lambda x, W=W: W @ x), (lambda f, W=W: np.linalg.solve(W, f)), W)
    return _MIX[(n0, k)]


def _user_maps(mname, n0, k):
    if mname == "ew":
        return np.sinh, np.arcsinh
    if mname == "cs":
        return _u_cs, _u_ics
    if mname == "perm":
        return _u_perm, _u_iperm
    if mname == "cssinh":
        return _u_cssinh, _u_icssinh
    if mname == "mix":
        return _mix(n0, k)[:2]
    raise ValueError(mname)


def _cssinh_gradient(base):
    """User-written `gradient` of MappedGeometry(base, cumsum(sinh)): J_par2fun(wrt)^T direction, as parameters.
    A flat direction follows the parameter index (convention of the module docstring), an image is taken as it is."""
    def gradient(direction, wrt):
        d = np.asarray(direction)
        if d.ndim == 1 and len(base.fun_shape) == 2:
            d = base.par2fun(d)
        rc = np.flip(np.cumsum(np.flip(d, 0), 0), 0)
        return base.fun2par(np.cosh(base.par2fun(np.asarray(wrt))) * rc)
    return gradient


def _ref_maps(mname, n0, k):
    """Dense reference (map, imap) on float arrays of shape (n0,) or (n0, n1), written without the numpy routines
    the user-side maps are made of."""
    L = np.array([[1.0 if j <= i else 0.0 for j in range(n0)] for i in range(n0)])

    def diff0(F):
        F = np.asarray(F, dtype=float)
        out = np.array(F, dtype=float)
        for i in range(n0 - 1, 0, -1):
            out[i] = F[i] - F[i - 1]
        return out

    def shift(F, s):
        F = np.asarray(F, dtype=float)
        out = np.empty_like(F)
        if F.ndim == 1:
            for i in range(F.shape[0]):
                out[i] = F[(i - s) % F.shape[0]]
        else:
            for i in range(F.shape[0]):
                for j in range(F.shape[1]):
                    out[i, j] = F[(i - s) % F.shape[0], (j - s) % F.shape[1]]
        return out

    if mname == "ew":
        return (lambda F: np.sinh(F)), (lambda F: np.arcsinh(F))
    if mname == "cs":
        return (lambda F: L @ F), diff0
    if mname == "perm":
        return (lambda F: shift(F, 1)), (lambda F: shift(F, -1))
    if mname == "cssinh":
        return (lambda F: L @ np.sinh(F)), (lambda F: np.arcsinh(diff0(F)))
    if mname == "mix":
        W = _mix(n0, k)[2]
        Wi = np.linalg.inv(W)
        return (lambda F: W @ F), (lambda F: Wi @ F)
    raise ValueError(mname)


def _ref_nystrom(grid, std, length, trunc, gauge):
    """Dense reference of the truncated KL basis  Phi diag(sqrt(lambda))  (N x trunc) of the kernel
    std^2 exp(-|x-y|/length) on the grid's interval [0, L] by the Nystrom method with 2*trunc Gauss-Legendre nodes.
    The sign of an eigenvector is a gauge freedom: each column is given the sign of the library's (`gauge`)."""
    import math
    ngl = 2 * trunc
    half = 0.5 * (float(grid[-1]) - float(grid[0]))
    xi, w = np.polynomial.legendre.leggauss(ngl)
    xs = [half * float(t) + half for t in xi]
    ws = [half * float(t) for t in w]

    def kern(x, y):
        return std * std * math.exp(-abs(x - y) / length)
    A = np.zeros((ngl, ngl))
    for i in range(ngl):
        for j in range(ngl):
            A[i, j] = math.sqrt(ws[i]) * kern(xs[i], xs[j]) * math.sqrt(ws[j])
    lam, H = np.linalg.eigh(A)
    order = sorted(range(ngl), key=lambda i: -lam[i])[:trunc]
    B = np.zeros((len(grid), trunc))
    for c, q in enumerate(order):
        for t in range(len(grid)):
            acc = 0.0
            for j in range(ngl):
                acc += kern(float(grid[t]), xs[j]) * math.sqrt(ws[j]) * H[j, q]
            B[t, c] = acc / lam[q] * math.sqrt(lam[q])
        if gauge.shape == B.shape and float(np.dot(gauge[:, c], B[:, c])) < 0:
            B[:, c] = -B[:, c]
    return B


def _reshaping_index(n1, n2, order):
    """image[i, j] = p[idx[i, j]], p[q] = image.reshape(-1)[inv[q]]  (explicit index arithmetic)."""
    idx = np.empty((n1, n2), dtype=int)
    for i in range(n1):
        for j in range(n2):
            idx[i, j] = i * n2 + j if order == "C" else i + j * n1
    inv = np.empty(n1 * n2, dtype=int)
    inv[idx.reshape(-1)] = np.arange(n1 * n2)
    return idx, inv


class RefGeom:
    """Library geometry + dense reference maps (the harness' own implementation)."""

    def __init__(self, kind, role, variant, k):
        import cuqi
        G = cuqi.geometry
        self.kind, self.role = kind, role
        size = size_of(kind, role, variant)
        self.size = size
        self.has_gradient = kind.endswith("_grad") or kind == "user"
        self.has_f2p = has_fun2par(kind)
        fam = _family(kind)
        ok = parse_opt_kind(kind)
        self.arg = None        # what is passed to the model constructor (int/tuple for defaults)
        self._index = None     # index image of a reshaping (base) geometry
        mk = parse_map_kind(kind)
        if mk is not None:
            # MappedGeometry(base, map, imap): par2fun = map o base.par2fun, fun2par = base.fun2par o imap (documented)
            mname, bname, with_grad = mk
            self.has_gradient = with_grad
            if bname == "c1":
                n = size
                self.n, self.fshape, n0 = n, (n,), n
                base = G.Continuous1D(np.cumsum(1.0 + 0.25 * np.arange(n)))
                bp2f, bf2p = (lambda p: p), (lambda f: f)
            else:
                n1, n2 = size
                self.n, self.fshape, n0 = n1 * n2, (n1, n2), n1
                order = "F" if bname == "imgF" else "C"
                if bname == "c2":
                    base = G.Continuous2D((np.cumsum(1.0 + 0.5 * np.arange(n1)), 0.5 * np.arange(n2)))
                else:
                    base = G.Image2D((n1, n2), order=order)
                idx, inv = _reshaping_index(n1, n2, order)
                self._index = idx
                bp2f = lambda p, idx=idx: np.asarray(p)[idx]
                bf2p = lambda f, inv=inv: np.asarray(f).reshape(-1)[inv]
            umap, uimap = _user_maps(mname, n0, k)
            self.arg = G.MappedGeometry(base, map=umap, imap=uimap)
            if with_grad:
                self.arg.gradient = _cssinh_gradient(base)
            rmap, rimap = _ref_maps(mname, n0, k)
            self._p2f = lambda p: rmap(bp2f(p))
            self._f2p = lambda f: bf2p(rimap(np.asarray(f, dtype=float).reshape(self.fshape)))
        elif fam == "1d":
            n = size
            self.n, self.fshape = n, (n,)
            if kind == "default1d":
                self.arg = n
                self._p2f, self._f2p = (lambda p: p), (lambda f: f)
            elif kind == "cont1d":
                grid = np.cumsum(1.0 + 0.25 * np.arange(n))        # non-uniform grid
                self.arg = G.Continuous1D(grid)
                self._p2f, self._f2p = (lambda p: p), (lambda f: f)
            elif kind == "discrete":
                self.arg = G.Discrete(["a%d" % i for i in range(n)])
                self._p2f, self._f2p = (lambda p: p), (lambda f: f)
            else:  # mapped / mapped_grad : sinh after the identity map of Continuous1D
                self.arg = G.MappedGeometry(G.Continuous1D(n), map=np.sinh, imap=np.arcsinh)
                if kind == "mapped_grad":
                    # written in the idiom of tests/test_model.py::test_gradient_computation
                    self.arg.gradient = lambda direction, wrt: np.diag(np.cosh(wrt)) @ direction
                self._p2f, self._f2p = (lambda p: np.sinh(p)), (lambda f: np.arcsinh(f))
        elif fam == "2d":
            n1, n2 = size
            self.n = n1 * n2
            if kind == "image2d_vis":
                self.fshape = (self.n,)
                self.arg = G.Image2D((n1, n2), visual_only=True)
                self._p2f, self._f2p = (lambda p: p), (lambda f: f)
            else:
                self.fshape = (n1, n2)
                order = "F" if kind == "image2d_F" else "C"
                if kind == "default2d":
                    self.arg = (n1, n2)
                elif kind == "cont2d":
                    self.arg = G.Continuous2D((np.cumsum(1.0 + 0.5 * np.arange(n1)), 0.5 * np.arange(n2)))
                else:
                    self.arg = G.Image2D((n1, n2), order=order)
                # image[i, j] = p[i*n2 + j] (C) or p[i + j*n1] (F), by explicit index arithmetic
                idx, inv = _reshaping_index(n1, n2, order)          # p[q] = image.reshape(-1)[inv[q]]
                self._index = idx
                self._p2f = lambda p, idx=idx: np.asarray(p)[idx]
                self._f2p = lambda f, inv=inv: np.asarray(f).reshape(-1)[inv]
        elif ok is not None and ok[0] == "kl":
            N, modes = size
            gamma, tau = KL_OPTS[ok[1]]
            self.n, self.fshape = modes, (N,)
            Bfull = np.zeros((N, N))
            for K in range(N):
                for i in range(N):
                    if i < N - 1:
                        Bfull[K, i] = np.sin(np.pi / N * (i + 1) * (K + 0.5)) / ((i + 1) ** gamma * tau)
                    else:
                        Bfull[K, i] = 0.5 * (-1) ** K / (N ** gamma * tau)
            B = Bfull[:, :modes]
            P = np.linalg.inv(Bfull)[:modes, :]
            self.B = B
            self.arg = G.KLExpansion(np.arange(N, dtype=float), decay_rate=gamma, normalizer=tau, num_modes=modes)
            if ok[2]:
                self.arg.gradient = lambda direction, wrt, B=B: B.T @ direction
            self._p2f, self._f2p = (lambda p: B @ p), (lambda f: P @ f)
        elif ok is not None and ok[0] == "klfull":
            # documented: f_K = std^2/pi * [ sum_{i<N-1} c_i p_i sin(pi/N (i+1)(K+1/2)) + (-1)^K/2 c_{N-1} p_{N-1} ],
            # c_i = (tau/(tau+i^2))^gamma, tau = 1/cor_len^2, gamma = nu+1
            N = size
            std, cor_len, nu = KLFULL_OPTS[ok[1]]
            tau2, gam = 1.0 / (cor_len * cor_len), nu + 1.0
            self.n, self.fshape = N, (N,)
            B = np.zeros((N, N))
            for K in range(N):
                for i in range(N):
                    c = (tau2 / (tau2 + i * i)) ** gam
                    if i < N - 1:
                        B[K, i] = std * std / np.pi * c * np.sin(np.pi / N * (i + 1) * (K + 0.5))
                    else:
                        B[K, i] = std * std / np.pi * c * 0.5 * (-1) ** K
            self.B = B
            self.arg = G.KLExpansion_Full(np.arange(N, dtype=float), std=std, cor_len=cor_len, nu=nu)
            if ok[2]:
                self.arg.gradient = lambda direction, wrt, B=B: B.T @ direction
            self._p2f, self._f2p = (lambda p: B @ p), None
        elif ok is not None and ok[0] == "ckl":
            # truncated KL expansion of a covariance kernel by the Nystrom method (2*trunc Gauss-Legendre nodes on the
            # grid's interval, which starts at 0): f = mean + Phi diag(sqrt(lambda)) p
            N, trunc = size
            mean, std, length = CKL_OPTS[ok[1]]
            self.n, self.fshape = trunc, (N,)
            grid = 0.5 * np.arange(N)
            self.arg = G.CustomKL(grid, mean=mean, std=std, trunc_term=trunc,
                                  cov_func=lambda x, y, s=std, l=length: s ** 2 * np.exp(-abs(x - y) / l))
            B = _ref_nystrom(grid, std, length, trunc, np.asarray(self.arg.eigvec, dtype=float))
            self.B = B
            if ok[2]:
                self.arg.gradient = lambda direction, wrt, B=B: B.T @ direction
            self._p2f, self._f2p = (lambda p: mean + B @ p), None
        elif ok is not None and ok[0] == "step":
            N, steps = size
            proj = STEP_OPTS[ok[1]]
            self.n, self.fshape = steps, (N,)
            S = np.zeros((N, steps))
            for t in range(N):          # integer grid 0..N-1: node t in step i iff i(N-1) < t*steps <= (i+1)(N-1)
                for i in range(steps):
                    if (t == 0 and i == 0) or (i * (N - 1) < t * steps <= (i + 1) * (N - 1)):
                        S[t, i] = 1.0
            cnt = S.sum(axis=0)
            self.S = S
            self.arg = G.StepExpansion(np.arange(N, dtype=float), n_steps=steps, fun2par_projection=proj)
            if ok[2]:
                self.arg.gradient = lambda direction, wrt, S=S: S.T @ direction
            if proj == "mean":
                f2p = lambda f: (S.T @ f) / cnt
            else:
                def f2p(f, S=S, proj=proj):
                    out = np.zeros(S.shape[1])
                    for i in range(S.shape[1]):
                        vals = [float(f[t]) for t in range(S.shape[0]) if S[t, i] == 1.0]
                        best = vals[0]
                        for v in vals[1:]:
                            if (proj == "max" and v > best) or (proj == "min" and v < best):
                                best = v
                        out[i] = best
                    return out
            self._p2f, self._f2p = (lambda p: S @ p), f2p
        else:  # user
            n = size
            W = refs.full_matrix(n + 1, n, k + 1) * 0.5
            Wp = np.linalg.pinv(W)
            self.n, self.fshape = n, (n + 1,)
            self.arg = _user_geometry_class()(W)
            self._p2f, self._f2p = (lambda p: W @ np.sinh(p)), (lambda f: np.arcsinh(Wp @ f))
        self.fdim = int(np.prod(self.fshape))
        # V: C-ordered function vector = V @ "natural" vector (parameter index for reshaping
        # geometries, the function vector itself for 1-D function spaces)
        if len(self.fshape) == 2:
            q = self._index.reshape(-1)
            V = np.zeros((self.fdim, self.n))
            V[np.arange(self.fdim), q] = 1.0
            self.V = V
        else:
            self.V = np.eye(self.fdim)

    def p2f(self, p):
        return self._p2f(np.asarray(p, dtype=float))

    def f2p(self, f):
        if self._f2p is None:
            raise AssertionError("harness: the geometry kind %s has no function-to-parameter map" % self.kind)
        return self._f2p(np.asarray(f, dtype=float))


def other_grid_geometry(shape):
    """A different-but-compatible identity-like geometry for arrays of the given shape: Continuous1D (resp.
    Continuous2D) on a grid with the same number of nodes as, but other coordinates than, every grid of the
    catalogue (those start at 0 or 1).  It never compares equal to a catalogue geometry."""
    import cuqi
    G = cuqi.geometry
    if len(shape) == 1:
        return G.Continuous1D(10.0 + 0.5 * np.arange(shape[0]))
    return G.Continuous2D((10.0 + 0.5 * np.arange(shape[0]), 20.0 + 0.5 * np.arange(shape[1])))


def int_point(n, k):
    """Integer-valued generic point with small non-zero entries (representable in every dtype of the dtype facet)."""
    base = [1, -2, 2, -1]
    return np.array([base[(i + k) % len(base)] for i in range(n)], dtype=float)


# ----------------------------------------------------------------------------------------------
# models
# ----------------------------------------------------------------------------------------------
MODELS = ["jac", "grad", "nograd", "lin_mat", "lin_fun", "pde_poisson", "pde_poisson_jac",
          "pde_poisson_vjp", "pde_heat_fe", "pde_heat_be"]
# derived models: members of the catalogue produced by the library's model-producing operations.  LinearModel.T is
# the only operation of cuqi/model/_model.py that returns a new model (besides model(distribution), which has its own
# check): "<linear kind>_T" is B.T of a base model B built from the transposed operator on the swapped spaces (so the
# catalogue member maps the cell's domain to the cell's range), "<linear kind>_TT" is (B.T).T of a base B : domain -> range.
DERIVED_MODELS = ["lin_mat_T", "lin_fun_T"]
DERIVED_MODELS_THOROUGH = ["lin_mat_TT", "lin_fun_TT"]
# PDE models with EXPLICIT, coinciding solution and observation grids (two separately constructed, equal arrays): the
# library then observes the solution itself (no interpolation, no observation map) - together with an identity-like
# range geometry nothing between the PDE solver's arrays and the caller makes a copy.  The models of MODELS leave both
# grids unspecified (which the library also treats as coinciding).  The grid acts on the range side only, so these kinds
# are crossed with every range kind whose function space is 1-D and a covering subset of domain kinds.
# "pde_heat_be_grid" also names its observation time explicitly (an array holding the final time) instead of 'final'.
GRID_MODELS = ["pde_poisson_grid", "pde_heat_fe_grid", "pde_heat_be_grid"]


def base_kind(name):
    """'lin_mat_T' -> ('lin_mat', 'T'); underived names -> (name, '')."""
    for suffix in ("_TT", "_T"):
        if name.endswith(suffix):
            return name[:-len(suffix)], suffix[1:]
    return name, ""


def needs_1d_function_spaces(name):
    return base_kind(name)[0] == "lin_mat"


def needs_1d_range(name):
    """PDE models with explicit grids observe on a 1-D grid: range geometries with a 1-D function space only."""
    return name in GRID_MODELS


def range_1d(rng):
    return _family(rng) != "2d" or rng == "image2d_vis"


def lin_mat_applicable(dom, rng):
    """lin_mat applies the matrix to the function values directly: only 1-D function spaces."""
    ok = lambda kd: _family(kd) != "2d" or kd == "image2d_vis"
    return ok(dom) and ok(rng)


class Built:
    pass


def build_model(name, gd, gr, k):
    """Returns Built with .model (library object), .f (dense function on plain function arrays:
    fun-shaped in, fun-shaped out), .has_grad (the user supplied derivative information)."""
    import cuqi
    out = Built()
    nf, mf = gd.fdim, gr.fdim
    dshape, rshape = gd.fshape, gr.fshape
    Vd, Vr = gd.V, gr.V
    A = 0.5 * refs.full_matrix(mf, nf, k)
    Bm = 0.25 * refs.full_matrix(mf, nf, k + 1)

    if name in ("jac", "grad", "nograd"):
        def forward(x):
            v = x.reshape(-1)
            return (A @ np.sin(v) + 0.5 * (Bm @ v) ** 2).reshape(rshape)

        def jacobian(x):
            v = x.reshape(-1)
            return Vr.T @ (A * np.cos(v) + (Bm @ v)[:, None] * Bm) @ Vd

        def gradient(direction, wrt):
            v = wrt.reshape(-1)
            d = direction.reshape(-1)
            return (d @ (A * np.cos(v)) + (d * (Bm @ v)) @ Bm).reshape(dshape)

        kw = {}
        if name == "jac":
            kw["jacobian"] = jacobian
        elif name == "grad":
            kw["gradient"] = gradient
        out.model = cuqi.model.Model(forward, range_geometry=gr.arg, domain_geometry=gd.arg, **kw)
        out.has_grad = name != "nograd"

        def f(xf):
            v = np.asarray(xf, float).reshape(-1)
            return (A @ np.sin(v) + 0.5 * (Bm @ v) ** 2).reshape(rshape)
        out.f = f
        return out

    bname, derivation = base_kind(name)
    if derivation:
        # the reference operator is the same dense Al : domain function values -> range function values
        Al = refs.full_matrix(mf, nf, k)
        AlT = np.array([[Al[i, j] for i in range(mf)] for j in range(nf)])
        if derivation == "T":
            # base model B : (cell range) -> (cell domain), B = Al^T; the catalogue member is B.T
            def b_forward(y):
                return (AlT @ y.reshape(-1)).reshape(dshape)

            def b_adjoint(x):
                return (Al @ x.reshape(-1)).reshape(rshape)
            bmat, brange, bdomain = AlT, gd.arg, gr.arg
        else:
            # base model B : (cell domain) -> (cell range), B = Al; the catalogue member is (B.T).T
            def b_forward(x):
                return (Al @ x.reshape(-1)).reshape(rshape)

            def b_adjoint(y):
                return (AlT @ y.reshape(-1)).reshape(dshape)
            bmat, brange, bdomain = Al, gr.arg, gd.arg
        if bname == "lin_mat":
            B = cuqi.model.LinearModel(bmat.copy(), range_geometry=brange, domain_geometry=bdomain)
        elif bname == "lin_inferred":
            B = cuqi.model.LinearModel(bmat.copy())
        else:
            B = cuqi.model.LinearModel(b_forward, b_adjoint, range_geometry=brange, domain_geometry=bdomain)
        out.base = B
        out.derivation = "T" if derivation == "T" else "T.T"
        if derivation == "T":
            out.expect = (B.range_geometry, B.domain_geometry)      # (domain, range) of the derived model
        else:
            out.expect = (B.domain_geometry, B.range_geometry)
        try:
            out.model = B.T if derivation == "T" else B.T.T
        except Exception as e:  # noqa  judged by the check (no refusal is documented for the transpose)
            out.model, out.error = None, e
        out.has_grad = True
        out.f = lambda xf: (Al @ np.asarray(xf, float).reshape(-1)).reshape(rshape)
        out.fT = lambda yf: (AlT @ np.asarray(yf, float).reshape(-1)).reshape(dshape)
        return out

    if name in ("lin_mat", "lin_fun", "lin_inferred"):
        Al = refs.full_matrix(mf, nf, k)
        if name == "lin_mat":
            out.model = cuqi.model.LinearModel(Al.copy(), range_geometry=gr.arg, domain_geometry=gd.arg)
        elif name == "lin_inferred":
            out.model = cuqi.model.LinearModel(Al.copy())
        else:
            def forward(x):
                return (Al @ x.reshape(-1)).reshape(rshape)

            def adjoint(y):
                return (Al.T @ y.reshape(-1)).reshape(dshape)
            out.model = cuqi.model.LinearModel(forward, adjoint, range_geometry=gr.arg, domain_geometry=gd.arg)
        out.has_grad = True
        out.f = lambda xf: (Al @ np.asarray(xf, float).reshape(-1)).reshape(rshape)
        # dense adjoint on plain function arrays (range fun-shaped in, domain fun-shaped out), transposed index by index
        AlT = np.array([[Al[i, j] for i in range(mf)] for j in range(nf)])
        out.fT = lambda yf: (AlT @ np.asarray(yf, float).reshape(-1)).reshape(dshape)
        return out

    # ---- PDE based -------------------------------------------------------------------------
    M = mf
    h = 1.0 / (M + 1)
    D = refs.fd1_1d(M, "zero")                      # (M+1) x M
    obs_map = None if len(rshape) == 1 else (lambda u: u.reshape(rshape))
    grids = {}
    if name in GRID_MODELS:
        if len(rshape) != 1:
            raise ValueError("explicit observation grids need a 1-D range function space")
        # interior nodes of (0, 1); solution grid and observation grid are equal arrays, not one object
        grids = {"grid_sol": np.array([h * (i + 1) for i in range(M)]), "grid_obs": h * np.arange(1, M + 1)}
        name = name[:-len("_grid")]

    if name.startswith("pde_poisson"):
        Pi = 0.125 * refs.full_matrix(M + 1, nf, k)
        b = 1.0 + 0.5 * refs.dyadic_vec(M, k + 1)

        def PDE_form(x):
            kappa = np.exp(Pi @ x.reshape(-1))
            return (D.T * kappa) @ D / h ** 2, b

        def jac_C(wrt):
            v = np.asarray(wrt, float).reshape(-1)
            kappa = np.exp(Pi @ v)
            Aop = (D.T * kappa) @ D / h ** 2
            u = np.linalg.solve(Aop, b)
            cols = []
            for j in range(nf):
                dA = (D.T * (kappa * Pi[:, j])) @ D / h ** 2
                cols.append(-np.linalg.solve(Aop, dA @ u))
            return np.array(cols).T                 # M x nf, C-ordered function indices

        class _JacPDE(cuqi.pde.SteadyStateLinearPDE):
            def jacobian_wrt_parameter(self, wrt):
                return Vr.T @ jac_C(wrt) @ Vd

        class _VjpPDE(cuqi.pde.SteadyStateLinearPDE):
            def gradient_wrt_parameter(self, direction, wrt):
                return (direction.reshape(-1) @ jac_C(wrt)).reshape(dshape)

        cls = {"pde_poisson": cuqi.pde.SteadyStateLinearPDE, "pde_poisson_jac": _JacPDE,
               "pde_poisson_vjp": _VjpPDE}[name]
        pde = cls(PDE_form, observation_map=obs_map, **grids)
        out.model = cuqi.model.PDEModel(pde, range_geometry=gr.arg, domain_geometry=gd.arg)
        out.has_grad = name != "pde_poisson"

        def f(xf):
            v = np.asarray(xf, float).reshape(-1)
            kappa = np.exp(Pi @ v)
            Aop = D.T @ np.diag(kappa) @ D / h ** 2
            return np.linalg.solve(Aop, b).reshape(rshape)
        out.f = f
        return out

    if name.startswith("pde_heat"):
        method = "forward_euler" if name.endswith("fe") else "backward_euler"
        Lap = -(D.T @ D) / h ** 2
        dt = 0.25 * h ** 2
        nt = 4
        steps = dt * np.arange(nt)
        Sm = 0.5 * refs.full_matrix(M, nf, k + 2)
        src = 0.5 * refs.dyadic_vec(M, k + 2)

        def PDE_form(x, t):
            w = Sm @ x.reshape(-1)
            return Lap, src, w + 0.25 * w ** 2

        if grids and method == "backward_euler":
            grids["time_obs"] = np.array([dt * (nt - 1)])       # the final time, named explicitly
        pde = cuqi.pde.TimeDependentLinearPDE(PDE_form, steps, method=method, observation_map=obs_map, **grids)
        out.model = cuqi.model.PDEModel(pde, range_geometry=gr.arg, domain_geometry=gd.arg)
        out.has_grad = False

        def f(xf):
            w = Sm @ np.asarray(xf, float).reshape(-1)
            u = w + 0.25 * w ** 2
            I = np.eye(M)
            for _ in range(nt - 1):
                if method == "forward_euler":
                    u = u + dt * (Lap @ u + src)
                else:
                    u = np.linalg.solve(I - dt * Lap, u + dt * src)
            return u.reshape(rshape)
        out.f = f
        return out
    raise ValueError(name)
