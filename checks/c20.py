"""C20 - difference operators and the MRF priors built on them have the documented structure.

E3 configuration explorer: full product (physical_dim x N x bc x order x dx), every operator is
compared as a whole matrix (= applied to the complete basis) with a dense reference built row by
row from the index formulas; the priors are evaluated on the basis + a generic point with a
non-zero location and compared with the reference density of the reference stencil.
"""
import numpy as np
from vfw.core import CellResult, close
from vfw import refs

PROPERTY = "C20"
RULE = ("configuration cells = physical_dim x N x bc x order x dx (full product inside the bound) + history cells = all sequences (length <= 3, thorough 4) of hyper-parameter/location assignments and reads on one live prior object; every cell compares the "
        "whole operator matrix (complete basis) and the GMRF/LMRF/CMRF log-densities on basis+generic points "
        "with a dense index-formula reference; + size cells = pd x N x order (zero boundary) x prec=2^pk, pk in {-12,0,12}: reported rank / "
        "log-determinant and the NORMALISED log-density at a generic point with non-zero mean against a reference that never forms "
        "a determinant (sum of logs of the Kronecker-sum eigenvalues of the 1-D reference stencil); a cell is non-trivial when the operator was constructed "
        "(not refused) and has at least one off-diagonal stencil entry or a prior was evaluated")
BOUND = {"quick": "1-D N=2..9, 2-D NxN N=2..4, bc in {zero,periodic,neumann,backward,none}, order 0..2, dx in {1,0.5}; size cells: zero boundary, order 1..2, 1-D N in {9,600,2000}, 2-D NxN N in {4,24,40}, prec in {2^-12,1,2^12}",
         "thorough": "1-D N=2..40, 2-D NxN N=2..9, same options, 3 generic points per cell; size cells additionally 2-D 64x64"}
ASSUMPTIONS = [
    "the Gaussian field is also constructed with the boundary conditions it does not document ('backward', 'none'): a refusal is "
    "accepted, an accepted field must report rank / log-determinant / square root of the precision it has; other spellings of "
    "a boundary-condition string (upper case, capitalised, trailing blank, an unknown word) must be refused or give the object "
    "of the canonical spelling",
    "a block of K column vectors handed to LMRF/CMRF logpdf (zero / scalar location) is refused or answered with the K "
    "per-column values; the Gaussian field refuses blocks (a square block is accidentally broadcast) and is not judged there",
    "the 'backward' boundary rows are undocumented: rows are compared up to a per-row sign, D^T D exactly",
    "periodic stencils wider than the grid (order 2, N=2) are outside the documented range and skipped",
    "regularised (sqrt(eps)) Cholesky factors of singular precisions are compared at 1e-5 relative",
    "numpy dense linear algebra (eigvalsh, slogdet, svd) is the trusted base of the reference",
    "size cells cover the zero boundary only: for periodic / neumann the field computes dim-1 eigenvalues with ARPACK (dim <= "
    "MAX_DIM_INV), unaffordable at these sizes, and above MAX_DIM_INV its log-determinant is a documented approximation; the "
    "size-cell reference uses eig(I(x)P1 + P1(x)I) = {w_i + w_j} and w = singular values of the 1-D stencil squared, compared at 1e-7",
]

BCS = ["zero", "periodic", "neumann", "backward", "none"]


def cells(tier, seed):
    n1 = range(2, 10) if tier == "quick" else range(2, 41)
    n2 = range(2, 5) if tier == "quick" else range(2, 10)
    for pd, rng in ((1, n1), (2, n2)):
        for N in rng:
            for bc in BCS:
                for order in (0, 1, 2):
                    for dx in ((1.0, 0.5) if pd == 1 else (1.0,)):
                        yield {"pd": pd, "N": N, "bc": bc, "order": order, "dx": dx, "cat": refs.cat(seed),
                               "npts": 1 if tier == "quick" else 3}
    for c in _hist_cells(tier, seed):
        yield c
    for c in _size_cells(tier, seed):
        yield c


SIZE_PK = (-12, 0, 12)


def _size_cells(tier, seed):
    """Size facet: the normalised log-density of the zero-boundary Gaussian field at sizes where a determinant / product of
    pivots / prec**rank leaves the double range, with prec = 2^pk (all pk inside one cell)."""
    n1 = (9, 600, 2000)
    n2 = (4, 24, 40) if tier == "quick" else (4, 24, 40, 64)
    for pd, rng in ((1, n1), (2, n2)):
        for N in rng:
            for order in (1, 2):
                yield {"size": 1, "pd": pd, "N": N, "bc": "zero", "order": order, "cat": refs.cat(seed)}


def eval_size(cell):
    """Reference never forms a determinant: eigenvalues of the 1-D precision = squared singular values of the 1-D reference
    stencil; the 2-D precision is the Kronecker sum I(x)P1 + P1(x)I with eigenvalues w_i + w_j; log-determinant = sum of logs;
    quadratic form = |D1 X|_F^2 + |X D1^T|_F^2 (X = the field as N x N array)."""
    import cuqi
    res = CellResult(cell)
    pd, N, bc, order, k = cell["pd"], cell["N"], cell["bc"], cell["order"], cell["cat"]
    dim = N if pd == 1 else N * N
    facet = "pd=%d,bc=%s,order=%d" % (pd, bc, order)
    D1 = refs.fd_ref(N, bc, order, 1)
    w1 = np.linalg.svd(D1, compute_uv=False) ** 2
    if w1.size != N or w1.min() <= 0:
        raise AssertionError("harness self-check: zero-boundary 1-D stencil must have full column rank (%s)" % (cell,))
    w = w1 if pd == 1 else (w1[:, None] + w1[None, :]).ravel()
    ld_ref = float(np.sum(np.log(w)))
    mean = refs.dyadic_vec(dim, k + 2, scale=0.125)
    x = refs.dyadic_vec(dim, k + 4, scale=0.25)
    r = x - mean
    if pd == 1:
        q = float(np.sum((D1 @ r) ** 2))
    else:
        X = r.reshape(N, N)
        q = float(np.sum((D1 @ X) ** 2) + np.sum((X @ D1.T) ** 2))
    for pk in SIZE_PK:
        prec = 2.0 ** pk
        res.transitions += 1
        res.state("size-pk=%d" % pk)
        try:
            g = cuqi.distribution.GMRF(mean, prec, bc_type=bc, order=order, geometry=_geom(pd, N))
            ld = float(g._logdet)
            rank = int(g._rank)
            v = float(np.asarray(g.logpdf(x)).ravel()[0])
        except Exception as e:
            res.fail("C20|GMRF|size-construct|%s" % facet, "documented field of %d nodes with prec=2^%d raised %r" % (dim, pk, e))
            continue
        res.evaluations += 1
        res.traces += 1
        if rank != dim or not (np.isfinite(ld) and close(ld, ld_ref, 1e-7)):
            res.fail("C20|GMRF|size-logdet|%s" % facet, "field of %d nodes reports rank %r / logdet %r; its precision has rank %d and "
                     "log-determinant %r (sum of logs of the Kronecker-sum eigenvalues)" % (dim, rank, ld, dim, ld_ref))
            continue
        ref = 0.5 * (dim * (pk * np.log(2.0) - refs.LOG2PI) + ld_ref) - 0.5 * prec * q
        if not (np.isfinite(v) and close(v, ref, 1e-7)):
            res.fail("C20|GMRF|size-logpdf|%s" % facet, "normalised logpdf of a field of %d nodes with prec=2^%d is %r, reference %r"
                     % (dim, pk, v, ref))
        res.outcomes.add("size:%s:N=%d:pk=%d:%.6g" % (facet, N, pk, v))
    res.sample = {"reference_logdet": ld_ref, "quadratic_form": q, "dim": dim}
    return res


def _hist_cells(tier, seed):
    """E1 part: all attribute-assignment / read sequences on ONE live prior object (non-initial states)."""
    for fam in ("GMRF", "LMRF", "CMRF"):
        for pd, N in ((1, 4), (2, 2)) if tier == "quick" else ((1, 3), (1, 6), (2, 2), (2, 3)):
            for bc in ("zero", "neumann", "periodic"):
                for order in ((1, 2) if fam == "GMRF" else (1,)):
                    if bc != "zero" and order == 2:
                        continue      # rank/log-determinant known findings live in the configuration cells
                    yield {"hist": fam, "pd": pd, "N": N, "bc": bc, "order": order, "cat": refs.cat(seed),
                           "depth": 3 if tier == "quick" else 4}


def _dense(M):
    return np.asarray(M.todense()) if hasattr(M, "todense") else np.asarray(M)


def _geom(pd, N):
    import cuqi
    return N if pd == 1 else cuqi.geometry.Image2D((N, N))


def eval_hist(cell):
    """All sequences (length <= depth) of {assign hyper-parameter, assign location/mean, read sqrtprec, evaluate} on one
    live object; after every step the object must agree with the reference model of the values assigned so far."""
    import itertools
    import cuqi
    res = CellResult(cell)
    fam, pd, N, bc, order, k = cell["hist"], cell["pd"], cell["N"], cell["bc"], cell["order"], cell["cat"]
    dim = N if pd == 1 else N * N
    D = refs.fd_ref(N, bc, order, pd)
    P = D.T @ D
    facet = "pd=%d,bc=%s,order=%d" % (pd, bc, order)
    hv = [[2.0, 0.5], [0.25, 3.0], [1.5, 4.0]][k]
    locs = [refs.dyadic_vec(dim, k + 1, scale=0.125), np.zeros(dim)]
    x = refs.dyadic_vec(dim, k + 5, scale=0.25)
    hname = "prec" if fam == "GMRF" else "scale"
    lname = "mean" if fam == "GMRF" else "location"
    ops = [("set-%s" % hname, 0), ("set-%s" % hname, 1), ("set-%s" % lname, 0), ("set-%s" % lname, 1), ("read", None), ("eval", None)]
    if fam == "GMRF":
        ops.append(("draw", None))        # one draw from the field (its own mean/precision must not move)

    def build():
        cls = getattr(cuqi.distribution, fam)
        if fam == "GMRF":
            return cls(np.zeros(dim), 1.0, bc_type=bc, order=order, geometry=_geom(pd, N)), {"h": 1.0, "l": np.zeros(dim)}
        return cls(np.zeros(dim), 1.0, bc_type=bc, geometry=_geom(pd, N)), {"h": 1.0, "l": np.zeros(dim)}

    def ref_logd(model):
        r = x - model["l"]
        if fam == "GMRF":
            return -0.5 * model["h"] * float(r @ P @ r)          # up to the constant
        Dx = D @ r
        if fam == "LMRF":
            return float(np.sum(-np.log(2 * model["h"]) - np.abs(Dx) / model["h"]))
        return float(np.sum(np.log(model["h"] / np.pi) - np.log(Dx ** 2 + model["h"] ** 2)))

    def observe(obj, model, hist):
        """Invariants of the live object against the reference model of the assigned values."""
        v = float(np.asarray(obj.logpdf(x)).ravel()[0])
        v0 = float(np.asarray(obj.logpdf(model["l"])).ravel()[0])
        if fam == "GMRF":
            ok = close(v - v0, ref_logd(model), 1e-8)      # constant-free
        else:
            ok = close(v, ref_logd(model), 1e-9)
        if not ok:
            res.fail("C20|%s|logpdf-after-assignment|%s" % (fam, facet), "after %s the log-density is not that of the assigned "
                     "%s/%s through the documented operator" % (hist, hname, lname), focus={"history": hist})
            return False
        if fam == "GMRF":
            S = _dense(obj.sqrtprec)
            if not close(S.T @ S, model["h"] * P, 1e-5):
                res.fail("C20|GMRF|sqrtprec-after-assignment|%s" % facet, "after %s sqrtprec^T sqrtprec is not prec * precision "
                         "operator of the CURRENT prec=%r" % (hist, model["h"]), focus={"history": hist})
                return False
            sm = np.asarray(obj.sqrtprecTimesMean).ravel()
            if not close(sm, S @ model["l"], 1e-8) or not close(sm @ sm, model["h"] * float(model["l"] @ P @ model["l"]), 1e-5):
                res.fail("C20|GMRF|sqrtprecTimesMean-after-assignment|%s" % facet, "after %s sqrtprecTimesMean is not sqrtprec @ "
                         "current mean" % (hist,), focus={"history": hist})
                return False
        return True

    try:
        build()
    except Exception as e:
        res.refused += 1
        res.transitions += 1
        res.state("refused")
        res.nontrivial = False
        res.outcomes.add("refused:" + type(e).__name__)
        return res
    for L in range(1, cell["depth"] + 1):
        for seq in itertools.product(range(len(ops)), repeat=L):
            if ops[seq[-1]][0] in ("read", "eval", "draw") and L > 1 and ops[seq[-2]][0] == ops[seq[-1]][0]:
                continue        # repeated read-only step adds nothing
            obj, model = build()
            hist = []
            good = True
            for oi in seq:
                name, arg = ops[oi]
                hist.append(name if arg is None else "%s[%d]" % (name, arg))
                res.transitions += 1
                if name == "read":
                    if fam == "GMRF":
                        _ = obj.sqrtprec
                        _ = obj.sqrtprecTimesMean
                    else:
                        _ = obj.logpdf(x)
                elif name == "eval":
                    _ = obj.logpdf(x)
                elif name == "draw":
                    try:
                        obj.sample(1, rng=np.random.RandomState(2))
                        obj.sample(2, rng=np.random.RandomState(3))
                    except Exception:
                        pass
                elif name == "set-" + hname:
                    setattr(obj, hname, hv[arg])
                    model["h"] = hv[arg]
                else:
                    setattr(obj, lname, locs[arg])
                    model["l"] = locs[arg]
                res.state((round(model["h"], 6), tuple(np.round(model["l"], 6))))
                if not observe(obj, model, list(hist)):
                    good = False
                    break
            res.traces += 1
            res.evaluations += 1
            if not good:
                res.outcomes.add("hist-fail")
                return res
    res.outcomes.add("hist:%s:%s" % (fam, facet))
    res.sample = {"history": hist, "final_model": {"h": model["h"], "l": model["l"]}}
    return res


def eval_cell(cell):
    if "hist" in cell:
        return eval_hist(cell)
    if "size" in cell:
        return eval_size(cell)
    import cuqi
    from cuqi.operator import FirstOrderFiniteDifference, SecondOrderFiniteDifference, PrecisionFiniteDifference
    res = CellResult(cell)
    pd, N, bc, order, dx, k = cell["pd"], cell["N"], cell["bc"], cell["order"], cell["dx"], cell["cat"]
    dim = N if pd == 1 else N * N
    num_nodes = N if pd == 1 else (N, N)
    facet = "pd=%d,bc=%s,order=%d" % (pd, bc, order)
    wide = (bc == "periodic" and order == 2 and N < 3) or (bc == "neumann" and N - order < 1 and order > 0)
    if wide:
        res.nontrivial = False
        res.state("skipped-stencil-wider-than-grid")
        res.transitions += 1
        res.outcomes.add("skip")
        return res
    Dref = refs.fd_ref(N, bc, order, pd, dx) if not (order == 2 and bc in ("backward", "none")) else None

    # ---- 1. the difference operators themselves -----------------------------------------
    if order in (1, 2):
        cls = FirstOrderFiniteDifference if order == 1 else SecondOrderFiniteDifference
        name = cls.__name__
        try:
            op = cls(num_nodes, bc_type=bc, dx=(dx if pd == 1 else None))
            D = _dense(op.get_matrix())
        except Exception as e:  # refused
            op = None
            res.refused += 1
            res.outcomes.add("op-refused:" + type(e).__name__)
            if Dref is not None and pd == 1 or (Dref is not None and dx == 1.0):
                res.fail("C20|%s|construct|%s" % (name, facet), "documented operator refused: %r" % (e,))
        if op is not None and Dref is not None:
            res.state("op")
            res.evaluations += 1
            res.traces += 1
            if D.shape != Dref.shape:
                res.fail("C20|%s|matrix-shape|%s" % (name, facet), "shape %s != reference %s" % (D.shape, Dref.shape))
            else:
                if bc == "backward":
                    ok = all(close(D[r], Dref[r], 1e-12) or close(D[r], -Dref[r], 1e-12) for r in range(D.shape[0]))
                else:
                    ok = close(D, Dref, 1e-12)
                if not ok:
                    bad = np.argwhere(~np.isclose(D, Dref, atol=1e-12))
                    res.fail("C20|%s|matrix|%s" % (name, facet),
                             "operator differs from documented stencil at entries %s" % bad[:4].tolist(),
                             impl=D, ref=Dref)
                # applied to every basis vector (matrix-vector path) and a batch
                E = np.eye(dim)
                for i in range(dim):
                    res.transitions += 1
                    col = np.asarray(op @ E[:, i]).ravel()
                    if not close(col, D[:, i], 1e-12):
                        res.fail("C20|%s|matvec|%s" % (name, facet), "op @ e_%d differs from matrix column" % i)
                        break
                res.outcomes.add("op:%s" % (D.shape,))
            if pd == 2:
                # documented Kronecker stacking of the *implementation's own* 1-D operator
                op1 = cls(N, bc_type=bc)
                D1 = _dense(op1.get_matrix())
                I = np.eye(N)
                K = np.vstack([np.kron(I, D1), np.kron(D1, I)])
                res.evaluations += 1
                res.traces += 1
                if K.shape != D.shape or not close(K, D, 1e-12):
                    res.fail("C20|%s|kron|%s" % (name, facet), "2-D operator is not [I(x)D ; D(x)I] of the 1-D operator")
    if order == 2 and bc in ("backward", "none"):
        res.nontrivial = False
        res.transitions += 1
        res.state("order2-undefined-bc")
        return res
    if dx != 1.0:
        return res

    # ---- 2. precision operator ------------------------------------------------------------
    Pref = Dref.T @ Dref
    ld_ref, rank_ref, w = refs.pseudo_logdet_rank(Pref)
    null_exp = refs.expected_nullity(N, bc, order, pd)
    if dim - rank_ref != null_exp:
        raise AssertionError("harness self-check: reference nullity %d != stated %d for %s" % (dim - rank_ref, null_exp, cell))
    try:
        pop = PrecisionFiniteDifference(num_nodes, bc_type=bc, order=order)
        P = _dense(pop.get_matrix())
    except Exception as e:
        pop = None
        res.refused += 1
        res.outcomes.add("prec-refused:" + type(e).__name__)
    if pop is not None:
        res.state("prec")
        res.evaluations += 1
        res.traces += 1
        res.transitions += dim
        if P.shape != Pref.shape or not close(P, Pref, 1e-12):
            res.fail("C20|PrecisionFiniteDifference|matrix|%s" % facet, "precision != D^T D of documented stencil", impl=P, ref=Pref)
        else:
            if not close(P, P.T, 1e-13):
                res.fail("C20|PrecisionFiniteDifference|symmetry|%s" % facet, "precision not symmetric")
            wi = np.linalg.eigvalsh((P + P.T) / 2)
            if wi.min() < -1e-9 * max(1, abs(wi).max()):
                res.fail("C20|PrecisionFiniteDifference|psd|%s" % facet, "negative eigenvalue %g" % wi.min())
            nul = int(np.sum(wi <= 1e-9 * max(1, abs(wi).max())))
            if nul != null_exp:
                res.fail("C20|PrecisionFiniteDifference|nullspace|%s" % facet, "null space dim %d, boundary condition implies %d" % (nul, null_exp))
            # the implied null vectors are annihilated
            for v in _null_vectors(N, bc, order, pd):
                res.transitions += 1
                if not close(P @ v, np.zeros(dim), 1e-10, atol=1e-9):
                    res.fail("C20|PrecisionFiniteDifference|nullvector|%s" % facet, "implied null vector not annihilated")
        res.outcomes.add("prec-null=%d" % null_exp)

    # ---- 3. the priors ---------------------------------------------------------------------
    pts = _points(dim, k, cell["npts"])
    loc = refs.dyadic_vec(dim, k + 2, scale=0.125)
    # the Gaussian field documents zero / periodic / neumann only: with the other boundary conditions the operators accept
    # ('backward', 'none') it must refuse, or report the rank / log-determinant / square root of the precision it then has
    _check_gmrf(res, cell, facet, Pref, ld_ref, rank_ref, pts, loc)
    if cell["dx"] == 1.0 and N <= 3:
        _check_bc_spellings(res, cell, facet)
    if order == 1:
        _check_lmrf_cmrf(res, cell, facet, Dref, pts, loc)
    return res


def _null_vectors(N, bc, order, pd):
    if order == 0 or bc in ("zero", "backward", "none"):
        return []
    one = np.ones(N)
    ramp = np.arange(N, dtype=float)
    if pd == 1:
        vs = [one]
        if bc == "neumann" and order == 2:
            vs.append(ramp)
        return vs
    vs = [np.kron(one, one)]
    if bc == "neumann" and order == 2:
        vs += [np.kron(one, ramp), np.kron(ramp, one), np.kron(ramp, ramp)]
    return vs


def _points(dim, k, npts):
    pts = [np.zeros(dim)] + [np.eye(dim)[:, i] for i in range(dim)]
    for j in range(npts):
        pts.append(refs.dyadic_vec(dim, k + 3 * j))
    return pts


def _check_gmrf(res, cell, facet, Pref, ld_ref, rank_ref, pts, loc):
    import cuqi
    pd, N, k = cell["pd"], cell["N"], cell["cat"]
    dim = Pref.shape[0]
    prec = [2.0, 0.5, 3.0][k]
    for mean_kind, mean in (("zero", np.zeros(dim)), ("vector", loc), ("scalar", 0.75)):
        try:
            g = cuqi.distribution.GMRF(mean if mean_kind != "scalar" else mean * np.ones(dim), prec,
                                        bc_type=cell["bc"], order=cell["order"], geometry=_geom(pd, N))
        except Exception as e:
            res.refused += 1
            res.outcomes.add("gmrf-refused:" + type(e).__name__)
            return
        m = np.broadcast_to(mean, (dim,)).astype(float)
        res.state("gmrf-" + mean_kind)
        vals, refq = [], []
        for x in pts:
            res.transitions += 1
            try:
                vals.append(float(np.asarray(g.logpdf(x)).ravel()[0]))
            except Exception as e:
                res.fail("C20|GMRF|logpdf-raises|%s" % facet, "logpdf raised %r" % (e,))
                return
            r = x - m
            refq.append(-0.5 * prec * float(r @ Pref @ r))
        vals, refq = np.array(vals), np.array(refq)
        res.evaluations += 1
        res.traces += 1
        if not np.all(np.isfinite(vals)) and not np.isfinite(g._logdet):
            res.fail("C20|GMRF|rank-logdet|%s" % facet, "reported logdet %r makes every logpdf non-finite (precision has "
                     "pseudo-log-determinant %r)" % (g._logdet, ld_ref))
            continue
        # (a) quadratic form through the documented operator (constant-free: differences to first point)
        if not close(vals - vals[0], refq - refq[0], 1e-9):
            res.fail("C20|GMRF|quadratic-form|%s,mean=%s" % (facet, mean_kind),
                     "logpdf differences are not -prec/2 (x-mean)^T D^T D (x-mean)", impl=vals - vals[0], ref=refq - refq[0])
        # (b) rank and log-determinant reported/used by the field
        if mean_kind == "zero":
            if int(g._rank) != rank_ref:
                res.fail("C20|GMRF|rank-logdet|%s" % facet, "reported rank %s, precision has rank %d" % (g._rank, rank_ref))
            if not (np.isfinite(g._logdet) and close(g._logdet, ld_ref, 1e-5)):
                res.fail("C20|GMRF|rank-logdet|%s" % facet, "reported logdet %r, pseudo-log-determinant of the precision is %r" % (g._logdet, ld_ref))
            const_ref = 0.5 * (rank_ref * (np.log(prec) - refs.LOG2PI) + ld_ref)
            if np.isfinite(vals[0]) and int(g._rank) == rank_ref and close(g._logdet, ld_ref, 1e-5):
                if not close(vals[0] - refq[0], const_ref, 1e-5):
                    res.fail("C20|GMRF|constant|%s" % facet, "normalising constant %r != %r" % (vals[0] - refq[0], const_ref))
            # (c) square-root precision
            try:
                S = _dense(g.sqrtprec)
                res.transitions += dim
                if not close(S.T @ S, prec * Pref, 1e-5):
                    res.fail("C20|GMRF|sqrtprec|%s" % facet, "sqrtprec^T sqrtprec != prec * precision operator")
                sm = np.asarray(g.sqrtprecTimesMean).ravel()
            except Exception as e:
                res.fail("C20|GMRF|sqrtprec-raises|%s" % facet, "sqrtprec raised %r" % (e,))
        res.outcomes.add("gmrf:%s:%.6g" % (mean_kind, vals[-1]))
        # the exact log-determinant is used for every dimension up to AND INCLUDING cuqi.config.MAX_DIM_INV
        # (above it the documented behaviour is an approximation, which is not judged)
        if mean_kind == "zero" and cell["bc"] != "zero" and cell["order"] == 1 and dim <= 16:
            old_max = cuqi.config.MAX_DIM_INV
            try:
                for thr in (dim, dim + 1):
                    cuqi.config.MAX_DIM_INV = thr
                    g2 = cuqi.distribution.GMRF(np.zeros(dim), prec, bc_type=cell["bc"], order=1, geometry=_geom(pd, N))
                    res.transitions += 1
                    res.evaluations += 1
                    if not (np.isfinite(g2._logdet) and close(g2._logdet, ld_ref, 1e-5)):
                        res.fail("C20|GMRF|rank-logdet|%s,dim=MAX_DIM_INV%s" % (facet, "" if thr == dim else "-1"),
                                 "with cuqi.config.MAX_DIM_INV=%d a field of dimension %d reports logdet %r, the pseudo-log-"
                                 "determinant of its precision is %r" % (thr, dim, g2._logdet, ld_ref))
            finally:
                cuqi.config.MAX_DIM_INV = old_max
    if res.sample is None:
        res.sample = {"gmrf_logpdf_at_generic_point": float(vals[-1]), "reference_rank": rank_ref,
                      "reference_logdet": ld_ref}


def _check_lmrf_cmrf(res, cell, facet, Dref, pts, loc):
    import cuqi
    pd, N, k, bc = cell["pd"], cell["N"], cell["cat"], cell["bc"]
    dim = Dref.shape[1]
    scale = [0.5, 2.0, 0.25][k]
    for fam in ("LMRF", "CMRF"):
        for loc_kind, L in (("zero", np.zeros(dim)), ("vector", loc), ("scalar", 0.5 * np.ones(dim))):
            try:
                cls = getattr(cuqi.distribution, fam)
                arg = L if loc_kind != "scalar" else 0.5
                d = cls(arg, scale, bc_type=bc, geometry=_geom(pd, N))
            except Exception as e:
                res.refused += 1
                res.outcomes.add("%s-refused:%s" % (fam, type(e).__name__))
                continue
            res.state("%s-%s" % (fam, loc_kind))
            for x in pts:
                res.transitions += 1
                Dx = Dref @ (x - L)
                if fam == "LMRF":
                    ref = float(np.sum(-np.log(2 * scale) - np.abs(Dx) / scale))
                else:
                    ref = float(np.sum(np.log(scale / np.pi) - np.log(Dx ** 2 + scale ** 2)))
                try:
                    v = float(np.asarray(d.logpdf(x)).ravel()[0])
                except Exception as e:
                    res.fail("C20|%s|logpdf-raises|%s,loc=%s" % (fam, facet, loc_kind), "logpdf raised %r" % (e,))
                    break
                if not close(v, ref, 1e-9):
                    res.fail("C20|%s|logpdf|%s,loc=%s" % (fam, facet, loc_kind),
                             "logpdf %r != sum of documented %s log-densities of D(x-loc) = %r" % (v, fam[0], ref), x=x)
                    break
            if loc_kind != "vector":       # (a vector location does not broadcast against a block in a defined way)
                _check_block(res, d, fam, facet + ",loc=%s" % loc_kind, pts)
            res.evaluations += 1
            res.traces += 1
            res.outcomes.add("%s:%s" % (fam, loc_kind))


def _check_block(res, d, fam, facet, pts):
    """A block of K column vectors handed to logpdf: refused, or one number per column, each that column's own value."""
    X = np.column_stack(pts[-3:]) if len(pts) >= 3 else None
    if X is None or X.shape[1] < 2:
        return
    res.transitions += 1
    try:
        single = [float(np.asarray(d.logpdf(X[:, i])).ravel()[0]) for i in range(X.shape[1])]
        b = np.asarray(d.logpdf(X), dtype=float).ravel()
    except Exception as e:
        res.refused += 1
        res.outcomes.add("%s:block-refused:%s" % (fam, type(e).__name__))
        return
    if b.size != X.shape[1] or not close(b, np.array(single), 1e-9):
        res.fail("C20|%s|logpdf-block|%s" % (fam, facet.split(",loc=")[0].split(",order")[0]),
                 "logpdf of a block of %d column vectors returned %s: neither a refusal nor the per-column values %s"
                 % (X.shape[1], b[:4], np.array(single)))
    else:
        res.outcomes.add("%s:block-per-column" % fam)


def _check_bc_spellings(res, cell, facet):
    """Boundary-condition strings in other spellings: refused, or the same object as the canonical spelling gives."""
    import cuqi
    pd, N, bc, order = cell["pd"], cell["N"], cell["bc"], cell["order"]
    dim = N if pd == 1 else N * N
    x = refs.dyadic_vec(dim, cell["cat"] + 1)
    for fam in ("GMRF", "LMRF", "CMRF"):
        if fam != "GMRF" and order != 1:
            continue

        def build(b):
            if fam == "GMRF":
                return cuqi.distribution.GMRF(np.zeros(dim), 2.0, bc_type=b, order=order, geometry=_geom(pd, N))
            return getattr(cuqi.distribution, fam)(np.zeros(dim), 0.5, bc_type=b, geometry=_geom(pd, N))
        try:
            ref = float(np.asarray(build(bc).logpdf(x)).ravel()[0])
        except Exception:
            ref = None
        for sp in (bc.upper(), bc.capitalize(), bc + " ", "dirichlet"):
            res.transitions += 1
            try:
                v = float(np.asarray(build(sp).logpdf(x)).ravel()[0])
            except Exception as e:
                res.refused += 1
                res.outcomes.add("%s:bc-spelling-refused" % fam)
                continue
            canonical = sp.strip().lower() == bc
            if ref is None or not canonical or not ((np.isnan(v) and np.isnan(ref)) or close(v, ref, 1e-9)):
                res.fail("C20|%s|bc-spelling|%s" % (fam, "bc=%s" % bc), "bc_type=%r is accepted (logpdf %r) but bc_type=%r %s"
                         % (sp, v, bc, "is refused" if ref is None else "gives %r" % ref))
