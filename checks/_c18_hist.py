"""C18 helpers: the PROCESS HISTORY facet (other objects of the same size built in the same process).

The property speaks about ONE PDE object / PDE-based model: what it solves and observes is determined by what it was given.  A user
session, however, rarely holds a single object: several test problems / PDE objects of the same size with other options live side by
side.  Inside one cell this facet therefore builds, around the object under test T, two SIBLINGS S1, S2 of the same dimension that
differ in exactly one option (shipped models: endpoint / source / max_time / field; generic PDE objects: grids, linear solver,
observation map, PDE form, stepping method, time grid / observation times) and interleaves constructions and evaluations:

    order 'sibling-first':  build S1, eval S1, build T,           eval T, build S2, eval T, eval S2, eval S1, eval T
    order 'target-first' :  build T,  build S1, eval S1,          eval T, build S2, eval T, eval S2, eval S1, eval T

Every evaluation of every object (assemble -> solve -> observe on the PDE object, and PDEModel.forward) is compared with an
INDEPENDENT dense reference computed from the object's own options only, and the repeated evaluations of one object with each
other.  Verdicts (at most one per cell, chosen so that they do not depend on what the worker process did before the cell):
    * an object answers differently after a later construction than before  -> 'earlier-object-altered-by-later-construction'
    * otherwise some answer differs from the reference                      -> 'output-under-history'
    * a library call of the protocol raises                                 -> 'raises-under-history'
For the shipped models the reference is the finite-difference discretisation of the test problem written out here (not the model's own
PDE_form closure, which is part of what a sibling may corrupt); the parameter -> function map is the model's own domain geometry.
"""
import numpy as np
from vfw.core import close
from vfw import refs
from checks import _c18_place as P

ORDERS = ["sibling-first", "target-first"]
SHIPPED_SIBLINGS = {"Poisson1D": ["endpoint", "source", "field"], "Heat1D": ["endpoint", "max_time", "field"]}
SHIPPED_FIELDS = ["None", "Step", "KL"]
STEADY_SIBLINGS = ["grids", "solver", "map", "form"]
TD_SIBLINGS = ["grids", "solver", "map", "form", "method", "times"]

SOURCES = {
    "default": lambda xs: 10 * np.exp(-((xs - 0.5) ** 2) / 0.02),
    "affine": lambda xs: 1.0 + 2.0 * xs,
    "square": lambda xs: 4.0 * xs ** 2 + 0.5,
}


# ----------------------------------------------------------------------------------------
# the protocol
# ----------------------------------------------------------------------------------------
def _same(a, b):
    """two evaluations of one deterministic pipeline on the same input: equal relative to the size of the answer itself (no absolute
    floor - an answer that shrinks towards 0 from evaluation to evaluation has changed)"""
    a, b = np.asarray(a, float), np.asarray(b, float)
    if a.shape != b.shape:
        return False
    if a.size == 0 or np.array_equal(a, b, equal_nan=True):
        return True
    if not (np.all(np.isfinite(a)) and np.all(np.isfinite(b))):
        return False
    return bool(np.max(np.abs(a - b)) <= 1e-12 * max(np.max(np.abs(a)), np.max(np.abs(b))))


def _match_any(y, cands, tol):
    """y equals one of the acceptable arrays (a model output may be the flattened observation)"""
    try:
        v = np.squeeze(np.asarray(y, dtype=float))
    except Exception:
        return False
    for c in cands:
        c = np.squeeze(np.asarray(c, float))
        if v.shape == c.shape and close(v, c, tol):
            return True
        for cf in (c.ravel(), c.T.ravel()):
            if v.ndim == 1 and v.shape == cf.shape and close(v, cf, tol):
                return True
    return False


def run_protocol(res, comp, sibling, order, mk_t, mk_s1, mk_s2):
    """mk_*() builds the library object(s) and returns (evaluate, expected): evaluate() -> list of outputs,
    expected = list of (acceptable arrays, tolerance), one per output"""
    first = {}          # label of the object -> outputs of its first evaluation
    altered, wrong = [], []
    stage = ["-"]

    def ev(name, sub, when):
        stage[0] = "evaluating %s (%s)" % (name, when)
        evaluate, expected = sub
        outs = evaluate()
        res.transitions += len(outs)
        res.state("%s:%s:%s" % (comp, name, when))
        for i, (y, (cands, tol)) in enumerate(zip(outs, expected)):
            res.evaluations += 1
            if not _match_any(y, cands, tol):
                wrong.append((name, when, i, y, cands[0] if cands else None))
        if name in first:
            for i, (y, y0) in enumerate(zip(outs, first[name])):
                res.evaluations += 1
                if not _same(y, y0):
                    altered.append((name, when, i, y, y0))
        else:
            first[name] = [np.array(np.asarray(y, float), copy=True) for y in outs]

    try:
        if order == "sibling-first":
            stage[0] = "building S1"
            s1 = mk_s1()
            ev("S1", s1, "before T exists")
            stage[0] = "building T"
            t = mk_t()
        else:
            stage[0] = "building T"
            t = mk_t()
            stage[0] = "building S1"
            s1 = mk_s1()
            ev("S1", s1, "after T was built")
        ev("T", t, "after S1 was built and evaluated")
        stage[0] = "building S2"
        s2 = mk_s2()
        ev("T", t, "after S2 was built")
        ev("S2", s2, "first use")
        ev("S1", s1, "after T and S2")
        ev("T", t, "after S2 was evaluated")
    except Exception as e:
        res.refused += 1
        res.outcomes.add("history-raises:%s" % type(e).__name__)
        res.fail("C18|%s|raises-under-history|sibling=%s" % (comp, sibling),
                 "%r while %s (order %s): every object of the protocol is a configuration the library answers on its own" % (e, stage[0], order))
        return
    res.traces += 1
    if altered:
        name, when, i, y, y0 = altered[0]
        res.fail("C18|%s|earlier-object-altered-by-later-construction|sibling=%s" % (comp, sibling),
                 "order %s: output %d of %s evaluated %s differs from the same evaluation made earlier - another object of the same "
                 "dimension (other %s) was constructed / used in between" % (order, i, name, when, sibling), now=y, before=y0)
    elif wrong:
        name, when, i, y, ref = wrong[0]
        res.fail("C18|%s|output-under-history|protocol=sibling-construction" % comp,
                 "order %s, sibling differs in %s: output %d of %s evaluated %s is not the assemble-solve-observe pipeline of the system "
                 "that object was given" % (order, sibling, i, name, when), y=y, ref=ref)
    res.outcomes.add("history:%s:%s:%s:%s" % (comp, sibling, order, "ok" if not (altered or wrong) else "bad"))


# ----------------------------------------------------------------------------------------
# shipped test problems: independent discretisation
# ----------------------------------------------------------------------------------------
def poisson_system(dim, endpoint, source, kappa):
    """-(kappa u')' = source on (0, endpoint), u = 0 at both ends: N = dim - 1 unknowns, conductivity on the dim cell faces"""
    N = dim - 1
    dx = endpoint / N
    grid = np.linspace(dx, endpoint, N, endpoint=False)
    kappa = np.asarray(kappa, float)
    A = np.zeros((N, N))
    for i in range(N):
        A[i, i] = (kappa[i] + kappa[i + 1]) / dx ** 2
        if i + 1 < N:
            A[i, i + 1] = A[i + 1, i] = -kappa[i + 1] / dx ** 2
    return A, np.asarray(source(grid), float), grid


def heat_setup(dim, endpoint, max_time):
    """u_t = u_xx on (0, endpoint), u = 0 at both ends, dim interior nodes, forward Euler with the CFL number 5/11"""
    from checks import c18 as C
    N = dim
    dx = endpoint / (N + 1)
    n_steps = int(max_time / ((5 / 11) * dx ** 2))
    grid = np.linspace(dx, endpoint, N, endpoint=False)
    times = np.linspace(0, max_time, n_steps + 1, endpoint=True)
    return C._lap(N, dx), grid, times


def shipped_options(problem, dim, field="None", obsmap="None", endpoint=1.0, source="default", max_time=None):
    return {"problem": problem, "dim": dim, "field": field, "obsmap": obsmap, "endpoint": endpoint, "source": source,
            "max_time": max_time if max_time is not None else (0.04 if dim == 5 else 0.02)}


def shipped_sibling_options(base, kind, which):
    """the options of sibling number `which` (0, 1): the target's options with ONE option changed"""
    o = dict(base)
    if kind == "endpoint":
        o["endpoint"] = ([2.0, 0.5] if base["problem"] == "Poisson1D" else [0.5, 0.75])[which]
    elif kind == "source":
        o["source"] = ["affine", "square"][which]
    elif kind == "max_time":
        o["max_time"] = base["max_time"] * [1.5, 2.0][which]
    elif kind == "field":
        o["field"] = [f for f in SHIPPED_FIELDS if f != base["field"]][which]
    else:
        raise ValueError(kind)
    return o


def shipped_maker(o, k):
    from checks import c18 as C

    def make():
        import cuqi
        kwargs = {}
        if o["field"] == "Step":
            kwargs = {"field_type": "Step", "field_params": {"n_steps": 3}}
        elif o["field"] == "KL":
            kwargs = {"field_type": "KL", "field_params": {"num_modes": 3}}
        idx = None
        if o["obsmap"] == "subset":
            kwargs["observation_grid_map"] = lambda gr: gr[[1, 2, len(gr) - 1]]
        if o["problem"] == "Poisson1D":
            if o["field"] == "KL":          # KL coefficients have no sign: the documented map / imap keeps the conductivity positive
                kwargs.update({"map": lambda x: np.exp(x), "imap": lambda x: np.log(x)})
            tp = cuqi.testproblem.Poisson1D(dim=o["dim"], endpoint=o["endpoint"], source=SOURCES[o["source"]], **kwargs)
        else:
            tp = cuqi.testproblem.Heat1D(dim=o["dim"], endpoint=o["endpoint"], max_time=o["max_time"], **kwargs)
        model = tp.model
        pde = model.pde
        geom = model.domain_geometry
        pd = model.domain_dim
        X = [refs.dyadic_vec(pd, k), refs.dyadic_vec(pd, k + 2, scale=0.5)]
        if o["problem"] == "Poisson1D" and o["field"] != "KL":
            X = [1.0 + np.abs(x) for x in X]
        F = [np.array(geom.par2fun(x.copy()), dtype=float) for x in X]
        expected = []
        for f in F:
            if o["problem"] == "Poisson1D":
                A, b, grid = poisson_system(o["dim"], o["endpoint"], SOURCES[o["source"]], f)
                nodes = None if o["obsmap"] == "None" else grid[[1, 2, len(grid) - 1]]
                cands, exact = C._steady_obs_refs(np.linalg.solve(A, b), grid, nodes, None)
            else:
                Dxx, grid, times = heat_setup(o["dim"], o["endpoint"], o["max_time"])
                nodes = None if o["obsmap"] == "None" else grid[[1, 2, len(grid) - 1]]
                U = C._euler_ref(lambda x, t: (Dxx, np.zeros(len(grid)), x), f, times, "forward_euler")
                cands, exact = C._td_obs_refs(U, grid, times, nodes, times[-1:], None)
            expected += [(cands, 1e-9 if exact else 1e-7)] * 2

        def evaluate():
            outs = []
            for x, f in zip(X, F):
                pde.assemble(f.copy())
                sol, info = pde.solve()
                outs.append(np.array(pde.observe(sol), dtype=float, copy=True))      # a snapshot: aliasing inside ONE object is the business of the reuse cells
                outs.append(np.array(model.forward(x.copy()), dtype=float, copy=True))
            return outs
        return evaluate, expected
    return make


# ----------------------------------------------------------------------------------------
# generic PDE objects with harness-supplied forms
# ----------------------------------------------------------------------------------------
def generic_options(cls, form, grids, method="-"):
    o = {"cls": cls, "form": form, "N": 6 if cls == "steady" else 5, "grids": grids, "map": "none", "solver": "default", "place": None}
    if cls == "timedep":
        o.update({"method": method, "tgrid": "nonuniform", "K": 3, "time_obs": "final", "tpos": None, "tzero": None})
    return o


def generic_sibling_options(base, kind, which, forms):
    o = dict(base)
    if kind == "grids":
        o.update([{"grids": "subset", "place": [10, 0]}, {"grids": "shifted", "place": [None, 10]}][which])
        if o["grids"] == base["grids"]:
            o["grids"] = "offnode"
    elif kind == "solver":
        o["solver"] = (["scipy-kwargs", "cg-info"] if base["cls"] == "steady" else ["numpy", "cg-info"])[which]
    elif kind == "map":
        o["map"] = ["square", "index"][which]
    elif kind == "form":
        o["form"] = [f for f in forms if f != base["form"]][which]
    elif kind == "method":
        o["method"] = "backward_euler" if base["method"] == "forward_euler" else "forward_euler"
        if which == 1:
            o["tgrid"] = "uniform"
    elif kind == "times":
        o.update([{"tgrid": "uniform", "tpos": "cross0", "tzero": 1, "time_obs": "off-nodes"}, {"tpos": "end0", "time_obs": "all"}][which])
    else:
        raise ValueError(kind)
    return o


def generic_maker(o, k, form_cache):
    """form_cache: the SAME PDE_form callable is handed to every object of the cell that uses that form (a user builds several PDE
    objects from one PDE_form)"""
    from checks import c18 as C

    def make():
        import cuqi
        N = o["N"]
        g, dx = C._grid(N)
        gx = P.place_grid(g, o)
        gsol, gobs, nodes = C._grids(o["grids"], gx)
        mp = C._map(o["map"])
        fn, kw, tol, has_info = C._solver(o["solver"])
        key = (o["cls"], o["form"])
        if key not in form_cache:
            form_cache[key] = C._steady_form(o["form"], N, k) if o["cls"] == "steady" else C._td_form(o["form"], N, k)
        expected = []
        if o["cls"] == "steady":
            form, xs, pdim = form_cache[key]
            pde = cuqi.pde.SteadyStateLinearPDE(form, linalg_solve=fn, linalg_solve_kwargs=kw, grid_sol=gsol, grid_obs=gobs, observation_map=mp)
            for x in xs:
                A, b = form(x)
                cands, exact = C._steady_obs_refs(np.linalg.solve(C._dense(A), np.asarray(b, float)), gx, nodes, mp)
                expected += [(cands, 1e-10 if (exact and tol <= 1e-9) else max(tol, 1e-9) * 100 + (0.0 if exact else P.place_tol(gx)))] * 2
            n_out = int(np.asarray(expected[0][0][0]).size)
        else:
            form, xs, pdim, t0 = form_cache[key]
            times = C._times(o["tgrid"], o["K"], t0, o.get("tpos"), o.get("tzero"))
            targ, teff = C._time_obs(o["time_obs"], times)
            pde = cuqi.pde.TimeDependentLinearPDE(form, times.copy(), time_obs=targ, method=o["method"], linalg_solve=fn, linalg_solve_kwargs=kw,
                                                  grid_sol=gsol, grid_obs=gobs, observation_map=mp)
            for x in xs:
                cands, exact = C._td_obs_refs(C._euler_ref(form, x, times, o["method"]), gsol, times, nodes, teff, mp)
                expected += [(cands, 1e-10 if (exact and tol <= 1e-9) else max(tol, 1e-9) * 1000 + (0.0 if exact else P.place_tol(gx, times)))] * 2
            n_out = int(np.asarray(expected[0][0][0]).size)
        model = cuqi.model.PDEModel(pde, cuqi.geometry.Continuous1D(max(n_out, 1)), pdim)

        def evaluate():
            outs = []
            for x in xs:
                pde.assemble(x.copy())
                sol, info = pde.solve()
                outs.append(np.array(pde.observe(sol), dtype=float, copy=True))      # a snapshot: aliasing inside ONE object is the business of the reuse cells
                outs.append(np.array(model.forward(x.copy()), dtype=float, copy=True))
            return outs
        return evaluate, expected
    return make


def cells(q, k):
    out = []
    for prob, dims in (("Poisson1D", (6, 9)), ("Heat1D", (5, 8))):
        for dim in dims:
            for field in SHIPPED_FIELDS:
                for og in ("None", "subset"):
                    for sib in SHIPPED_SIBLINGS[prob]:
                        for order in ORDERS:
                            out.append({"kind": "history", "cls": "shipped", "problem": prob, "dim": dim, "field": field, "obsmap": og,
                                        "sibling": sib, "order": order, "cat": k})
    from checks import c18 as C
    for form in C.STEADY_FORMS:
        for rel in ("equal", "offnode"):
            for sib in STEADY_SIBLINGS:
                for order in ORDERS:
                    out.append({"kind": "history", "cls": "steady", "form": form, "grids": rel, "sibling": sib, "order": order, "cat": k})
    for form in C.TD_FORMS:
        for method in ("forward_euler", "backward_euler"):
            for rel in ("equal", "offnode"):
                for sib in TD_SIBLINGS:
                    for order in ORDERS:
                        out.append({"kind": "history", "cls": "timedep", "form": form, "method": method, "grids": rel, "sibling": sib,
                                    "order": order, "cat": k})
    return out


def eval_history(cell, res):
    from checks import c18 as C
    k, sib, order = cell["cat"], cell["sibling"], cell["order"]
    if cell["cls"] == "shipped":
        base = shipped_options(cell["problem"], cell["dim"], cell["field"], cell["obsmap"])
        mk = [shipped_maker(base, k)] + [shipped_maker(shipped_sibling_options(base, sib, w), k) for w in (0, 1)]
        comp = cell["problem"]
    else:
        base = generic_options(cell["cls"], cell["form"], cell["grids"], cell.get("method", "-"))
        forms = C.STEADY_FORMS if cell["cls"] == "steady" else C.TD_FORMS
        cache = {}
        mk = [generic_maker(base, k, cache)] + [generic_maker(generic_sibling_options(base, sib, w, forms), k, cache) for w in (0, 1)]
        comp = "SteadyStateLinearPDE" if cell["cls"] == "steady" else "TimeDependentLinearPDE"
    run_protocol(res, comp, sib, order, mk[0], mk[1], mk[2])
    res.sample = {"protocol": order, "sibling": sib, "target": {a: b for a, b in base.items()}}
