"""C18 - PDE models solve the discretised equations given and observe them consistently.

E3 configuration explorer.  Cells are PDE set-ups (form x linear solver x grids x time grid x stepping method x
observation times x observation map); inside a cell the SAME PDE object is driven through the parameter sequence
x1, x2, x1 (so a stale operator / parameter / initial condition is visible) and every result is compared with a
dense reference written here: residual of the assembled system, a 3-line Euler loop with the operator and source
assembled at the documented time, restriction at coinciding nodes/times, an independently called interpolant
otherwise, then the observation map; PDEModel.forward is compared with the harness-composed
par2fun -> assemble -> solve -> observe pipeline and PDEModel.gradient with direction @ J (or it raises).

Representation facet: the parameter handed in and every piece PDE_form hands back (initial condition, source / right-hand
side, operator) is also given as an integer / bool / float32 ndarray, a list, a sparse matrix (integer valued data, so that all
representations carry the same numbers); the oracle is the same float64 reference run on np.asarray(piece, float), plus the
differential model(x) == model(x as a float64 array).  Input integrity: nothing PDE_form or the caller hands to the library may
be modified in place by assemble / solve / observe / PDEModel.forward, and observe may not modify the solution it is given.

Grid location / scale facet: the solution and observation grids handed to the PDE object are the unit grids mapped by
x -> offset + scale * x (offset in {0, 2^10, 2^20}, scale in {2^-10, 1, 2^10}), crossed with every relation between the two grids
(equal, sub-grid, other node count, SAME node count with every node moved by 1/4 or 2^-10 of a cell); the time grid is translated
by {0, 2^10 (, 2^20)} and crossed with all observation times.  "Coinciding" is exact equality of the coordinates at every
placement; the reference restriction / interpolation is computed in coordinates relative to the grid's first node (_c18_place).

Input container facet (_c18_cont): the same parameter values are handed to ONE PDEModel as a plain vector, a CUQIarray (parameters /
function values), an ndarray of function values (is_par=False) and a cuqi.samples.Samples collection with 1, 2 and par_dim columns,
crossed with identity and non-identity domain geometries (KL with all modes / truncated, Step, Mapped, Mapped over KL), identity /
mapped range geometries and observation grids that make parameter and observation dimension equal or unequal; column i of the answer
must be range.fun2par(observe(solve(PDE_form(domain.par2fun(column i))))) computed with dense references written here, carry the range
geometry, and a container may not be refused where the per-vector route answers; gradient likewise with direction / wrt in the container.

Time-grid position facet: the time grid is placed relative to t = 0 in every qualitatively different way - starting at exactly 0.0,
starting before 0 and holding exactly 0.0 at an interior level (every interior index), ending at exactly 0.0, strictly positive, strictly
negative - uniform and non-uniform, crossed with the time dependent forms, both methods, observation times and grid relations; the oracle
is the unchanged Euler loop with operator and source assembled at the step's own time (t = 0.0 is a time like any other).

Operator symmetry facet: every steady and time dependent form is also assembled with a NON-symmetric operator - the form's own (symmetric,
diffusion / reaction) operator plus an upwind advection stencil (lower bidiagonal) or plus a one-sided boundary row (one off-diagonal
entry), time dependent coefficient for the time dependent forms - crossed with the linear solvers that accept such operators (dense, sparse,
gmres), both stepping methods, uniform / non-uniform time grids, observation times and grid relations; oracle unchanged (A u = b residual and
dense solve; the Euler loops with A(t) applied from the LEFT to the previous level; gradient against Richardson / the harness Jacobian).

Process history facet (_c18_hist): the object under test lives next to SIBLINGS of the same dimension that differ in one option (shipped
models: endpoint / source / max_time / field; generic PDE objects: grids, solver, map, form, method, time grid) built and used before and
after it, in both construction orders; every evaluation of every object must equal an independent dense reference (for the shipped models
the finite-difference discretisation written out in _c18_hist, not the model's own PDE_form closure) and repeated evaluations of one
object must agree: no object may be altered by the later construction / use of another one.
"""
import itertools
import numpy as np
from vfw.core import CellResult, close
from vfw import refs
from checks import _c18_repr as R
from checks import _c18_place as P
from checks import _c18_cont as CT
from checks import _c18_hist as H

PROPERTY = "C18"
RULE = ("cells = {steady: form x solver x grid relation x observation map x model domain geometry x gradient hook; "
        "time dependent: form x time grid (uniform/non-uniform, K steps) x {forward,backward} Euler x time_obs x grid relation x "
        "observation map (+ solver variants for backward Euler); shipped Poisson1D/Heat1D models} - the full product; each cell "
        "drives one PDE object through the parameter sequence x1,x2,x1 and compares solve(), observe(), PDEModel.forward and "
        "PDEModel.gradient with a dense reference.  Representation facet: {representation of the parameter} x {representation of each "
        "piece PDE_form returns: initial condition, source / right-hand side, operator} over float64 / int64 / bool / float32 ndarray, "
        "list, (operator) csr float / csr int - every parameter representation with dtype-preserving pieces, then one piece at a time "
        "(thorough: also the complete product), crossed with both stepping methods, all time_obs and all grid relations; the parameter "
        "representation is also crossed with the float valued forms and the shipped models; a failure in a representation cell that the "
        "same cell with float64 data shows as well keeps its ordinary signature, otherwise the representation is the signature facet.  "
        "In every steady / time-dependent cell all objects handed to the library (PDE_form's return values, the parameter, the model "
        "input, the solution given to observe) are compared with snapshots taken at hand-over.  "
        "Grid location / scale facet: {offset 0, 2^10, 2^20} x {scale 2^-10, 1, 2^10} of solution and observation grid x grid relation "
        "{equal, equal-explicit, subset, offnode (other node count), shifted by 1/4 cell, shifted by 2^-10 cell (same node count)} x "
        "forms x maps (steady) / x forms x both methods x observation times (time dependent); time-grid origin {2^10} x {unit grid, "
        "grid at 2^10} x {equal, subset, shifted} x all observation times; the observation must be the restriction (coinciding "
        "coordinates, exact comparison) or an interpolant of the reference solution evaluated in grid-relative coordinates, and "
        "PDEModel.forward the same; a failure the same cell shows on the unit grid as well keeps its ordinary signature, otherwise the "
        "placement (far-from-origin / rescaled) is appended to the signature facet.  "
        "Input container facet: {plain parameter vector, CUQIarray of parameters, CUQIarray of function values, ndarray of function values "
        "with is_par=False, Samples with 1 / 2 / par_dim columns (array backed, domain geometry attached), Samples with 2 columns without "
        "geometry} x domain geometry {integer, Continuous1D, KL all modes, KL truncated, Step, Mapped(exp), Mapped over truncated KL} x range "
        "geometry {Continuous1D, affine Mapped} x observation grid {equal, subset, offnode} (parameter / observation dimension equal and "
        "unequal in every geometry class) x PDE {steady: field = source; field in operator and rhs + square map; time dependent: field = "
        "initial condition (forward Euler); field in operator, source and initial condition + square map (backward Euler)} - the full product; "
        "in each cell every parameter vector is first evaluated one at a time as a plain vector against the dense reference "
        "range.fun2par(observe(solve(PDE_form(domain.par2fun(x))))) (KL sine sum, step indicator, maps written in _c18_cont), then the "
        "container is evaluated on the same live model (a Samples collection three times: in order, reversed, in order): every column must "
        "equal the reference AND the per-vector answer (1e-12), the answer to Samples is (range_dim, Ns), a CUQIarray / Samples answer carries "
        "the range geometry, the input array is intact, and a raise for a container whose vectors are all answered one at a time is a "
        "verdict; gradient(direction, wrt) with both arguments in the container against (range.par2fun(direction) @ J(par2fun(wrt))) @ "
        "d par2fun/d wrt for a harness-supplied, point-recording jacobian_wrt_parameter (a raise is accepted where the plain-vector call "
        "raises too, and for Samples arguments).  The same container facet on the shipped Poisson1D / Heat1D models x field {None, Step, KL 3 "
        "modes, KL all modes} x observation_grid_map {None, subset} with the model's own PDE_form as the assembled system.  "
        "Time-grid position facet: {first level exactly 0.0 (the cells above), a level m in 1..K-1 exactly 0.0 with levels before and after "
        "it (every m), last level exactly 0.0, all levels > 0, all levels < 0} x {uniform (dt * arange), non-uniform} x K x 3 forms (operator / "
        "source / initial-condition expression depending on t) x both methods x time_obs {final, all, on-nodes, off-nodes} x {equal, offnode}; "
        "oracle unchanged (level 0 = PDE_form(x, t_0)[2], every stored level satisfies the recurrence with operator / source assembled at the "
        "step's own time, observation, PDEModel.forward / gradient); a failure the same cell shows with the form's own initial time as well "
        "keeps its ordinary signature, otherwise time=zero-inside / ends-at-zero / positive / negative is appended to the signature facet.  "
        "Operator symmetry facet: operator {symmetric (all cells above), form's operator + upwind advection stencil, form's operator + one-sided "
        "boundary row} x {steady: 3 forms x solvers {default, numpy, scipy-kwargs, spsolve (csr operator), gmres} x {equal, offnode} (+ mapped "
        "domain geometry x 3 gradient hooks); time dependent: 3 forms x {uniform, non-uniform} x K x 2 methods x time_obs x {equal, offnode} "
        "(+ backward Euler x solvers {numpy, scipy-kwargs, gmres, csr operator}, forward Euler x csr operator)}; oracle unchanged; a failure the "
        "same cell shows with the form's own symmetric operator as well keeps its ordinary signature, otherwise op=non-symmetric is appended "
        "to the signature facet.  "
        "Process history facet: target T {Poisson1D dim {6,9}, Heat1D dim {5,8}} x field {None, Step, KL} x observation_grid_map {None, "
        "subset} x sibling option {endpoint, source | max_time, field} and {SteadyStateLinearPDE: 3 forms x {equal, offnode} x sibling option "
        "{grids (+ placement), solver, map, form}; TimeDependentLinearPDE: 3 forms x 2 methods x {equal, offnode} x sibling option {grids, "
        "solver, map, form, method, time grid / time_obs}} x construction order {sibling-first, target-first}; in a cell two siblings S1, S2 "
        "with the target's dimension and ONE other option are interleaved with T: [build S1, eval S1, build T | build T, build S1, eval S1], "
        "eval T, build S2, eval T, eval S2, eval S1, eval T (the same PDE_form callable is shared by the objects that use the same form); an "
        "evaluation = assemble-solve-observe on the PDE object and PDEModel.forward at 2 parameter points; every output must equal the dense "
        "reference of THAT object's options and every repeated evaluation the first one (relative 1e-12, no absolute floor); one verdict per "
        "cell that does not depend on what the worker process built before: earlier-object-altered-by-later-construction (repeated "
        "evaluations disagree), else output-under-history (reference mismatch), raises-under-history.  "
        "Observation-grid layout facet (how the observation points are LISTED relative to the solution nodes; the grid relations above list "
        "them in ascending order, once each): {sub-grid right-to-left, sub-grid in an order neither ascending nor descending, sub-grid with "
        "one node listed twice, a single node, the off-node points in non-monotone order, on-node and off-node points alternating} x {steady: "
        "3 forms x solvers {default, numpy} x maps {none, square}; time dependent: 3 forms x both methods x time_obs {final, all, on-nodes, "
        "off-nodes} x maps {none, square}}; oracle unchanged and point by point: entry k of observe() and of PDEModel.forward is the "
        "reference solution of the dense system at the k-th LISTED point (node value to 1e-10 where every listed point is a node, else a "
        "standard interpolant evaluated at exactly the listed points in the listed order), same length as the list; signature facet "
        "grids=<layout>; a raise is accepted as refusal (the bivariate spline of the time dependent class refuses non-monotone points).  "
        "A cell is non-trivial when at least one observation was returned (not refused)")
BOUND = {
    "quick": "steady: 3 forms (N=6 nodes) x 6 solvers x 6 grid relations x 3 maps (+3 domain geometries x 3 gradient hooks on the "
             "default solver); time dependent: 3 forms (N=5) x {uniform,non-uniform} x K in {2,3,4,6} x 2 methods x 6 time_obs (+ the capitalised FINAL on 2 grid relations) x 6 grid "
             "relations x 3 maps, + 5 backward-Euler solver variants x K in {3,4}; shipped: Poisson1D dim {6,9} and Heat1D dim {5,8} x "
             "field {None,Step,KL} x observation_grid_map {None, subset} x 5 parameter representations; 2 parameter points per cell.  "
             "Representation cells: time dependent (N=5, non-uniform K=4, integer valued time dependent operator/source) 19 representation "
             "combinations x 2 methods x 6 time_obs x 6 grid relations; steady (N=6) 15 combinations x {default, numpy | spsolve} x 6 grid "
             "relations; parameter representation x 3 float forms x {equal, offnode} (steady) / x 2 methods x {final, all, off-nodes} x "
             "{equal, offnode} (time dependent, K=3).  "
             "Location / scale cells: 9 placements x 6 grid relations (minus the 5 unit-grid ones already enumerated) x {steady: 3 forms "
             "(N=6) x maps {none, square}; time dependent: 2 forms (N=5, non-uniform K=3) x 2 methods x time_obs {final, all, on-nodes, "
             "off-nodes}}; time origin 2^10 x grid {unit, at 2^10} x {equal, subset, shifted} x 2 forms x 2 methods x 6 time_obs.  "
             "Container cells: 8 containers x 7 domain geometries x 2 range geometries x 3 observation grids x 4 PDEs (N=5, non-uniform K=3), "
             "Samples with 1, 2 and par_dim (3 or 5) columns; shipped: 7 containers x 4 fields x 2 observation_grid_maps x Poisson1D dim {6,9} / "
             "Heat1D dim {5,8}.  Time-grid position cells: 3 forms (N=5) x {uniform, non-uniform} x K in {2,3,4} x {zero at every interior "
             "level, ends at zero, positive (first level 2^-5), negative (last level -2^-5)} x 2 methods x 4 time_obs x {equal, offnode} (1440 "
             "cells).  Operator symmetry cells: 2 non-symmetric terms x {steady (N=6): 3 forms x 5 solvers x {equal, offnode} + 3 forms x 3 gradient "
             "hooks (78 cells); time dependent (N=5): 3 forms x {uniform, non-uniform} x K in {2,3,4} x 2 methods x {final, all, off-nodes} x "
             "{equal, offnode} + 3 forms x (4 backward-Euler solvers + forward Euler on a csr operator) x {final, all} on the non-uniform K=3 "
             "grid (492 cells)}.  Observation-grid layout cells: 6 layouts x {steady (N=6): 3 forms x 2 solvers x 2 maps (72 cells); time dependent (N=5, "
             "non-uniform K=3): 3 forms x 2 methods x 4 time_obs x 2 maps (288 cells)}.  Process history cells: 144 shipped (2 problems x 2 dims x 3 fields x 2 obs maps x 3 sibling options x 2 orders) + 48 "
             "steady (N=6) + 144 time dependent (N=5, non-uniform K=3), 3 objects and 6 evaluations x 2 parameter points x 2 routes per cell",
    "thorough": "as quick with K in 2..6, N in {5,7} for the time-dependent forms, N in {6,9} steady, and all 3 value catalogues in one run; "
                "representation cells also on the uniform K=3 grid, plus (first catalogue) the complete product 5 x 6 x 6 x 8 of "
                "(parameter, initial condition, source, operator) representations x 2 methods x {final, all} x {equal, offnode}; "
                "location / scale cells with N in {6,9} x all 3 maps (steady), N in {5,7} x 3 forms x {non-uniform K=3, uniform K=4} x all 6 "
                "time_obs (time dependent); time origin in {2^10, 2^20} x 3 forms; operator symmetry cells with N in {6,9} x maps {none, square} "
                "(steady), N in {5,7} x K in 2..6 x all 6 time_obs (time dependent); container cells with N in {5,7} and both stepping methods "
                "for both time dependent PDEs (6 PDEs); time-grid position cells with K in 2..6 and N in {5,7}; observation-grid layout cells with N in {6,9} (steady), N in {5,7} x "
                "{non-uniform K=3, uniform K=4} (time dependent); process history cells as quick "
                "for each of the 3 value catalogues",
}
ASSUMPTIONS = [
    "PDE_form callables, linear solvers and observation maps are harness-supplied (they are inputs of the property); the assembled "
    "system for a parameter is what PDE_form returns for it",
    "documented recurrences: forward Euler u_{k+1} = u_k + dt_k (A(t_k) u_k + f(t_k)); backward Euler (I - dt_k A(t_{k+1})) u_{k+1} = "
    "u_k + dt_k f(t_{k+1}); dt_k = t_{k+1}-t_k; initial condition = PDE_form(x, t_0)[2]",
    "the interpolation kind is not part of the statement: off-node observations are accepted when they equal ANY of the standard "
    "interpolants of the reference solution (interp1d linear/quadratic/cubic; RectBivariateSpline with kx,ky in 1..3); at coinciding "
    "nodes/times the restriction is demanded to 1e-10",
    "a refused configuration (too few nodes for the spline, no grid given, unsupported type) is allowed wherever the library raises",
    "direct solvers 1e-9, iterative solver (cg, rtol 1e-13) 1e-7; Jacobian sanity check by Richardson at 1e-5",
    "observation points outside the solution grid / time interval (extrapolation) are not covered",
    "representations: a real ndarray of any dtype (float64, int64, bool, float32) must be handled like the float64 array of the same "
    "values (float32 data: 1e-6 / 1e-5, the arithmetic may run in single precision); lists and sparse operators are not ndarrays and "
    "may be refused (raise) but not answered wrongly; for the steady PDE the types of A and b are those the linear solver accepts - "
    "a raise is passed on when the solver called directly on (A, b) raises too; complex data and other integer widths are not covered",
    "grid placement: the operator / source / initial condition stay those of the unit grid (the affine change of coordinate with "
    "correspondingly rescaled coefficients; the library uses the grids in observe only); 'coinciding' means equal floating point "
    "coordinates - an observation grid whose nodes differ from the solution nodes by any representable amount must be interpolated.  "
    "Tolerance of interpolated values at a placement: the ordinary 1e-7 (steady) / 1e-6 (time dependent) plus 16 * eps * "
    "max(|x|_max / h_x, |t|_max / h_t) (spacing of the floats at the grid's position relative to the smallest cell / step: the library "
    "interpolates in global coordinates, e.g. interp1d's quadratic spline rounds its mid-point knots to that spacing) - at most 2.7e-5 "
    "(offset 2^20, scale 2^-10, N=6; 3.8e-5 for N=9 in the thorough tier), 2.7e-8 (offset 2^20, scale 1 or offset 2^10, scale 2^-10); restriction at coinciding nodes / times "
    "stays at 1e-10 at every placement.  The reference itself is evaluated in coordinates x - x_0 (exact differences of the handed-over "
    "floats), where it is as well conditioned as on the unit grid.  Offsets beyond 2^20, negative / decreasing grids and scaling of "
    "the time axis are not covered",
    "input containers: Samples collections are array backed and hold PARAMETERS (list-backed collections and collections of function "
    "values are not covered); a CUQIarray input carries the model's own domain geometry (foreign geometries are not covered); what the "
    "answer to an ndarray input is wrapped in is not demanded, the answer to a CUQIarray / Samples input must carry the range geometry "
    "when it carries one; gradient with Samples arguments may be refused (documented), and if answered must be the per-sample gradients; "
    "the Jacobian hook of the container cells is harness-supplied (the derivative of the pipeline itself is the business of the steady "
    "cells with gradient hooks); on the shipped models the parameter -> function map is the model's own domain geometry, in the PDEModel "
    "container cells it is the dense reference of _c18_cont (documented KL sine expansion with decay 2.5 / normaliser 12, step "
    "indicator of an equidistant grid in integer arithmetic, exp maps)",
    "time-grid position: level values are sums / differences of the steps 0.008 (uniform: 0.008 * integers) or {0.004, 0.010, 0.002, ...}; "
    "'exactly 0.0' is +0.0 (the negative zero, sub-normal levels and grids longer than 0.05 are not covered); decreasing time grids are "
    "not covered",
    "operator symmetry: the non-symmetric operators are the form's symmetric operator plus c * (upwind first-difference stencil / dx) or "
    "plus one enlarged super-diagonal entry in the first row (0.5 / dx^2), c = 1 (steady) or 1 + 8 t (time dependent); all of them are "
    "non-singular (diagonally dominant) and K <= 6 steps stay O(1); the conjugate-gradient solver is not crossed with them (it is for "
    "symmetric systems); complex, singular and non-square operators are not covered; the container / process-history / shipped-model cells "
    "keep symmetric operators",
    "process history: siblings are constructed in the same process (the cell), sequentially; what the worker process constructed in "
    "earlier cells is not controlled and the verdict is chosen not to depend on it; concurrency (threads), pickling / copying of models and "
    "siblings of ANOTHER dimension are not covered.  Shipped models: the independent reference is the discretisation of the test problem - "
    "Poisson1D: N = dim - 1 unknowns on linspace(dx, endpoint, N, endpoint=False), dx = endpoint / N, operator Dx^T diag(kappa) Dx with the "
    "(N+1) x N first-difference matrix Dx / dx and homogeneous Dirichlet ends, right-hand side source(grid); Heat1D: dim unknowns, dx = "
    "endpoint / (dim + 1), second-difference operator / dx^2, forward Euler on linspace(0, max_time, int(max_time / (5/11 dx^2)) + 1), "
    "observation at the final time (on the unchanged tree this reference coincides with the model's own PDE_form driven through the "
    "pipeline, the oracle of the other shipped cells); the parameter -> function map is the model's own domain geometry",
    "observation-grid layout: grid_obs is an ordered list of points and the observation is indexed like it (entry k belongs to the k-th "
    "listed point; a point listed twice is observed twice); the listed sub-grids are nodes {N-1,3,1}, {3,N-1,0,1}, {1,3,3,N-1}, {2}, the "
    "off-node points are those of 'offnode' in the order (last, first, middle), the mixture is node 1, mid-point of cell 1, node 3, a point "
    "in the last cell; in a mixture the on-node entries are judged with the interpolation tolerance (every accepted interpolant passes "
    "through the nodes); a decreasing SOLUTION grid, unordered observation TIMES and 2D grids are not covered",
    "input integrity is demanded of the library only (harness-supplied solvers and maps do not write to their arguments); the returned "
    "observation may alias the solution",
]

STEADY_FORMS = ["poisson", "rhs-param", "both"]
STEADY_SOLVERS = ["default", "numpy", "scipy-kwargs", "spsolve", "cg-info", "gmres-tuple"]
GRID_RELS = ["none", "equal", "equal-explicit", "subset", "offnode", "shifted"]
MAPS = ["none", "square", "index"]
# observation-grid layout facet: HOW the observation points are listed relative to the solution nodes (the relations above list a
# sub-grid / off-node points in ascending order only): nodes right-to-left, nodes in an order that is neither ascending nor descending,
# a node listed twice, one node, off-node points in non-monotone order, on-node and off-node points mixed - the observation must be
# the value at the k-th LISTED point in position k
LAYOUT_RELS = ["subset-desc", "subset-perm", "subset-repeat", "single", "offnode-perm", "mixed"]
LAYOUT_TIME_OBS = ["final", "all", "on-nodes", "off-nodes"]
TD_FORMS = ["heat-ic", "all-dep", "ic-time"]
TIME_OBS = ["final", "FINAL", "all", "final-list", "on-nodes", "off-nodes", "one-off"]
TD_SOLVERS = ["numpy", "scipy-kwargs", "cg-info", "gmres-tuple", "sparse-op"]
# grid location / scale facet: relations between observation and solution grid that are crossed with every placement
PLACE_RELS = ["equal", "equal-explicit", "subset", "offnode", "shifted", "shifted-fine"]
PLACE_TIME_OBS = ["final", "all", "on-nodes", "off-nodes"]
# time-grid position facet: where the time grid lies relative to t = 0 (None: the form's own initial time - exactly 0.0 for two of the
# three forms, 2^-4 for 'ic-time'); 'cross0' is crossed with every interior index at which the grid holds exactly 0.0
TIME_POS = ["cross0", "end0", "positive", "negative"]
TIME_POS_FACET = {"cross0": "time=zero-inside", "end0": "time=ends-at-zero", "positive": "time=positive", "negative": "time=negative"}
# operator symmetry facet: the forms above assemble SYMMETRIC operators (diffusion stencils, diagonal reaction terms); here the same forms
# carry an additional non-symmetric term - an upwind advection stencil (lower bidiagonal, every row) or a one-sided (ghost node) boundary
# row (ONE off-diagonal entry) - with a coefficient that depends on the time for the time dependent forms
OP_SYM = ["upwind", "boundary-row"]
OPSYM_SOLVERS_STEADY = ["default", "numpy", "scipy-kwargs", "spsolve", "gmres-tuple"]       # (cg is for symmetric operators only)
OPSYM_SOLVERS_TD = ["numpy", "scipy-kwargs", "gmres-tuple", "sparse-op"]


# ----------------------------------------------------------------------------------------
# enumeration
# ----------------------------------------------------------------------------------------
def cells(tier, seed):
    q = tier == "quick"
    cats = [refs.cat(seed)] if q else [refs.cat(seed + j) for j in range(3)]
    out = []
    for k in cats:
        for N in ((6,) if q else (6, 9)):
            for form in STEADY_FORMS:
                for solver in STEADY_SOLVERS:
                    for rel in GRID_RELS:
                        for mp in MAPS:
                            out.append({"kind": "steady", "form": form, "N": N, "solver": solver, "grids": rel, "map": mp,
                                        "geom": "int", "hook": "none", "cat": k})
                for geom in ("int", "continuous", "mapped"):
                    for hook in ("none", "jacobian", "gradient"):
                        if geom == "int" and hook == "none":
                            continue
                        for rel in ("equal", "subset", "offnode"):
                            out.append({"kind": "steady", "form": form, "N": N, "solver": "default", "grids": rel, "map": "none",
                                        "geom": geom, "hook": hook, "cat": k})
        for N in ((5,) if q else (5, 7)):
            for form in TD_FORMS:
                for tg in ("uniform", "nonuniform"):
                    for K in ((2, 3, 4, 6) if q else (2, 3, 4, 5, 6)):
                        for method in ("forward_euler", "backward_euler"):
                            for tobs in TIME_OBS:
                                for rel in GRID_RELS:
                                    for mp in MAPS:
                                        if tobs == "FINAL" and not (rel in ("equal", "subset") and mp == "none"):
                                            continue        # the capitalised spelling only changes the string handling
                                        out.append({"kind": "timedep", "form": form, "N": N, "tgrid": tg, "K": K, "method": method,
                                                    "time_obs": tobs, "grids": rel, "map": mp, "solver": "default", "cat": k})
                    for K in (3, 4):
                        for solver in TD_SOLVERS:
                            for tobs in ("final", "all"):
                                out.append({"kind": "timedep", "form": form, "N": N, "tgrid": tg, "K": K, "method": "backward_euler",
                                            "time_obs": tobs, "grids": "equal", "map": "none", "solver": solver, "cat": k})
                        out.append({"kind": "timedep", "form": form, "N": N, "tgrid": tg, "K": K, "method": "forward_euler",
                                    "time_obs": "final", "grids": "equal", "map": "none", "solver": "sparse-op", "cat": k})
        # observation-grid layout facet: order / multiplicity / mixture of the listed observation points, both PDE classes
        for rel in LAYOUT_RELS:
            for form in STEADY_FORMS:
                for solver in ("default", "numpy"):
                    for mp in ("none", "square"):
                        for N in ((6,) if q else (6, 9)):
                            out.append({"kind": "steady", "form": form, "N": N, "solver": solver, "grids": rel, "map": mp,
                                        "geom": "int", "hook": "none", "cat": k})
            for form in TD_FORMS:
                for N in ((5,) if q else (5, 7)):
                    for tg, K in ((("nonuniform", 3),) if q else (("nonuniform", 3), ("uniform", 4))):
                        for method in ("forward_euler", "backward_euler"):
                            for tobs in LAYOUT_TIME_OBS:
                                for mp in ("none", "square"):
                                    out.append({"kind": "timedep", "form": form, "N": N, "tgrid": tg, "K": K, "method": method,
                                                "time_obs": tobs, "grids": rel, "map": mp, "solver": "default", "cat": k})
        # representation facet: dtype / container of the parameter and of every piece PDE_form returns (integer valued data)
        for reps in _steady_rep_combos():
            solvers = ("spsolve",) if reps[2].startswith("csr") else ("default", "numpy")
            for solver in solvers:
                for rel in GRID_RELS:
                    out.append({"kind": "steady", "form": "repr", "reps": list(reps), "N": 6, "solver": solver, "grids": rel, "map": "none",
                                "geom": "int", "hook": "none", "cat": k})
        # ... and the representation of the parameter alone on the float valued forms (pieces stay float64 whatever the parameter is)
        for prep in R.REPS:
            for form in STEADY_FORMS:
                for rel in ("equal", "offnode"):
                    out.append({"kind": "steady", "form": form, "N": 6, "solver": "default", "grids": rel, "map": "none",
                                "geom": "int", "hook": "none", "prep": prep, "cat": k})
            for form in TD_FORMS:
                for method in ("forward_euler", "backward_euler"):
                    for tobs in ("final", "all", "off-nodes"):
                        for rel in ("equal", "offnode"):
                            out.append({"kind": "timedep", "form": form, "N": 5, "tgrid": "nonuniform", "K": 3, "method": method,
                                        "time_obs": tobs, "grids": rel, "map": "none", "solver": "default", "prep": prep, "cat": k})
        for tg, K in ((("nonuniform", 4),) if q else (("nonuniform", 4), ("uniform", 3))):
            for reps in _td_rep_combos(False):
                for method in ("forward_euler", "backward_euler"):
                    for tobs in TIME_OBS:
                        if tobs == "FINAL":
                            continue
                        for rel in GRID_RELS:
                            out.append({"kind": "timedep", "form": "repr", "reps": list(reps), "N": 5, "tgrid": tg, "K": K, "method": method,
                                        "time_obs": tobs, "grids": rel, "map": "none",
                                        "solver": "sparse-op" if reps[3].startswith("csr") else "default", "cat": k})
        if not q and k == cats[0]:      # the complete product of representations on a reduced observation product
            one = set(_td_rep_combos(False))
            for reps in _td_rep_combos(True):
                if reps in one:
                    continue
                for method in ("forward_euler", "backward_euler"):
                    for tobs in ("final", "all"):
                        for rel in ("equal", "offnode"):
                            out.append({"kind": "timedep", "form": "repr", "reps": list(reps), "N": 5, "tgrid": "nonuniform", "K": 3, "method": method,
                                        "time_obs": tobs, "grids": rel, "map": "none",
                                        "solver": "sparse-op" if reps[3].startswith("csr") else "default", "cat": k})
        # grid location / scale facet: solution and observation grid translated by {0, 2^10, 2^20} and scaled by {2^-10, 1, 2^10}
        # x every relation between the two grids (equal / sub-grid / other node count / same node count shifted by 1/4 or 2^-10 cell)
        for e_off in P.OFFSETS:
            for e_sc in P.SCALES:
                for rel in PLACE_RELS:
                    if [e_off, e_sc] == P.IDENTITY and rel in GRID_RELS:
                        continue                # enumerated above
                    for N in ((6,) if q else (6, 9)):
                        for form in STEADY_FORMS:
                            for mp in (("none", "square") if q else MAPS):
                                out.append({"kind": "steady", "form": form, "N": N, "solver": "default", "grids": rel, "map": mp,
                                            "geom": "int", "hook": "none", "place": [e_off, e_sc], "cat": k})
                    for N in ((5,) if q else (5, 7)):
                        for form in (TD_FORMS[:2] if q else TD_FORMS):
                            for tg, K in ((("nonuniform", 3),) if q else (("nonuniform", 3), ("uniform", 4))):
                                for method in ("forward_euler", "backward_euler"):
                                    for tobs in (PLACE_TIME_OBS if q else [t for t in TIME_OBS if t != "FINAL"]):
                                        out.append({"kind": "timedep", "form": form, "N": N, "tgrid": tg, "K": K, "method": method,
                                                    "time_obs": tobs, "grids": rel, "map": "none", "solver": "default",
                                                    "place": [e_off, e_sc], "cat": k})
        # ... and the location of the time grid: translated by 2^10 (thorough: 2^20 too) x all observation times, on the unit grid and
        # on a far-away grid
        for e_t in ((10,) if q else (10, 20)):
            for place in (P.IDENTITY, [10, 0]):
                for rel in ("equal", "subset", "shifted"):
                    for form in (TD_FORMS[:2] if q else TD_FORMS):
                        for method in ("forward_euler", "backward_euler"):
                            for tobs in TIME_OBS:
                                if tobs == "FINAL":
                                    continue
                                out.append({"kind": "timedep", "form": form, "N": 5, "tgrid": "nonuniform", "K": 3, "method": method,
                                            "time_obs": tobs, "grids": rel, "map": "none", "solver": "default",
                                            "place": list(place), "tplace": e_t, "cat": k})
        # time-grid position facet: grids starting before 0 and holding exactly 0.0 at an interior level (every interior index), ending
        # at exactly 0.0, strictly positive, strictly negative (starting at exactly 0.0: enumerated above) x uniform / non-uniform
        for N in ((5,) if q else (5, 7)):
            for form in TD_FORMS:
                for tg in ("uniform", "nonuniform"):
                    for K in ((2, 3, 4) if q else (2, 3, 4, 5, 6)):
                        for tpos, m in [("cross0", j) for j in range(1, K)] + [(p, None) for p in TIME_POS[1:]]:
                            for method in ("forward_euler", "backward_euler"):
                                for tobs in PLACE_TIME_OBS:
                                    for rel in ("equal", "offnode"):
                                        out.append({"kind": "timedep", "form": form, "N": N, "tgrid": tg, "K": K, "method": method,
                                                    "time_obs": tobs, "grids": rel, "map": "none", "solver": "default",
                                                    "tpos": tpos, "tzero": m, "cat": k})
        # operator symmetry facet: every form with a non-symmetric operator (upwind advection term / one-sided boundary row)
        for opsym in OP_SYM:
            for N in ((6,) if q else (6, 9)):
                for form in STEADY_FORMS:
                    for solver in OPSYM_SOLVERS_STEADY:
                        for rel in ("equal", "offnode"):
                            for mp in (("none",) if q else ("none", "square")):
                                out.append({"kind": "steady", "form": form, "N": N, "solver": solver, "grids": rel, "map": mp,
                                            "geom": "int", "hook": "none", "opsym": opsym, "cat": k})
                    for hook in ("none", "jacobian", "gradient"):
                        out.append({"kind": "steady", "form": form, "N": N, "solver": "default", "grids": "equal", "map": "none",
                                    "geom": "mapped", "hook": hook, "opsym": opsym, "cat": k})
            for N in ((5,) if q else (5, 7)):
                for form in TD_FORMS:
                    for tg in ("uniform", "nonuniform"):
                        for K in ((2, 3, 4) if q else (2, 3, 4, 5, 6)):
                            for method in ("forward_euler", "backward_euler"):
                                for tobs in (("final", "all", "off-nodes") if q else [t for t in TIME_OBS if t != "FINAL"]):
                                    for rel in ("equal", "offnode"):
                                        out.append({"kind": "timedep", "form": form, "N": N, "tgrid": tg, "K": K, "method": method,
                                                    "time_obs": tobs, "grids": rel, "map": "none", "solver": "default",
                                                    "opsym": opsym, "cat": k})
                    for solver in OPSYM_SOLVERS_TD:
                        for method in (("forward_euler", "backward_euler") if solver == "sparse-op" else ("backward_euler",)):
                            for tobs in ("final", "all"):
                                out.append({"kind": "timedep", "form": form, "N": N, "tgrid": "nonuniform", "K": 3, "method": method,
                                            "time_obs": tobs, "grids": "equal", "map": "none", "solver": solver,
                                            "opsym": opsym, "cat": k})
        # process history facet: siblings of the same dimension built and used around the object under test (shipped and generic)
        out += H.cells(q, k)
        # E1 add-on: grid / observation-time re-assignment histories on ONE live PDE object (non-initial states)
        for cls in ("steady", "timedep"):
            for form in ((STEADY_FORMS[:2] if q else STEADY_FORMS) if cls == "steady" else (TD_FORMS[:2] if q else TD_FORMS)):
                out.append({"kind": "regrid", "cls": cls, "form": form, "N": 6 if cls == "steady" else 5, "cat": k, "depth": 3 if q else 4})
                for method in (("forward_euler", "backward_euler") if cls == "timedep" else ("-",)):
                    out.append({"kind": "reuse", "cls": cls, "form": form, "N": 6 if cls == "steady" else 5, "method": method, "cat": k})
        # input container facet of PDEModel.forward / gradient: the full product
        for N in ((5,) if q else (5, 7)):
            for pname in (CT.CONT_PDES if q else CT.CONT_PDES_THOROUGH):
                for dg in CT.DGEOMS:
                    for rg in CT.RGEOMS:
                        for rel in CT.CONT_RELS:
                            for cont in CT.CONTAINERS:
                                out.append({"kind": "container", "pde": pname, "N": N, "dgeom": dg, "rgeom": rg, "grids": rel,
                                            "container": cont, "cat": k})
        for prob, dims in (("Poisson1D", (6, 9)), ("Heat1D", (5, 8))):
            for dim in dims:
                for field in ("None", "Step", "KL"):
                    for og in ("None", "subset"):
                        for prep in R.REPS:
                            out.append({"kind": "shipped", "problem": prob, "dim": dim, "field": field, "obsmap": og, "prep": prep, "cat": k})
                # input container facet on the shipped models (field KL-full: all modes, parameter and observation dimension related as
                # the test problem defines them: equal for Heat1D, dim+1 -> dim for Poisson1D)
                for field in ("None", "Step", "KL", "KL-full"):
                    for og in ("None", "subset"):
                        for cont in CT.SHIPPED_CONTAINERS:
                            out.append({"kind": "shipped", "problem": prob, "dim": dim, "field": field, "obsmap": og, "prep": "f64",
                                        "container": cont, "cat": k})
    return out


def _steady_rep_combos():
    """(parameter, rhs, operator): every parameter representation with dtype-preserving ('raw') pieces, then one piece at a time"""
    out = [(rp, "raw", "raw") for rp in R.REPS]
    out += [("f64", r, "f64") for r in R.REPS[1:]]
    out += [("f64", "f64", r) for r in R.OP_REPS[1:]]
    return out


def _td_rep_combos(full):
    """(parameter, initial condition, source, operator)"""
    if full:
        return [(rp, ri, rs, ro) for rp in R.REPS for ri in ["raw"] + R.REPS for rs in ["raw"] + R.REPS for ro in ["raw"] + R.OP_REPS]
    out = [(rp, "raw", "raw", "raw") for rp in R.REPS]
    out += [("f64", r, "f64", "f64") for r in R.REPS[1:]]
    out += [("f64", "f64", r, "f64") for r in R.REPS[1:]]
    out += [("f64", "f64", "f64", r) for r in R.OP_REPS[1:]]
    return out


# ----------------------------------------------------------------------------------------
# harness-supplied inputs: forms, solvers, maps, grids
# ----------------------------------------------------------------------------------------
def _grid(N):
    dx = 1.0 / (N + 1)
    return np.linspace(dx, 1.0 - dx, N), dx


def _lap(N, dx):
    return (np.diag(-2.0 * np.ones(N)) + np.diag(np.ones(N - 1), 1) + np.diag(np.ones(N - 1), -1)) / dx ** 2


def _nonsym(opsym, N, dx):
    """the non-symmetric part added to a NEGATIVE definite (diffusion like) operator; None: no such part (symmetric operator)"""
    if opsym is None:
        return None
    if opsym == "upwind":           # - d/dx by the upwind (backward) difference: lower bidiagonal, every row non-symmetric
        return -(np.eye(N) - np.diag(np.ones(N - 1), -1)) / dx
    if opsym == "boundary-row":     # one-sided (ghost node) boundary row: the first row's super-diagonal entry is enlarged
        E = np.zeros((N, N))
        E[0, 1] = 0.5 / dx ** 2
        return E
    raise ValueError(opsym)


def _op_facet(cell):
    return "op=non-symmetric" if cell.get("opsym") else ""


def _steady_form(name, N, k, sparse=False, opsym=None):
    """returns (PDE_form, parameter points [x1, x2], param_dim)"""
    import scipy.sparse as sp
    g, dx = _grid(N)
    S = _nonsym(opsym, N, dx)
    if S is None:
        wrap = (lambda A: sp.csr_matrix(A)) if sparse else (lambda A: A)
    else:           # the steady operators are positive definite (- Laplacian like): subtract the non-symmetric part
        assert not np.allclose(S, S.T)
        wrap = (lambda A: sp.csr_matrix(A - S)) if sparse else (lambda A: A - S)
    if name == "poisson":          # parameter (conductivity on N+1 cell faces) enters the operator
        Dx = np.zeros((N + 1, N))
        for i in range(N + 1):
            if i < N:
                Dx[i, i] += 1.0
            if i >= 1:
                Dx[i, i - 1] -= 1.0
        Dx /= dx
        rhs = 10.0 * np.exp(-((g - 0.5) ** 2) / 0.02)
        form = lambda x: (wrap(Dx.T @ np.diag(np.asarray(x, float)) @ Dx), rhs.copy())
        xs = [1.0 + 0.25 * np.abs(refs.dyadic_vec(N + 1, k)), 0.5 + 0.125 * np.abs(refs.dyadic_vec(N + 1, k + 2))]
        return form, xs, N + 1
    if name == "rhs-param":        # parameter enters the right-hand side only
        A = -_lap(N, dx) + np.eye(N)
        B = refs.full_matrix(N, 3, k)
        form = lambda x: (wrap(A.copy()), B @ np.asarray(x, float))
        xs = [refs.dyadic_vec(3, k), refs.dyadic_vec(3, k + 2, scale=0.5)]
        return form, xs, 3
    if name == "both":
        Lp = -_lap(N, dx)

        def form(x):
            x = np.asarray(x, float)
            return (wrap(Lp + np.diag(1.0 + x[0] ** 2 + g * x[1] ** 2)), x[2] * np.sin(np.pi * g) + x[0])
        xs = [refs.dyadic_vec(3, k + 1), refs.dyadic_vec(3, k + 3, scale=0.5)]
        return form, xs, 3
    raise ValueError(name)


class _Spy:
    """Wraps a linear solver: records what it received and what it returned."""

    def __init__(self, fn):
        self.fn = fn
        self.calls = []

    def __call__(self, A, b, **kw):
        out = self.fn(A, b, **kw)
        self.calls.append((A, np.array(b, dtype=float, copy=True), dict(kw), out))
        return out


def _dense(A):
    return np.asarray(A.todense()) if hasattr(A, "todense") else np.asarray(A, dtype=float)


def _solver(name):
    """returns (linalg_solve or None, kwargs or None, tol, returns_info)"""
    import scipy.linalg
    import scipy.sparse.linalg as spl
    if name == "default":
        return None, None, 1e-9, False
    if name == "numpy":
        return np.linalg.solve, None, 1e-9, False
    if name == "scipy-kwargs":
        return scipy.linalg.solve, {"assume_a": "gen", "check_finite": True}, 1e-9, False
    if name in ("spsolve", "sparse-op"):
        import scipy.sparse as sp
        return (lambda A, b: spl.spsolve(sp.csc_matrix(A), np.asarray(b, float).ravel())), None, 1e-9, False
    if name == "cg-info":
        def cg3(A, b, rtol=1e-13, maxiter=2000):
            cnt = [0]

            def cb(xk):
                cnt[0] += 1
            x, info = spl.cg(A, np.asarray(b, float).ravel(), rtol=rtol, atol=0.0, maxiter=maxiter, callback=cb)
            return x, info, cnt[0]
        return cg3, {"rtol": 1e-13, "maxiter": 5000}, 1e-7, True
    if name == "gmres-tuple":
        return (lambda A, b, **kw: spl.gmres(A, np.asarray(b, float).ravel(), atol=0.0, **kw)), {"rtol": 1e-13, "restart": 50}, 1e-7, True
    raise ValueError(name)


def _map(name):
    if name == "none":
        return None
    if name == "square":
        return lambda u: u ** 2
    if name == "index":
        return lambda u: u[1:3]
    raise ValueError(name)


def _grids(rel, g):
    """(grid_sol, grid_obs as passed, effective observation nodes or None for 'everything')"""
    if rel == "none":
        return None, None, None
    if rel == "equal":
        return g.copy(), None, None
    if rel == "equal-explicit":
        return g.copy(), g.copy(), None
    if rel == "subset":
        idx = [1, 3, len(g) - 1]
        return g.copy(), g[idx].copy(), g[idx].copy()
    if rel == "offnode":
        pts = np.array([0.5 * (g[0] + g[1]), 0.25 * g[2] + 0.75 * g[3], g[-2] + 0.125 * (g[-1] - g[-2])])
        return g.copy(), pts, pts
    if rel in ("subset-desc", "subset-perm", "subset-repeat", "single"):       # solution nodes, listed in another order / twice / alone
        n = len(g)
        idx = {"subset-desc": [n - 1, 3, 1], "subset-perm": [3, n - 1, 0, 1], "subset-repeat": [1, 3, 3, n - 1], "single": [2]}[rel]
        return g.copy(), g[idx].copy(), g[idx].copy()
    if rel == "offnode-perm":       # the points of 'offnode' in non-monotone order
        pts = np.array([g[-2] + 0.125 * (g[-1] - g[-2]), 0.5 * (g[0] + g[1]), 0.25 * g[2] + 0.75 * g[3]])
        return g.copy(), pts, pts
    if rel == "mixed":              # on-node and off-node points alternating (ascending)
        pts = np.array([g[1], 0.5 * (g[1] + g[2]), g[3], g[-2] + 0.125 * (g[-1] - g[-2])])
        return g.copy(), pts, pts
    if rel in ("shifted", "shifted-fine"):     # as many observation points as solution nodes, none (or only the centre) coinciding:
        frac = 0.25 if rel == "shifted" else 2.0 ** -10        # every node moved towards the centre by a fraction of a cell
        pts = g + frac * (g[1] - g[0]) * np.sign(0.5 * (len(g) - 1) - np.arange(len(g)))
        return g.copy(), pts, pts
    raise ValueError(rel)


# ----------------------------------------------------------------------------------------
# reference observation
# ----------------------------------------------------------------------------------------
def _steady_obs_refs(u, g, nodes, mp):
    """list of acceptable observed vectors (first = expected)"""
    from scipy.interpolate import interp1d
    if nodes is None:
        cands = [u.copy()]
        exact = True
    else:
        idx = [int(np.where(g == v)[0][0]) if np.any(g == v) else None for v in nodes]
        if all(i is not None for i in idx):
            cands = [u[idx]]
            exact = True
        else:
            exact = False
            cands = []
            gl, nl = P.local(g, g), P.local(nodes, g)        # coordinates relative to the grid's own first node (see _c18_place)
            for kind in ("quadratic", "linear", "cubic"):
                try:
                    cands.append(np.asarray(interp1d(gl, u, kind=kind)(nl), float))
                except Exception:
                    pass
            cands.append(P.pl_interp(gl, u, nl))
    if mp is not None:
        cands = [np.asarray(mp(c), float) for c in cands]
    return cands, exact


def _td_obs_refs(U, g, times, nodes, tobs, mp):
    """U: (N, K+1).  Acceptable observed arrays (first = expected), and whether restriction is exact."""
    from scipy.interpolate import RectBivariateSpline
    tobs = np.asarray(tobs, float)
    it = [int(np.where(times == v)[0][0]) if np.any(times == v) else None for v in tobs]
    if nodes is None:
        ix = list(range(U.shape[0]))
    else:
        ix = [int(np.where(g == v)[0][0]) if np.any(g == v) else None for v in nodes]
    if all(i is not None for i in it) and all(i is not None for i in ix):
        cands = [U[np.ix_(ix, it)]]
        exact = True
    else:
        exact = False
        cands = []
        if g is not None:
            xo = g if nodes is None else nodes
            gl, xl, tl, sl = P.local(g, g), P.local(xo, g), P.local(times, times), P.local(tobs, times)   # relative to the first node / level
            monotone = bool(np.all(np.diff(xl) >= 0)) and bool(np.all(np.diff(sl) >= 0))
            XX, SS = np.meshgrid(xl, sl, indexing="ij")
            for kx, ky in [(3, 3)] + [p for p in itertools.product((1, 2, 3), repeat=2) if p != (3, 3)]:
                try:
                    spl = RectBivariateSpline(gl, tl, U, kx=kx, ky=ky)
                    # points listed in non-monotone order: evaluated point by point, value of listed point i in row i
                    cands.append(np.asarray(spl(xl, sl) if monotone else spl(XX, SS, grid=False), float))
                except Exception:
                    pass
            cands.append(P.bilinear(gl, tl, U, xl, sl))
    out = []
    for c in cands:
        c1 = np.asarray(mp(c), float) if mp is not None else c
        out.append(np.squeeze(c1) if len(tobs) == 1 else c1)
        if len(tobs) == 1 and mp is not None:       # equally reasonable: the map sees the (n_obs,) vector
            try:
                out.append(np.squeeze(np.asarray(mp(np.squeeze(c, axis=1)), float)))
            except Exception:
                pass
    return out, exact


def _matches(val, cands, tol):
    try:
        v = np.squeeze(np.asarray(val, dtype=float))
    except Exception:
        return False
    for c in cands:
        c = np.squeeze(np.asarray(c, float))
        if v.shape == c.shape and close(v, c, tol):
            return True
    return False


class _Once:
    """Report only the first (most upstream) failure per operation inside one cell."""

    def __init__(self, res):
        self.res = res
        self.seen = set()

    def __call__(self, op, signature, message, **kw):
        if op in self.seen:
            return
        self.seen.add(op)
        self.res.fail(signature, message, **kw)


class _Attribution:
    """Signature of a failure seen in a representation cell: when the same configuration fed with the same integer valued data
    as plain float64 arrays fails as well, the defect is not one of representation and keeps its ordinary signature; otherwise
    the discriminating facet is the representation (e.g. 'ic=int') and replaces the configuration facet.
    Likewise for a cell of the grid location / scale facet: when the same configuration on the unit grid (and the untranslated
    time grid) fails as well the ordinary signature is kept, otherwise the placement ('grid=far-from-origin', 'grid=rescaled',
    'time=far-from-origin') is appended to the configuration facet."""

    def __init__(self, cell, rfacet, pfacet=""):
        self.cell = cell
        self.rfacet = rfacet
        self.pfacet = pfacet
        self.independent = None

    def __call__(self, base):
        if not self.rfacet and not self.pfacet:
            return base
        if self.independent is None:
            reps = self.cell.get("reps")
            if not self.pfacet and reps is not None and all(r == "f64" for r in reps):
                self.independent = True
            else:
                c2 = dict(self.cell)
                if self.rfacet:
                    c2.update({"reps": ["f64"] * len(reps), "solver": "default"} if reps is not None else {"prep": "f64"})
                c2.pop("place", None)
                c2.pop("tplace", None)
                c2.pop("tpos", None)
                c2.pop("tzero", None)
                c2.pop("opsym", None)
                r2 = CellResult(c2)
                try:
                    (_eval_timedep if c2["kind"] == "timedep" else _eval_steady)(c2, r2)
                    self.independent = bool(r2.failures)
                except Exception:
                    self.independent = True
        if self.independent:
            return base
        return base.rsplit("|", 1)[0] + "|" + self.rfacet if self.rfacet else base + "," + self.pfacet


def _obs_without_map(pde, sol):
    """library observation with the observation map switched off (to attribute a mismatch to grid/time handling or to the map)"""
    mp = pde.observation_map
    try:
        pde.observation_map = None
        return pde.observe(sol)
    except Exception:
        return None
    finally:
        pde.observation_map = mp


# ----------------------------------------------------------------------------------------
# steady state
# ----------------------------------------------------------------------------------------
def _eval_steady(cell, res):
    import cuqi
    from cuqi.pde import SteadyStateLinearPDE
    N, k = cell["N"], cell["cat"]
    g, dx = _grid(N)
    sparse_op = cell["solver"] == "spsolve"
    reps = tuple(cell["reps"]) if cell["form"] == "repr" else None
    prep = reps[0] if reps is not None else cell.get("prep")      # representation of the parameter (None: the float catalogue values)
    if reps is not None:
        form, xs, pdim = R.steady_form_repr(N, k, reps)
        rfac = "," + R.repr_facet(reps, ("param", "rhs", "op"))
    else:
        form, xs, pdim = _steady_form(cell["form"], N, k, sparse=sparse_op, opsym=cell.get("opsym"))
        rfac = ""
        if prep is not None:
            xs = [R.cast(R.small_int(x), prep) for x in xs]
            rfac = "" if prep == "f64" else ",param=%s" % prep
    fn, kw, tol, has_info = _solver(cell["solver"])
    if reps is not None and R.has_f32(reps):
        tol = 1e-5                      # single precision data: the solver may work in single precision
    spy = _Spy(fn) if fn is not None else None
    mp = _map(cell["map"])
    gx = P.place_grid(g, cell)          # the grids handed to the library: the unit grid translated / scaled (location / scale facet)
    ptol = P.place_tol(gx)              # rounding of far-away coordinates relative to one cell (interpolated values only)
    gsol, gobs, nodes = _grids(cell["grids"], gx)
    facet = "solver=%s" % cell["solver"]
    once = _Once(res)
    rec = R.Recorder(form, ("operator", "rhs"))
    sg = _Attribution(cell, rfac[1:], ",".join(f for f in (P.facet(cell), _op_facet(cell)) if f))

    def intact(stage):
        bad = rec.altered()
        if bad is not None:
            once("intact", "C18|SteadyStateLinearPDE|input-altered|piece=%s" % bad, "%s handed to the library (by PDE_form / the caller) was "
                 "modified in place during %s" % (bad, stage))
    try:
        pde = SteadyStateLinearPDE(rec, linalg_solve=spy, linalg_solve_kwargs=kw, grid_sol=gsol, grid_obs=gobs, observation_map=mp)
    except Exception as e:
        res.refused += 1
        res.outcomes.add("construct-refused:" + type(e).__name__)
        res.nontrivial = False
        res.transitions += 1
        return
    # model around the same PDE object
    n_out = len(np.atleast_1d(_steady_obs_refs(np.zeros(N), gx, nodes, mp)[0][0]))
    dmap = None
    if cell["geom"] == "int":
        dgeom = pdim
        p2f = lambda x: x
    elif cell["geom"] == "continuous":
        dgeom = cuqi.geometry.Continuous1D(pdim)
        p2f = lambda x: x
    else:
        dgeom = cuqi.geometry.MappedGeometry(cuqi.geometry.Continuous1D(pdim), map=lambda x: np.exp(0.5 * x),
                                             imap=lambda f: 2.0 * np.log(f))
        dgeom.gradient = lambda direction, wrt: direction * 0.5 * np.exp(0.5 * wrt)   # user-supplied chain-rule factor
        p2f = lambda x: np.exp(0.5 * x)
        dmap = lambda x: 0.5 * np.exp(0.5 * x)

    def ref_forward_fun(f):
        A, b = form(f)
        u = np.linalg.solve(_dense(A), np.asarray(b, float))
        return np.atleast_1d(_steady_obs_refs(u, gx, nodes, mp)[0][0]).ravel()

    hook_calls = []
    if cell["hook"] == "jacobian":
        def jac(wrt):
            hook_calls.append(np.array(wrt, float))
            return refs.richardson_jac(ref_forward_fun, np.asarray(wrt, float), h=1e-3)
        pde.jacobian_wrt_parameter = jac
    elif cell["hook"] == "gradient":
        def gradh(direction, wrt):
            hook_calls.append(np.array(wrt, float))
            return np.asarray(direction, float) @ refs.richardson_jac(ref_forward_fun, np.asarray(wrt, float), h=1e-3)
        pde.gradient_wrt_parameter = gradh
    try:
        model = cuqi.model.PDEModel(pde, cuqi.geometry.Continuous1D(n_out), dgeom)
    except Exception as e:
        model = None
        res.refused += 1
        res.outcomes.add("model-refused:" + type(e).__name__)

    nobs = 0
    for step, x in enumerate([xs[0], xs[1], xs[0]]):
        xf = p2f(x)
        A_raw, b_raw = form(xf)
        A_ref, b_ref = _dense(A_raw), np.asarray(b_raw, float)
        u_ref = np.linalg.solve(A_ref, b_ref)
        res.state("%s:x%d" % (cell["form"], step) + rfac + (",op=%s" % cell["opsym"] if cell.get("opsym") else ""))
        # ---- assemble + solve -------------------------------------------------------------
        if spy is not None:
            spy.calls.clear()
        res.transitions += 1
        try:
            pde.assemble(rec.watch("parameter", R.xcopy(xf)))
            sol, info = pde.solve()
        except Exception as e:
            res.refused += 1
            res.outcomes.add("solve-raises:" + type(e).__name__)
            if reps is not None:
                # the types of A and b are those the linear solver accepts: a solver that refuses them itself may be passed on
                import scipy.linalg
                try:
                    (fn or scipy.linalg.solve)(A_raw, b_raw, **(kw or {}))
                except Exception:
                    res.outcomes.add("solver-refuses-type" + rfac)
                    res.nontrivial = False
                    return
            once("solve", sg("C18|SteadyStateLinearPDE|solve-raises|%s" % facet), "assemble/solve raised %r with a solver that accepts the "
                     "assembled operator" % (e,))
            return
        intact("assemble/solve")
        try:
            sol = np.asarray(sol, float).ravel()
        except Exception as e:
            once("solve", sg("C18|SteadyStateLinearPDE|solution-type|%s" % facet), "solution is not a real vector: %r" % (e,))
            return
        res.evaluations += 1
        scale = max(1.0, float(np.linalg.norm(b_ref)))
        rn = float(np.linalg.norm(A_ref @ sol - b_ref)) if sol.shape == b_ref.shape else np.inf
        if not rn <= tol * max(scale, float(np.linalg.norm(A_ref, 2) * np.linalg.norm(sol))) or not close(sol, u_ref, max(tol, 1e-9) * 100):
            once("solve", sg("C18|SteadyStateLinearPDE|residual|%s" % ("first-assembly" if step == 0 else "reassembled")),
                 "form=%s: solution does not satisfy the system assembled for the supplied parameter (step %d of x1,x2,x1): ||Au-b|| = %.3g"
                 % (cell["form"], step, rn), sol=sol, ref=u_ref)
            return
        if spy is not None:
            if len(spy.calls) != 1:
                once("calls", "C18|SteadyStateLinearPDE|solver-calls|%s" % facet, "linear solver called %d times for one solve" % len(spy.calls))
            else:
                A_got, b_got, kw_got, ret = spy.calls[0]
                if not close(_dense(A_got), A_ref, 1e-12) or not close(b_got, b_ref, 1e-12) or kw_got != (kw or {}):
                    once("args", "C18|SteadyStateLinearPDE|solver-arguments|%s" % facet, "solver did not receive (A(x), b(x), **kwargs)")
                exp_info = tuple(ret[1:]) if isinstance(ret, tuple) else None
                ok = (info is None and exp_info is None) or (isinstance(info, tuple) and exp_info is not None and len(info) == len(exp_info)
                                                             and all(a == b for a, b in zip(info, exp_info)))
                if not ok:
                    once("info", "C18|SteadyStateLinearPDE|info|%s" % facet, "info %r is not the tuple of extra values %r returned by the solver"
                         % (info, exp_info))
        elif info is not None:
            once("info", "C18|SteadyStateLinearPDE|info|%s" % facet, "info %r from a solver that returns only the solution" % (info,))
        # ---- observe ----------------------------------------------------------------------
        cands, exact = _steady_obs_refs(u_ref, gx, nodes, mp)
        res.transitions += 1
        obs = None
        obs_ok = True
        sol_keep = sol.copy()
        try:
            obs = pde.observe(sol)
        except Exception as e:
            res.refused += 1
            res.outcomes.add("observe-refused:" + type(e).__name__)
        intact("observe")
        if not np.array_equal(sol, sol_keep):
            once("sol-intact", "C18|SteadyStateLinearPDE|solution-altered|by=observe", "observe() modified the solution array it was given")
        if obs is not None:
            nobs += 1
            res.evaluations += 1
            otol = 1e-10 if (exact and tol <= 1e-9) else max(tol, 1e-9) * 100 + (0.0 if exact else ptol)
            if not _matches(obs, cands, otol):
                obs_ok = False
                ofacet = "grids=%s" % cell["grids"]
                if mp is not None and _matches(_obs_without_map(pde, sol), _steady_obs_refs(u_ref, gx, nodes, None)[0], otol):
                    ofacet = "map=%s" % cell["map"]      # grid handling is right without the map: the map (order) is at fault
                once("observe", sg("C18|SteadyStateLinearPDE|observe|%s" % ofacet),
                         "observed %s != %s (%s)" % (np.round(np.asarray(obs, float), 8).tolist(), np.round(cands[0], 8).tolist() if cands else None,
                                                     "restriction at coinciding nodes" if exact else "no standard interpolant of the solution matches"),
                         obs=obs, ref=cands[0] if cands else None)
            res.outcomes.add("obs:%s:%s:%s" % (cell["grids"], cell["map"], "exact" if exact else "interp") + ("@" + P.facet(cell) if P.facet(cell) else ""))
        # ---- PDEModel.forward -------------------------------------------------------------
        if model is not None:
            res.transitions += 1
            xin = rec.watch("model-input", R.xcopy(x))
            try:
                y = model.forward(xin)
            except Exception as e:
                y = None
                res.refused += 1
                res.outcomes.add("forward-refused:" + type(e).__name__)
                if obs is not None and not isinstance(x, list):      # a list is not an ndarray: the model may refuse it
                    once("forward", sg("C18|PDEModel|forward-raises|geom=%s" % cell["geom"]), "forward raised %r although assemble/solve/observe succeed" % (e,))
            intact("PDEModel.forward")
            ftol = max(tol, 1e-9) * 100 + ptol if not exact else max(1e-10, tol * 100 if tol > 1e-9 else 1e-10)
            if y is not None and cands and obs_ok:      # a wrong observe() is already reported; forward composes it
                res.evaluations += 1
                if not _matches(y, cands, ftol):
                    once("forward", sg("C18|PDEModel|forward|geom=%s" % cell["geom"] + ("" if step == 0 else ",re-evaluated")),
                             "model output differs from assemble-solve-observe of par2fun(x) (step %d of x1,x2,x1)" % step, y=y, ref=cands[0])
            if y is not None and prep not in (None, "f64"):
                # differential oracle: the same values as a float64 array
                res.transitions += 1
                try:
                    yf = model.forward(R.as_float(x))
                except Exception as e:
                    yf = None
                    res.outcomes.add("forward-float-refused:" + type(e).__name__)
                if yf is not None:
                    res.evaluations += 1
                    if not _matches(y, [yf], max(ftol, 1e-10)):
                        once("forward-repr", "C18|PDEModel|forward-representation|pde=SteadyStateLinearPDE" + rfac,
                             "model(x) != model(x as float64 array) for the same values", y=y, ref=yf)
    # ---- gradient -------------------------------------------------------------------------
    if model is not None and cell["hook"] != "skip":
        x = xs[1]
        direction = refs.dyadic_vec(n_out, k + 4, scale=0.5)
        res.transitions += 1
        hook_calls.clear()
        try:
            gr = model.gradient(direction.copy(), x.copy())
        except Exception as e:
            gr = None
            res.refused += 1
            res.outcomes.add("gradient-refused:" + type(e).__name__)
        if gr is not None:
            res.evaluations += 1
            if cell["hook"] == "none":
                # no user Jacobian: a returned gradient must still be the derivative of the pipeline
                gnum = refs.richardson_grad(lambda z: float(direction @ ref_forward_fun(p2f(z))), x, h=1e-3)[0]
                if not close(np.asarray(gr, float).ravel(), gnum, 1e-5):
                    res.fail("C18|PDEModel|gradient|hook=none", "returned gradient is not direction @ J of the assemble-solve-observe pipeline",
                             grad=gr, numeric=gnum)
            else:
                J = refs.richardson_jac(ref_forward_fun, p2f(x), h=1e-3)
                exp = direction @ J
                if dmap is not None:
                    exp = exp * dmap(x)
                if not hook_calls or not close(hook_calls[-1], p2f(x), 1e-12):
                    res.fail("C18|PDEModel|gradient-point|geom=%s,hook=%s" % (cell["geom"], cell["hook"]),
                             "the PDE's Jacobian/gradient was evaluated at %s, expected the function value %s of wrt"
                             % (hook_calls[-1].tolist() if hook_calls else None, p2f(x).tolist()))
                elif not close(np.asarray(gr, float).ravel(), exp, 1e-9):
                    res.fail("C18|PDEModel|gradient|geom=%s,hook=%s" % (cell["geom"], cell["hook"]),
                             "gradient != direction @ J (chain rule through the domain geometry)", grad=gr, ref=exp)
                else:
                    # sanity: it is the derivative of the model's own output
                    gnum = refs.richardson_grad(lambda z: float(direction @ np.asarray(model.forward(z), float).ravel()), x, h=1e-3)[0]
                    if not close(np.asarray(gr, float).ravel(), gnum, 1e-5):
                        res.fail("C18|PDEModel|gradient-vs-forward|geom=%s,hook=%s" % (cell["geom"], cell["hook"]),
                                 "gradient is not the derivative of direction . forward(x)", grad=gr, numeric=gnum)
            res.outcomes.add("grad:%s:%s" % (cell["geom"], cell["hook"]))
    if nobs == 0:
        res.nontrivial = False
    res.sample = {"solution": u_ref, "observed_reference": cands[0] if cands else None}


# ----------------------------------------------------------------------------------------
# time dependent
# ----------------------------------------------------------------------------------------
def _times(tg, K, t0, tpos=None, m=None):
    """K steps starting at t0, or (time-grid position facet) placed relative to t = 0: 'cross0' - level m is exactly 0.0, 'end0' - the
    last level is exactly 0.0, 'positive' / 'negative' - all levels on one side of 0 (first / last level at +-2^-5)"""
    if tg == "uniform":
        dts = [0.008] * K
    else:
        dts = [0.004, 0.010, 0.002, 0.008, 0.012, 0.006, 0.003][:K]
    c = np.concatenate([[0.0], np.cumsum(dts)])
    if tpos is None:
        return t0 + c
    if tpos in ("cross0", "end0"):
        m = K if tpos == "end0" else m
        times = 0.008 * np.arange(-m, K + 1 - m) if tg == "uniform" else c - c[m]
        assert times[m] == 0.0 and times[0] < 0.0 and np.all(np.diff(times) > 0)
        return times
    if tpos == "positive":
        return 2.0 ** -5 + c
    if tpos == "negative":
        return (c - c[K]) - 2.0 ** -5
    raise ValueError(tpos)


def _tpos_facet(cell):
    return TIME_POS_FACET.get(cell.get("tpos"), "")


def _td_form(name, N, k, sparse=False, opsym=None):
    import scipy.sparse as sp
    g, dx = _grid(N)
    Dxx = _lap(N, dx)
    if opsym is not None:           # operator symmetry facet: the same form with the non-symmetric term c(t) * S added to the operator
        form0, xs, pdim, t0 = _td_form(name, N, k)
        S = _nonsym(opsym, N, dx)
        assert not np.allclose(S, S.T)

        def form_ns(x, t):
            A, f, u0 = form0(x, t)
            A = A + (1.0 + 8.0 * t) * S
            return (sp.csr_matrix(A) if sparse else A), f, u0
        return form_ns, xs, pdim, t0
    wrap = (lambda A: sp.csr_matrix(A)) if sparse else (lambda A: A)
    s1 = np.sin(np.pi * g)
    s2 = g * (1 - g)
    if name == "heat-ic":     # Heat1D-like: the parameter is the initial condition
        form = lambda x, t: (wrap(Dxx), np.zeros(N), np.asarray(x, float))
        xs = [refs.dyadic_vec(N, k), refs.dyadic_vec(N, k + 2, scale=0.5)]
        return form, xs, N, 0.0
    if name == "all-dep":     # operator, source and initial condition depend on the parameter; operator and source on t
        def form(x, t):
            x = np.asarray(x, float)
            return (wrap((1.0 + x[0] ** 2) * (1.0 + 20.0 * t) * Dxx), x[1] * (1.0 + 100.0 * t) * s1 + 5.0 * s2, x[2] * s1 + 0.5 * s2)
        xs = [refs.dyadic_vec(3, k), refs.dyadic_vec(3, k + 2, scale=0.5)]
        return form, xs, 3, 0.0
    if name == "ic-time":     # t_0 != 0 and an initial-condition expression that varies with t: only IC(t_0) may be used
        def form(x, t):
            x = np.asarray(x, float)
            return (wrap(Dxx + x[0] * np.diag(g)), np.sin(40.0 * t) * 30.0 * s1, x[1] * s2 * (1.0 + 8.0 * t))
        xs = [refs.dyadic_vec(2, k + 1), refs.dyadic_vec(2, k + 3, scale=0.5)]
        return form, xs, 2, 0.0625
    raise ValueError(name)


def _euler_ref(form, x, times, method):
    A0, f0, u0 = form(x, times[0])
    U = [np.asarray(u0, float)]
    for j in range(len(times) - 1):
        dt = times[j + 1] - times[j]
        if method == "forward_euler":
            A, f, _ = form(x, times[j])
            U.append(U[-1] + dt * (_dense(A) @ U[-1] + np.asarray(f, float)))
        else:
            A, f, _ = form(x, times[j + 1])
            U.append(np.linalg.solve(np.eye(len(U[-1])) - dt * _dense(A), U[-1] + dt * np.asarray(f, float)))
    return np.array(U).T


def _time_obs(name, times):
    K = len(times) - 1
    if name in ("final", "FINAL", "all"):
        arg = name
        eff = times[-1:] if name != "all" else times
    elif name == "final-list":
        arg = np.array([times[-1]])
        eff = arg
    elif name == "on-nodes":
        arg = np.array([times[1], times[K]]) if K >= 2 else np.array([times[0], times[1]])
        eff = arg
    elif name == "off-nodes":
        arg = np.array([0.5 * (times[0] + times[1]), 0.25 * times[K - 1] + 0.75 * times[K]])
        eff = arg
    elif name == "one-off":
        arg = np.array([0.375 * times[K - 1] + 0.625 * times[K]])
        eff = arg
    else:
        raise ValueError(name)
    return arg, np.asarray(eff, float)


def _eval_timedep(cell, res):
    import cuqi
    from cuqi.pde import TimeDependentLinearPDE
    N, k, K, method = cell["N"], cell["cat"], cell["K"], cell["method"]
    g, dx = _grid(N)
    sparse_op = cell["solver"] == "sparse-op"
    reps = tuple(cell["reps"]) if cell["form"] == "repr" else None
    prep = reps[0] if reps is not None else cell.get("prep")      # representation of the parameter (None: the float catalogue values)
    if reps is not None:
        form, xs, pdim, t0 = R.td_form_repr(N, k, reps)
        rfac = "," + R.repr_facet(reps, ("param", "ic", "source", "op"))
    else:
        form, xs, pdim, t0 = _td_form(cell["form"], N, k, sparse=sparse_op, opsym=cell.get("opsym"))
        rfac = ""
        if prep is not None:
            xs = [R.cast(R.small_int(x), prep) for x in xs]
            rfac = "" if prep == "f64" else ",param=%s" % prep
    times = _times(cell["tgrid"], K, t0, cell.get("tpos"), cell.get("tzero"))
    T0 = P.time_origin(cell)
    if T0:                              # the same problem on the translated time axis t' = T0 + t
        form0, times = form, T0 + times
        form = lambda x, t: form0(x, t - T0)
    fn, kw, tol, has_info = _solver(cell["solver"])
    if reps is not None and R.has_f32(reps):
        tol = 1e-6                      # single precision data: the arithmetic may be carried out in single precision
    rtol_fwd = max(tol, 1e-9)
    spy = _Spy(fn) if fn is not None else None
    rec = R.Recorder(form, ("operator", "source", "initial_condition"))
    sg = _Attribution(cell, rfac[1:], ",".join(f for f in (P.facet(cell), _tpos_facet(cell), _op_facet(cell)) if f))
    mp = _map(cell["map"])
    gx = P.place_grid(g, cell)          # the grids handed to the library: the unit grid translated / scaled (location / scale facet)
    ptol = P.place_tol(gx, times)       # rounding of far-away coordinates relative to one cell / step (interpolated values only)
    gsol, gobs, nodes = _grids(cell["grids"], gx)
    targ, teff = _time_obs(cell["time_obs"], times)
    facet = "method=%s" % method
    once = _Once(res)
    tfac = "final" if cell["time_obs"] in ("final", "FINAL", "final-list") else cell["time_obs"]

    def intact(stage):
        bad = rec.altered()
        if bad is not None:
            once("intact", "C18|TimeDependentLinearPDE|input-altered|piece=%s" % bad, "%s handed to the library (by PDE_form / the caller) was "
                 "modified in place during %s" % (bad, stage))
    try:
        pde = TimeDependentLinearPDE(rec, times.copy(), time_obs=targ, method=method, linalg_solve=spy, linalg_solve_kwargs=kw,
                                     grid_sol=gsol, grid_obs=gobs, observation_map=mp)
    except Exception as e:
        res.refused += 1
        res.outcomes.add("construct-refused:" + type(e).__name__)
        res.nontrivial = False
        res.transitions += 1
        return
    # shape of the observation for the model's range geometry
    cz, _ = _td_obs_refs(np.zeros((N, K + 1)) + np.arange(K + 1), gx, times, nodes, teff, mp)
    n_out = int(np.asarray(cz[0]).size) if cz else N
    try:
        model = cuqi.model.PDEModel(pde, cuqi.geometry.Continuous1D(max(n_out, 1)), pdim)
    except Exception as e:
        model = None
        res.refused += 1
    nobs = 0
    cands = []
    # (representation cells: the stale-state sequence x1,x2,x1 is the business of the float cells; two points suffice)
    for step, x in enumerate([xs[0], xs[1], xs[0]] if reps is None else [xs[0], xs[1]]):
        U_ref = _euler_ref(form, x, times, method)
        res.state("%s:%s:x%d" % (cell["form"], method, step) + rfac + ("," + _tpos_facet(cell) if _tpos_facet(cell) else "")
                  + (",op=%s" % cell["opsym"] if cell.get("opsym") else ""))
        if spy is not None:
            spy.calls.clear()
        res.transitions += K
        try:
            pde.assemble(rec.watch("parameter", R.xcopy(x)))
            U, info = pde.solve()
        except Exception as e:
            res.refused += 1
            res.outcomes.add("solve-raises:" + type(e).__name__)
            if sparse_op or (reps is not None and R.may_refuse(reps)):       # not an ndarray (sparse / list): may be refused
                res.nontrivial = False
            else:
                once("solve", sg("C18|TimeDependentLinearPDE|solve-raises|%s,solver=%s" % (facet, cell["solver"])), "assemble/solve raised %r" % (e,))
            return
        intact("assemble/solve")
        try:
            U = np.asarray(U, float)
        except Exception as e:
            once("solve", sg("C18|TimeDependentLinearPDE|solution-type|%s" % facet), "solution is not a real array: %r" % (e,))
            return
        res.evaluations += 1
        re = ",first-assembly" if step == 0 else ",reassembled"
        if U.shape != U_ref.shape:
            once("solve", sg("C18|TimeDependentLinearPDE|solution-shape|%s" % facet), "solution shape %s, expected (nodes, time levels) = %s" % (U.shape, U_ref.shape))
            return
        ltol = max(tol, 1e-9) * 10
        if not close(U[:, 0], U_ref[:, 0], 1e-12):
            once("solve", sg("C18|TimeDependentLinearPDE|initial-condition|%s" % re[1:]),
                 "form=%s: level 0 is not PDE_form(x, t_0)[2] (step %d of x1,x2,x1)" % (cell["form"], step), got=U[:, 0], ref=U_ref[:, 0])
            return
        # every stored level satisfies the documented recurrence from the previous STORED level
        for j in range(K):
            dt = times[j + 1] - times[j]
            if method == "forward_euler":
                A, f, _ = form(x, times[j])
                pred = U[:, j] + dt * (_dense(A) @ U[:, j] + np.asarray(f, float))
                ok = close(U[:, j + 1], pred, rtol_fwd)
            else:
                A, f, _ = form(x, times[j + 1])
                M = np.eye(N) - dt * _dense(A)
                rhs = U[:, j] + dt * np.asarray(f, float)
                ok = float(np.linalg.norm(M @ U[:, j + 1] - rhs)) <= ltol * max(1.0, float(np.linalg.norm(rhs)), float(np.linalg.norm(M, 2) * np.linalg.norm(U[:, j + 1])))
            if not ok:
                once("solve", sg("C18|TimeDependentLinearPDE|recurrence|%s,tgrid=%s%s" % (facet, cell["tgrid"], re if step else "")),
                         "form=" + cell["form"] + ": time level %d does not satisfy the %s recurrence from level %d with operator/source assembled at t=%g and dt=%g"
                         % (j + 1, method, j, times[j] if method == "forward_euler" else times[j + 1], dt), got=U[:, j + 1], ref=U_ref[:, j + 1])
                return
        if not close(U, U_ref, ltol * 10):
            once("solve", sg("C18|TimeDependentLinearPDE|recurrence|%s,tgrid=%s%s" % (facet, cell["tgrid"], re if step else "")),
                 "form=%s: stored levels differ from the reference loop" % cell["form"])
            return
        # info of the last linear solve
        if method == "forward_euler":
            if info is not None:
                once("info", "C18|TimeDependentLinearPDE|info|%s" % facet, "forward Euler returned info %r" % (info,))
        elif spy is not None:
            if len(spy.calls) != K:
                once("calls", "C18|TimeDependentLinearPDE|solver-calls|%s" % facet, "%d linear solves for %d steps" % (len(spy.calls), K))
            else:
                ret = spy.calls[-1][3]
                exp_info = tuple(ret[1:]) if isinstance(ret, tuple) else None
                ok = (info is None and exp_info is None) or (isinstance(info, tuple) and exp_info is not None and len(info) == len(exp_info)
                                                             and all(a == b for a, b in zip(info, exp_info)))
                if not ok:
                    once("info", "C18|TimeDependentLinearPDE|info|solver=%s" % cell["solver"], "info %r is not the extra return values %r of "
                             "the last linear solve" % (info, exp_info))
                if any(c[2] != (kw or {}) for c in spy.calls):
                    once("args", "C18|TimeDependentLinearPDE|solver-arguments|solver=%s" % cell["solver"], "linalg_solve_kwargs not passed")
        # ---- observe ----------------------------------------------------------------------
        cands, exact = _td_obs_refs(U_ref, gsol, times, nodes, teff, mp)
        res.transitions += 1
        obs = None
        obs_ok = True
        U_keep = U.copy()
        try:
            obs = pde.observe(U)
        except Exception as e:
            res.refused += 1
            res.outcomes.add("observe-refused:" + type(e).__name__)
        intact("observe")
        if not np.array_equal(U, U_keep):
            once("sol-intact", "C18|TimeDependentLinearPDE|solution-altered|by=observe", "observe() modified the solution array it was given")
        if obs is not None:
            nobs += 1
            res.evaluations += 1
            otol = 1e-10 if (exact and tol <= 1e-9) else max(tol, 1e-9) * 1000 + (0.0 if exact else ptol)
            if not cands:
                res.outcomes.add("obs-without-reference")
            elif not _matches(obs, cands, otol):
                obs_ok = False
                ofacet = "time_obs=%s,grids=%s" % (tfac, cell["grids"])
                if mp is not None and _matches(_obs_without_map(pde, U), _td_obs_refs(U_ref, gsol, times, nodes, teff, None)[0], otol):
                    ofacet = "map=%s" % cell["map"]      # right without the map: the map (order / squeeze) is at fault
                once("observe", sg("C18|TimeDependentLinearPDE|observe|%s" % ofacet),
                         "observed %s (shape %s) != %s (shape %s): %s" %
                         (np.round(np.asarray(obs, float), 8).tolist(), np.shape(obs), np.round(cands[0], 8).tolist(), np.shape(cands[0]),
                          "restriction at coinciding nodes/times" if exact else "no standard interpolant of the solution matches"),
                         obs=obs, ref=cands[0])
            res.outcomes.add("obs:%s:%s:%s:%s" % (tfac, cell["grids"], cell["map"], "exact" if exact else "interp") + ("@" + P.facet(cell) if P.facet(cell) else "")
                             + ("@" + _tpos_facet(cell) if _tpos_facet(cell) else ""))
        # ---- PDEModel.forward -------------------------------------------------------------
        if model is not None:
            res.transitions += 1
            try:
                y = model.forward(rec.watch("model-input", R.xcopy(x)))
            except Exception as e:
                y = None
                res.refused += 1
                res.outcomes.add("forward-refused:" + type(e).__name__)
                if obs is not None and np.asarray(obs).ndim <= 1 and not isinstance(x, list):   # a list is not an ndarray
                    once("forward", sg("C18|PDEModel|forward-raises|pde=TimeDependentLinearPDE"), "forward raised %r although assemble/solve/observe succeed" % (e,))
            intact("PDEModel.forward")
            otol = 1e-10 if (exact and tol <= 1e-9) else max(tol, 1e-9) * 1000 + (0.0 if exact else ptol)
            if y is not None and cands and obs_ok:
                res.evaluations += 1
                yy = np.asarray(y, float)
                flat = [np.asarray(c, float).ravel() for c in cands] + [np.asarray(c, float).T.ravel() for c in cands]
                if not (_matches(yy, cands, otol) or any(yy.ravel().shape == c.shape and close(yy.ravel(), c, otol) for c in flat)):
                    once("forward", sg("C18|PDEModel|forward|pde=TimeDependentLinearPDE" + ("" if step == 0 else ",re-evaluated")),
                             "model output differs from assemble-solve-observe (step %d of x1,x2,x1)" % step, y=y, ref=cands[0])
            if y is not None and prep not in (None, "f64"):
                # differential oracle: the same values as a float64 array
                res.transitions += 1
                try:
                    yf = model.forward(R.as_float(x))
                except Exception as e:
                    yf = None
                    res.outcomes.add("forward-float-refused:" + type(e).__name__)
                if yf is not None:
                    res.evaluations += 1
                    if not _matches(y, [yf], max(otol, 1e-10)):
                        once("forward-repr", "C18|PDEModel|forward-representation|pde=TimeDependentLinearPDE" + rfac,
                             "model(x) != model(x as float64 array) for the same values", y=y, ref=yf)
    if model is not None:
        res.transitions += 1
        gr = None
        try:
            gr = model.gradient(np.ones(max(n_out, 1)), R.xcopy(xs[0]))
        except Exception as e:
            res.refused += 1
            res.outcomes.add("gradient-refused:" + type(e).__name__)
        if gr is not None and cands:
            def fwd(z):
                c = _td_obs_refs(_euler_ref(form, z, times, method), gsol, times, nodes, teff, mp)[0]
                return float(np.sum(np.asarray(c[0], float))) if c else np.nan
            gnum = refs.richardson_grad(fwd, R.as_float(xs[0]), h=1e-3)[0]
            if not close(np.asarray(gr, float).ravel(), gnum, 1e-5):
                res.fail("C18|PDEModel|gradient|hook=none", "returned gradient is not direction @ J of the assemble-solve-observe pipeline",
                         grad=gr, numeric=gnum)
    if nobs == 0:
        res.nontrivial = False
    res.sample = {"times": times, "reference_levels": U_ref, "observed_reference": cands[0] if cands else None}


# ----------------------------------------------------------------------------------------
# shipped PDE test problems: the model is its own PDE_form driven through the documented pipeline
# ----------------------------------------------------------------------------------------
def _eval_shipped(cell, res):
    import cuqi
    k, dim = cell["cat"], cell["dim"]
    kwargs = {}
    if cell["field"] == "Step":
        kwargs = {"field_type": "Step", "field_params": {"n_steps": 3}}
    elif cell["field"] == "KL":
        kwargs = {"field_type": "KL", "field_params": {"num_modes": 3}}
    elif cell["field"] == "KL-full":
        kwargs = {"field_type": "KL"}
    if cell["obsmap"] == "subset":
        kwargs["observation_grid_map"] = lambda gr: gr[[1, 2, len(gr) - 1]]
    try:
        if cell["problem"] == "Poisson1D":
            if cell["field"] in ("KL", "KL-full"):       # KL coefficients have no sign: use the documented map/imap to keep the conductivity positive
                kwargs.update({"map": lambda x: np.exp(x), "imap": lambda x: np.log(x)})
            tp = cuqi.testproblem.Poisson1D(dim=dim, **kwargs)
        else:
            tp = cuqi.testproblem.Heat1D(dim=dim, max_time=0.04 if dim == 5 else 0.02, **kwargs)
        model = tp.model
        pde = model.pde
    except Exception as e:
        res.refused += 1
        res.nontrivial = False
        res.transitions += 1
        res.outcomes.add("construct-refused:" + type(e).__name__)
        return
    if "container" in cell:
        _eval_shipped_container(cell, res, model, pde)
        return
    pd = model.domain_dim
    geom = model.domain_geometry
    prep = cell.get("prep", "f64")
    pfac = "" if prep == "f64" else ",param=%s" % prep
    base = [refs.dyadic_vec(pd, k), refs.dyadic_vec(pd, k + 2, scale=0.5)]
    if prep != "f64":
        base = [np.round(4.0 * b) for b in base]        # integer valued, so that every representation carries the same values
    if cell["problem"] == "Poisson1D" and cell["field"] != "KL":
        base = [1.0 + np.abs(b) for b in base]          # a positive conductivity
    base = [R.cast(b, prep) for b in base]
    try:        # reference: the function values of the same numbers given as a float64 array
        pts = [(b, np.asarray(geom.par2fun(R.as_float(b)), float)) for b in base]
    except Exception as e:
        res.refused += 1
        res.nontrivial = False
        res.outcomes.add("par2fun-refused:" + type(e).__name__)
        return
    gsol, gobs = pde.grid_sol, pde.grid_obs
    same = len(gsol) == len(gobs) and bool(np.all(gsol == gobs))
    nodes = None if same else np.asarray(gobs, float)
    nobs = 0
    once = _Once(res)
    for step, (x, f) in enumerate([pts[0], pts[-1], pts[0]]):
        res.state("%s:%s:x%d" % (cell["problem"], cell["field"], step) + pfac)
        if cell["problem"] == "Poisson1D":
            A, b = pde.PDE_form(f)
            u = np.linalg.solve(_dense(A), np.asarray(b, float))
            cands, exact = _steady_obs_refs(u, np.asarray(gsol, float), nodes, None)
        else:
            times = np.asarray(pde.time_steps, float)
            U = _euler_ref(pde.PDE_form, f, times, "forward_euler")
            cands, exact = _td_obs_refs(U, np.asarray(gsol, float), times, nodes, times[-1:], None)
            res.transitions += len(times) - 1
        res.transitions += 1
        try:
            y = np.asarray(model.forward(R.xcopy(x)), float)
        except Exception as e:
            res.refused += 1
            res.outcomes.add("forward-refused:" + type(e).__name__)
            continue
        nobs += 1
        res.evaluations += 1
        ytol = 1e-5 if prep == "f32" else (1e-9 if exact else 1e-7)
        if not _matches(y, cands, ytol):
            signature = "C18|%s|forward|obs=%s" % (cell["problem"], cell["obsmap"]) + ("" if step == 0 else ",re-evaluated")
            if pfac:        # right for the same values given as a float64 array: the representation of the parameter is the facet
                try:
                    if _matches(np.asarray(model.forward(R.as_float(x)), float), cands, ytol):
                        signature = "C18|%s|forward|%s" % (cell["problem"], pfac[1:])
                except Exception:
                    pass
            once("forward", signature,
                     "shipped model output differs from its own PDE_form driven through assemble-solve-observe", y=y, ref=cands[0] if cands else None)
        res.outcomes.add("%s:%s:%s:%s" % (cell["problem"], cell["field"], cell["obsmap"], "exact" if exact else "interp") + pfac)
    if nobs == 0:
        res.nontrivial = False
    res.sample = {"reference_output": cands[0] if cands else None}


def _eval_shipped_container(cell, res, model, pde):
    """input container facet on a shipped model: column i of model(container) is the model's own PDE_form driven through
    assemble-solve-observe for par2fun(column i), the output carries the range geometry, Samples / CUQIarray inputs are answered
    wherever the plain parameter vector is"""
    k, container = cell["cat"], cell["container"]
    cc = CT.container_class(container)
    pd, geom = model.domain_dim, model.domain_geometry
    n_out = model.range_dim
    ncols = CT.n_columns(container, pd)
    X = CT.columns(pd, ncols, k)
    if cell["problem"] == "Poisson1D" and cell["field"] not in ("KL", "KL-full"):
        X = 1.0 + np.abs(X)                              # a positive conductivity
    gsol, gobs = pde.grid_sol, pde.grid_obs
    same = len(gsol) == len(gobs) and bool(np.all(gsol == gobs))
    nodes = None if same else np.asarray(gobs, float)
    ffac = "field=%s" % ("identity" if cell["field"] == "None" else "expansion")
    reported = set()

    def fail(sig, msg, **kw):
        if sig not in reported:
            reported.add(sig)
            res.fail(sig, msg, **kw)
    expected, exact, base = [], True, []
    for j in range(ncols):
        try:
            f = np.asarray(geom.par2fun(X[:, j].copy()), float)
        except Exception as e:
            res.refused += 1
            res.nontrivial = False
            res.outcomes.add("par2fun-refused:" + type(e).__name__)
            return
        if cell["problem"] == "Poisson1D":
            A, b = pde.PDE_form(f)
            cands, ex = _steady_obs_refs(np.linalg.solve(_dense(A), np.asarray(b, float)), np.asarray(gsol, float), nodes, None)
        else:
            times = np.asarray(pde.time_steps, float)
            cands, ex = _td_obs_refs(_euler_ref(pde.PDE_form, f, times, "forward_euler"), np.asarray(gsol, float), times, nodes, times[-1:], None)
            res.transitions += len(times) - 1
        exact = exact and ex
        expected.append([np.atleast_1d(np.squeeze(np.asarray(c, float))).ravel() for c in cands])
    ytol = 1e-9 if exact else 1e-7
    for j in range(ncols):
        res.transitions += 1
        res.state("%s:%s:col%d" % (cell["problem"], cell["field"], j))
        try:
            yb = np.asarray(model.forward(X[:, j].copy()), float).ravel()
        except Exception as e:
            res.refused += 1
            res.nontrivial = False
            res.outcomes.add("forward-refused:" + type(e).__name__)
            return                                      # the plain route is the business of the ordinary shipped cells
        res.evaluations += 1
        if not _matches(yb, expected[j], ytol):
            fail("C18|%s|forward|obs=%s" % (cell["problem"], cell["obsmap"]) + ("" if j == 0 else ",re-evaluated"),
                 "shipped model output differs from its own PDE_form driven through assemble-solve-observe", y=yb, ref=expected[j][0])
            return
        base.append(yb)
    nobs = ncols if container == "ndarray" else 0
    if container != "ndarray":
        for obj, kw, cols in CT.wrap(container, X, geom, lambda x: np.asarray(geom.par2fun(np.asarray(x, float)), float)):
            keep = R.snap(CT.raw(obj))
            res.transitions += len(cols)
            try:
                y = model.forward(obj, **kw)
                a = CT._out_array(y)
            except Exception as e:
                res.refused += 1
                res.outcomes.add("container-raises:%s:%s" % (cc, type(e).__name__))
                fail("C18|%s|forward-raises|container=%s,%s" % (cell["problem"], cc, ffac), "model(%s) raised %r although the model answers "
                     "every one of its parameter vectors when given as a plain vector" % (container, e))
                break
            if not R.same(CT.raw(obj), keep):
                fail("C18|%s|input-altered|container=%s" % (cell["problem"], cc), "model(%s) modified the array of its input in place" % container)
            if not CT._check_output_container(y, container, model.range_geometry, n_out, len(cols),
                                              lambda sig, msg, **kw2: fail(sig.replace("|PDEModel|", "|%s|" % cell["problem"]), msg, **kw2)):
                break
            a = a.reshape(n_out, -1) if cc == "samples" else a.reshape(-1, 1)
            for pos, j in enumerate(cols):
                res.evaluations += 1
                col = a[:, pos]
                if not _matches(col, expected[j], ytol) or not (col.shape == base[j].shape and close(col, base[j], 1e-12)):
                    fail("C18|%s|forward-container|container=%s,%s" % (cell["problem"], cc, ffac),
                         "%s of model(%s) is not the shipped model's assemble-solve-observe pipeline applied to %s"
                         % ("column %d" % pos if cc == "samples" else "the output", container, "that column" if cc == "samples" else "its values"),
                         y=col, ref=expected[j][0], per_vector=base[j])
                    break
            nobs += 1
    res.outcomes.add("%s:%s:%s:%s:%s:%s" % (cell["problem"], cell["field"], cell["obsmap"], "exact" if exact else "interp", cc,
                                            "dims-equal" if pd == n_out else "dims-unequal"))
    if nobs == 0:
        res.nontrivial = False
    res.sample = {"parameters": X, "expected_columns": np.column_stack([e[0] for e in expected])}


def _eval_regrid(cell, res):
    """All sequences (length <= depth) over {grid_sol := g_j, grid_obs := h_j, observe} on one live PDE object; after
    every step assemble-solve-observe on the live object must equal a FRESHLY constructed object with the current
    (grid_sol, grid_obs) - the differential oracle for derived flags such as 'grids coincide'."""
    import itertools
    import cuqi
    N, k, cls = cell["N"], cell["cat"], cell["cls"]
    g, dx = _grid(N)
    sols = [g.copy(), 1.2 * g - 0.1]          # same length (the discretisation is fixed), other nodes covering the same range
    obss = [None, g[1::2].copy(), np.array([0.21, 0.48, 0.77]), 0.9 * g + 0.03]
    if cls == "steady":
        form, xs, pdim = _steady_form(cell["form"], N, k)
        make = lambda gs, go: cuqi.pde.SteadyStateLinearPDE(form, grid_sol=gs, grid_obs=go)
        comp = "SteadyStateLinearPDE"
    else:
        form, xs, pdim, t0 = _td_form(cell["form"], N, k)
        times = _times("uniform", 3, t0)
        make = lambda gs, go: cuqi.pde.TimeDependentLinearPDE(form, times, grid_sol=gs, grid_obs=go, method="backward_euler")
        comp = "TimeDependentLinearPDE"
    ops = [("sol", 0), ("sol", 1)] + [("obs", j) for j in range(len(obss))] + [("run", None)]

    def run(pde):
        pde.assemble(xs[0])
        sol, info = pde.solve()
        return np.asarray(pde.observe(sol), dtype=float)
    reported = set()
    for L in range(1, cell["depth"] + 1):
        for seq in itertools.product(range(len(ops)), repeat=L):
            if not any(ops[i][0] != "run" for i in seq) or (L > 1 and ops[seq[-1]][0] == "run" and ops[seq[-2]][0] == "run"):
                continue
            cur = {"sol": sols[0], "obs": sols[0]}      # grid_obs=None resolves to the solution grid of that moment
            live = make(sols[0].copy(), None)
            hist = []
            for oi in seq:
                name, j = ops[oi]
                res.transitions += 1
                try:
                    if name == "run":
                        run(live)
                        hist.append("run")
                        continue
                    val = (sols if name == "sol" else obss)[j]
                    hist.append("grid_%s:=%s" % (name, "abcd"[j]))
                    setattr(live, "grid_" + name, None if val is None else val.copy())
                    cur[name] = val if val is not None else cur["sol"]
                    fresh = make(cur["sol"].copy(), cur["obs"].copy())
                    a, b = run(live), run(fresh)
                except Exception as e:
                    res.refused += 1
                    res.outcomes.add("regrid-raises:%s" % type(e).__name__)
                    break
                res.state((name, j, tuple(np.round(cur["sol"][:2], 6)), len(cur["obs"])))
                res.evaluations += 1
                if a.shape != b.shape or not close(a, b, 1e-10):
                    sig = "C18|%s|observe-after-regrid|attr=grid_%s" % (comp, name)
                    if sig not in reported:
                        reported.add(sig)
                        res.fail(sig, "after the history %s the observation of the live object (shape %s) differs from a freshly "
                                 "constructed object with the same grids (shape %s)" % (hist, a.shape, b.shape), focus={"history": list(hist)})
                    break
            res.traces += 1
    res.outcomes.add("regrid:%s:%s:%d" % (cls, cell["form"], len(reported)))
    res.sample = {"class": comp, "form": cell["form"], "last_history": hist}


def _eval_reuse(cell, res):
    """One live PDE object (and a PDEModel over it) used repeatedly: results handed out earlier must not change when the
    object is used again, and a parameter array modified in place between two calls must be honoured."""
    import cuqi
    N, k, cls = cell["N"], cell["cat"], cell["cls"]
    g, dx = _grid(N)
    if cls == "steady":
        form, xs, pdim = _steady_form(cell["form"], N, k)
        make = lambda: cuqi.pde.SteadyStateLinearPDE(form, grid_sol=g.copy())
        comp = "SteadyStateLinearPDE"
    else:
        form, xs, pdim, t0 = _td_form(cell["form"], N, k)
        times = _times("nonuniform", 4, t0)
        make = lambda: cuqi.pde.TimeDependentLinearPDE(form, times, grid_sol=g.copy(), method=cell["method"], time_obs="final")
        comp = "TimeDependentLinearPDE"
    facet = "method=%s" % cell["method"] if cls == "timedep" else "steady"

    def run(pde, x):
        pde.assemble(x)
        sol, info = pde.solve()
        return sol, pde.observe(sol)
    try:
        # (1) results of an earlier solve are not altered by a later solve on the same object
        live = make()
        sol1, obs1 = run(live, xs[0].copy())
        keep_sol, keep_obs = np.array(sol1, dtype=float, copy=True), np.array(obs1, dtype=float, copy=True)
        run(live, xs[1].copy())
        res.transitions += 2
        res.evaluations += 1
        res.state("solve-twice")
        if not close(np.asarray(sol1, float), keep_sol, 1e-14) or not close(np.asarray(obs1, float), keep_obs, 1e-14):
            res.fail("C18|%s|earlier-result-altered|%s" % (comp, facet), "the solution/observation returned by the first solve changed "
                     "when the same PDE object solved for another parameter (a shared buffer is handed out)")
        # (2) the same parameter array modified in place between two calls
        live = make()
        x = xs[0].copy()
        run(live, x)
        x[0] += 0.5
        x[-1] *= 1.25
        _, ob = run(live, x)
        _, of = run(make(), x.copy())
        res.transitions += 3
        res.evaluations += 1
        res.state("inplace-parameter")
        if not close(np.asarray(ob, float), np.asarray(of, float), 1e-10):
            res.fail("C18|%s|stale-assembly|parameter-modified-in-place" % comp, "after the parameter array was modified in place the "
                     "object still solved the system assembled for the old values")
        # (3) PDEModel: outputs of earlier calls stay what they were; in-place modified input honoured
        model = cuqi.model.PDEModel(make(), range_geometry=cuqi.geometry.Continuous1D(N), domain_geometry=cuqi.geometry.Continuous1D(pdim))
        ya = model.forward(xs[0].copy())
        keep = np.array(ya, dtype=float, copy=True)
        yb = model.forward(xs[1].copy())
        res.transitions += 2
        res.evaluations += 1
        res.state("model-twice")
        if not close(np.asarray(ya, float), keep, 1e-14):
            res.fail("C18|PDEModel|earlier-output-altered|%s" % facet, "the output of model(a) changed when model(b) was evaluated")
        x = xs[0].copy()
        model.forward(x)
        x[0] += 0.5
        y1 = np.asarray(model.forward(x), float)
        y2 = np.asarray(cuqi.model.PDEModel(make(), range_geometry=cuqi.geometry.Continuous1D(N),
                                            domain_geometry=cuqi.geometry.Continuous1D(pdim)).forward(x.copy()), float)
        res.transitions += 3
        res.evaluations += 1
        if not close(y1, y2, 1e-10):
            res.fail("C18|PDEModel|stale-assembly|parameter-modified-in-place", "model(x) after x was modified in place is the output "
                     "for the old x")
    except Exception as e:
        res.refused += 1
        res.outcomes.add("reuse-raises:%s" % type(e).__name__)
    res.traces += 1
    res.outcomes.add("reuse:%s:%s" % (cls, cell["form"]))
    res.sample = {"class": comp, "form": cell["form"]}


def eval_cell(cell):
    res = CellResult(cell)
    if cell["kind"] == "steady":
        _eval_steady(cell, res)
    elif cell["kind"] == "timedep":
        _eval_timedep(cell, res)
    elif cell["kind"] == "shipped":
        _eval_shipped(cell, res)
    elif cell["kind"] == "regrid":
        _eval_regrid(cell, res)
    elif cell["kind"] == "reuse":
        _eval_reuse(cell, res)
    elif cell["kind"] == "container":
        CT.eval_container(cell, res)
    elif cell["kind"] == "history":
        H.eval_history(cell, res)
    else:
        raise ValueError(cell["kind"])
    return res
