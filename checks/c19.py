"""C19 - sample statistics and burn-in / thinning are exact functions of the stored chain.

Two engines:

E1 (history explorer, no state merging) - cells 'hist'/'joint': from a start Samples object every sequence
of length <= 3 over the alphabet { burnthin(b, t) : b in 0..n, t in 1..n+1 (n = current number of samples),
.funvals, .vector, .parameters } is executed on the real objects (depth-first, prefixes shared because every
operation returns a new object and - as checked after every step - leaves its source untouched).  A plain
reference model (python list of per-sample numpy arrays + two flags) is advanced alongside and compared with
the implementation after *every* step.  Each root-to-node path is one reference trace.

E3 (configuration product) - cells 'stats'/'ess': mean / median / variance / std / credible intervals for
every configuration x credibility level against per-coordinate computations on the raw array; ESS / R-hat
against per-variable arviz calls on the unpermuted chains.
"""
import math

import numpy as np

from vfw.core import CellResult, close
from vfw import refs

PROPERTY = "C19"
RULE = ("hist/joint cells = geometry x start representation x Ns; inside a cell ALL operation sequences of length <= 3 "
        "over {burnthin(b,t): b=0..n, t=1..n+1 with n the current chain length; funvals; vector; parameters} are "
        "executed on the real Samples objects and compared step by step with a list-of-arrays reference (a refused "
        "operation ends its branch); stats cells = configuration x Ns, every statistic x credibility level compared "
        "per coordinate; ess cells = dimension x Ns x variable naming x number of extra chains.  A cell is "
        "non-trivial when at least one operation returned a new object that was compared")
BOUND = {
    "quick": "histories of length <= 3, start chains Ns=1..5; 14 start configurations (default geometry dim 1..3 as "
             "parameters and as function vectors, Continuous2D 2x3 par/fun, Image2D 2x3 C and F par/funvec/fun, "
             "StepExpansion 6 nodes/2 steps par/funvec) + JointSamples with 2 members; statistics: same configurations, "
             "Ns=1..7, credibility {0,50,68,95,99,100}; ESS/R-hat: dims {1,2,3,10,11,12,13}, Ns {25,40}, default and "
             "custom (unsorted) variable names, 1-2 extra chains",
    "thorough": "same with start chains Ns=1..8 (length <= 3) plus all histories of length <= 4 from Ns=2..4, and 3 value "
                "catalogues' worth of statistics inputs per cell",
}
ASSUMPTIONS = [
    "burnthin with b >= Ns may raise (the library does) or return the empty slice; both accepted",
    "a conversion the geometry does not offer (Continuous2D has no vector form) may raise; the branch ends there",
    "variance/std: numpy's default (population, ddof=0) or the sample version (ddof=1) accepted if used consistently; "
    "credible bounds: any of numpy's percentile interpolation rules accepted, the default (linear) is what is observed",
    "reference conversions are index loops written here (Image2D order, StepExpansion partition, identity for the "
    "default geometry); for Continuous2D, whose node order is not documented, the geometry's own per-sample map is "
    "the primitive (the geometry maps themselves are property C13)",
    "arviz.ess / arviz.rhat applied to ONE variable's chain is the trusted base for the diagnostics",
]

PERCENTS = [0, 50, 68, 95, 99, 100]


# ----------------------------------------------------------------------------------------
# configurations: geometry + reference maps
# ----------------------------------------------------------------------------------------
class Conf:
    """Geometry of a start configuration together with reference per-sample maps."""

    def __init__(self, kind):
        import cuqi
        self.kind = kind
        G = cuqi.geometry
        if kind.startswith("default"):
            self.d = int(kind[-1])
            self.geom = None
            self.par_dim, self.fun_shape, self.fun_is_vec, self.has_vec = self.d, (self.d,), True, True
        elif kind == "c2d":
            self.geom = G.Continuous2D((2, 3))
            self.par_dim, self.fun_shape, self.fun_is_vec, self.has_vec = 6, (2, 3), False, False
        elif kind in ("imgC", "imgF"):
            self.order = kind[-1]
            self.geom = G.Image2D((2, 3), order=self.order)
            self.par_dim, self.fun_shape, self.fun_is_vec, self.has_vec = 6, (2, 3), False, True
        elif kind == "step":
            self.geom = G.StepExpansion(np.linspace(0, 1, 6), n_steps=2)
            self.part = [0, 0, 0, 1, 1, 1]     # documented partition of 6 nodes into 2 steps (no boundary node)
            self.par_dim, self.fun_shape, self.fun_is_vec, self.has_vec = 2, (6,), True, True
        else:
            raise ValueError(kind)
        self.funvec_dim = int(np.prod(self.fun_shape))

    # reference maps (one sample) -----------------------------------------------------------
    def par2fun(self, p):
        p = np.asarray(p, float)
        if self.kind.startswith("default"):
            return p.copy()
        if self.kind == "c2d":
            return np.asarray(self.geom.par2fun(p.copy()), float).reshape(2, 3)
        if self.kind in ("imgC", "imgF"):
            out = np.zeros((2, 3))
            for a in range(2):
                for b in range(3):
                    out[a, b] = p[a * 3 + b] if self.order == "C" else p[a + 2 * b]
            return out
        return np.array([p[self.part[k]] for k in range(6)])

    def fun2par(self, f):
        f = np.asarray(f, float)
        if self.kind.startswith("default"):
            return f.copy()
        if self.kind == "c2d":
            return np.asarray(self.geom.fun2par(f.copy()), float).reshape(6)
        if self.kind in ("imgC", "imgF"):
            out = np.zeros(6)
            for a in range(2):
                for b in range(3):
                    out[a * 3 + b if self.order == "C" else a + 2 * b] = f[a, b]
            return out
        return np.array([np.mean([f[k] for k in range(6) if self.part[k] == i]) for i in range(2)])

    def fun2vec(self, f):
        if self.fun_is_vec:
            return np.asarray(f, float).copy()
        if not self.has_vec:
            raise NotImplementedError
        return self.fun2par(f)          # Image2D: documented vector form = the pixel vector

    def vec2fun(self, v):
        if self.fun_is_vec:
            return np.asarray(v, float).copy()
        if not self.has_vec:
            raise NotImplementedError
        return self.par2fun(v)


class Ref:
    """Reference state: a python list of per-sample arrays and the representation flags."""

    def __init__(self, items, is_par, is_vec):
        self.items, self.is_par, self.is_vec = list(items), is_par, is_vec

    def burnthin(self, b, t):
        return Ref(self.items[b::t], self.is_par, self.is_vec)

    def funvals(self, cf):
        if not self.is_par and not self.is_vec:
            return self
        conv = cf.par2fun if self.is_par else cf.vec2fun
        return Ref([conv(x) for x in self.items], False, cf.fun_is_vec)

    def vector(self, cf):
        if self.is_vec or self.is_par:
            return self
        return Ref([cf.fun2vec(x) for x in self.items], False, True)

    def parameters(self, cf):
        if self.is_par:
            return self
        if self.is_vec:
            return Ref([cf.fun2par(cf.vec2fun(x)) for x in self.items], True, True)
        return Ref([cf.fun2par(x) for x in self.items], True, True)

    def array(self, item_shape):
        if not self.items:
            return np.zeros(tuple(item_shape) + (0,))
        return np.stack(self.items, axis=-1)

    def key(self):
        return "%s%s:n=%d" % ("P" if self.is_par else "F", "v" if self.is_vec else "a", len(self.items))


def _values(shape, Ns, k, salt=0):
    """Deterministic raw samples of shape `shape + (Ns,)`: dyadic, all distinct within a coordinate."""
    dim = int(np.prod(shape))
    A = np.zeros((dim, Ns))
    for j in range(Ns):
        A[:, j] = refs.dyadic_vec(dim, k + j + salt, scale=0.25) + 0.5 * ((j * j + k) % 5) - 0.125 * j
    return A.reshape(tuple(shape) + (Ns,))


def _start(cf, start, Ns, k):
    """(Samples, Ref) for a start representation: 'par' | 'funvec' | 'fun'."""
    import cuqi
    if start == "par":
        raw = _values((cf.par_dim,), Ns, k)
        S = cuqi.samples.Samples(raw.copy(), geometry=cf.geom)
        S.geometry      # the default geometry is created lazily on first access: do it before fingerprinting
        return S, Ref([raw[..., j].copy() for j in range(Ns)], True, True)
    if start == "funvec":
        raw = _values((cf.funvec_dim,), Ns, k, salt=1)
        S = cuqi.samples.Samples(raw.copy(), geometry=cf.geom, is_par=False, is_vec=True)
        S.geometry
        return S, Ref([raw[..., j].copy() for j in range(Ns)], False, True)
    raw = _values(cf.fun_shape, Ns, k, salt=2)
    S = cuqi.samples.Samples(raw.copy(), geometry=cf.geom, is_par=False, is_vec=False)
    return S, Ref([raw[..., j].copy() for j in range(Ns)], False, False)


HIST_CONFS = [("default1", "par"), ("default2", "par"), ("default3", "par"), ("default2", "funvec"),
              ("c2d", "par"), ("c2d", "fun"),
              ("imgC", "par"), ("imgC", "funvec"), ("imgC", "fun"),
              ("imgF", "par"), ("imgF", "funvec"), ("imgF", "fun"),
              ("step", "par"), ("step", "funvec")]


def cells(tier, seed):
    k = refs.cat(seed)
    nmax = 5 if tier == "quick" else 8
    for kind, start in HIST_CONFS:
        for Ns in range(1, nmax + 1):
            yield {"fam": "hist", "geom": kind, "start": start, "Ns": Ns, "depth": 3, "cat": k}
        if tier != "quick":
            for Ns in range(2, 5):
                yield {"fam": "hist", "geom": kind, "start": start, "Ns": Ns, "depth": 4, "cat": k}
    for Ns in range(1, nmax + 1):
        yield {"fam": "joint", "Ns": Ns, "depth": 3, "cat": k}
    for kind, start in HIST_CONFS:
        for Ns in range(1, 8):
            yield {"fam": "stats", "geom": kind, "start": start, "Ns": Ns, "cat": k,
                   "ncat": 1 if tier == "quick" else 3}
    for d in (1, 2, 3, 10, 11, 12, 13):
        for Ns in (25, 40):
            for names in ("default", "custom"):
                for extra in (1, 2):
                    yield {"fam": "ess", "dim": d, "Ns": Ns, "names": names, "extra": extra, "cat": k}


# ----------------------------------------------------------------------------------------
# E1: history exploration
# ----------------------------------------------------------------------------------------
def _fp(S):
    a = np.asarray(S.samples)
    return (a.shape, a.tobytes(), bool(S.is_par), bool(S.is_vec), id(S._geometry))


def _same_geometry(a, b):
    if a is b:
        return True
    try:
        return bool(a == b)
    except Exception:
        return False


class Explorer:
    def __init__(self, res, cf, comp, facet):
        self.res, self.cf, self.comp, self.facet = res, cf, comp, facet
        self._seen = set()
        self.stop = False

    def fail(self, op, what, msg, **detail):
        sig = "C19|%s|%s|%s" % (self.comp, op, what)
        if sig not in self._seen:
            self._seen.add(sig)
            self.res.fail(sig, msg, **detail)

    def item_shape(self, ref):
        if ref.is_par:
            return (self.cf.par_dim,)
        if ref.is_vec:
            return (self.cf.funvec_dim,)
        return self.cf.fun_shape

    def compare(self, op, S, ref, hist, exact):
        """Implementation object S against reference state ref after operation op."""
        res = self.res
        res.evaluations += 1
        want = ref.array(self.item_shape(ref))
        got = np.asarray(S.samples)
        ok = got.shape == want.shape and (np.array_equal(got, want) if exact else close(got, want, 1e-12))
        opname = op[0]
        if not ok:
            self.fail(opname, "samples", "after %s the stored samples differ from the reference %s"
                      % (hist, "slice [..., b::t]" if exact else "per-sample conversion"), history=hist, impl=got, ref=want)
            return False
        if bool(S.is_par) != ref.is_par or bool(S.is_vec) != ref.is_vec:
            self.fail(opname, "flags", "after %s flags are is_par=%s is_vec=%s, reference is_par=%s is_vec=%s"
                      % (hist, S.is_par, S.is_vec, ref.is_par, ref.is_vec), history=hist)
            return False
        if S.Ns != len(ref.items):
            self.fail(opname, "Ns", "after %s Ns=%s, reference has %d samples" % (hist, S.Ns, len(ref.items)), history=hist)
            return False
        return True

    def ops(self, n):
        out = [("burnthin", b, t) for b in range(0, n + 1) for t in range(1, n + 2)]
        return out + [("funvals",), ("vector",), ("parameters",)]

    def explore(self, S, ref, depth, hist, root):
        res = self.res
        res.state(ref.key())
        if depth == 0 or self.stop:
            return
        n = len(ref.items)
        children = []     # every operation is executed and judged first, then the children are expanded: the
        #                   shortest failing history is therefore the one reported
        for op in self.ops(n):
            if self.stop:
                return
            h = hist + [list(op)]
            g_before = S.geometry
            before = _fp(S)
            res.transitions += 1
            res.traces += 1
            refused = None
            try:
                if op[0] == "burnthin":
                    S2 = S.burnthin(op[1], op[2])
                else:
                    S2 = getattr(S, op[0])
            except Exception as e:  # noqa
                refused = e
            # reference step
            ref_refuses = False
            if op[0] == "burnthin":
                ref2 = ref.burnthin(op[1], op[2])
            else:
                try:
                    ref2 = getattr(ref, op[0])(self.cf)
                except NotImplementedError:
                    ref_refuses, ref2 = True, ref
            # source untouched, whatever happened
            if _fp(S) != before:
                self.fail(op[0], "source-altered", "%s changed its source object (history %s)" % (op[0], h), history=h)
                self.stop = True
                return
            if refused is not None:
                res.refused += 1
                res.count("refused:" + op[0])
                allowed = ref_refuses or (op[0] == "burnthin" and len(ref2.items) == 0)
                if not allowed:
                    self.fail(op[0], "raises", "%s raised %r although the reference result is well defined (history %s)"
                              % (op[0], refused, h), history=h)
                continue
            if ref_refuses:
                # the implementation produced something the geometry does not offer a reference for: not judged
                res.count("unjudged-conversion")
                continue
            exact = op[0] == "burnthin"
            if not self.compare(op, S2, ref2, h, exact):
                continue
            if not _same_geometry(S2.geometry, g_before):
                self.fail(op[0], "geometry", "%s did not preserve the geometry (history %s)" % (op[0], h), history=h)
                continue
            if _fp(root[0]) != root[1]:
                self.fail(op[0], "root-altered", "the start object changed during history %s" % (h,), history=h)
                self.stop = True
                return
            res.outcomes.add("%s->%s" % (op[0], ref2.key()))
            if res.sample is None and len(h) == 3 and op[0] == "burnthin" and len(ref2.items) >= 1:
                res.sample = {"history": h, "final_samples": np.asarray(S2.samples), "flags": [S2.is_par, S2.is_vec]}
            if len(ref2.items) == 0:
                continue
            children.append((S2, ref2, h))
        for S2, ref2, h in children:
            self.explore(S2, ref2, depth - 1, h, root)


def eval_hist(cell, res):
    cf = Conf(cell["geom"])
    S, ref = _start(cf, cell["start"], cell["Ns"], cell["cat"])
    ex = Explorer(res, cf, "Samples", "")
    if not ex.compare(("construct",), S, ref, [], True):
        return
    ex.explore(S, ref, cell["depth"], [], (S, _fp(S)))


def eval_joint(cell, res):
    """JointSamples: burnthin acts on every member; histories of burnthin only (its whole interface)."""
    import cuqi
    Ns, k = cell["Ns"], cell["cat"]
    cfx, cfy = Conf("default2"), Conf("imgF")
    Sx, rx = _start(cfx, "par", Ns, k)
    Sy, ry = _start(cfy, "fun", Ns, k + 1)
    J = cuqi.samples.JointSamples({"x": Sx, "y": Sy})
    seen = set()

    def fail(what, msg, **d):
        sig = "C19|JointSamples|burnthin|%s" % what
        if sig not in seen:
            seen.add(sig)
            res.fail(sig, msg, **d)

    def rec(J, refs_, depth, hist):
        res.state("joint:n=%d" % len(refs_[0].items))
        if depth == 0:
            return
        n = len(refs_[0].items)
        children = []
        for b in range(0, n + 1):
            for t in range(1, n + 2):
                h = hist + [[b, t]]
                before = {key: _fp(J[key]) for key in J}
                res.transitions += 1
                res.traces += 1
                try:
                    J2 = J.burnthin(b, t)
                    err = None
                except Exception as e:  # noqa
                    err = e
                if {key: _fp(J[key]) for key in J} != before:
                    fail("source-altered", "JointSamples.burnthin changed its source (history %s)" % (h,))
                    return
                new = [r.burnthin(b, t) for r in refs_]
                if err is not None:
                    res.refused += 1
                    if len(new[0].items) != 0:
                        fail("raises", "burnthin(%d,%d) raised %r on %d samples" % (b, t, err, n), history=h)
                    continue
                res.evaluations += 1
                if not isinstance(J2, cuqi.samples.JointSamples) or list(J2.keys()) != list(J.keys()):
                    fail("members", "result is %s with keys %s" % (type(J2).__name__, list(getattr(J2, "keys", lambda: [])())), history=h)
                    continue
                ok = True
                for key, r2, cf in zip(J.keys(), new, (cfx, cfy)):
                    got = np.asarray(J2[key].samples)
                    want = r2.array((cf.par_dim,) if r2.is_par else cf.fun_shape)
                    if got.shape != want.shape or not np.array_equal(got, want):
                        fail("samples", "member %r after history %s is not the slice [..., b::t]" % (key, h), impl=got, ref=want, history=h)
                        ok = False
                    elif bool(J2[key].is_par) != r2.is_par or bool(J2[key].is_vec) != r2.is_vec:
                        fail("flags", "member %r lost its representation flags (history %s)" % (key, h), history=h)
                        ok = False
                    elif not _same_geometry(J2[key].geometry, J[key].geometry):
                        fail("geometry", "member %r lost its geometry (history %s)" % (key, h), history=h)
                        ok = False
                if not ok:
                    continue
                res.outcomes.add("joint-burnthin->n=%d" % len(new[0].items))
                if len(new[0].items) == 0:
                    continue
                children.append((J2, new, h))
        for J2, new, h in children:
            rec(J2, new, depth - 1, h)
    rec(J, [rx, ry], cell["depth"], [])


# ----------------------------------------------------------------------------------------
# E3: statistics
# ----------------------------------------------------------------------------------------
_PCT_METHODS = ["linear", "lower", "higher", "midpoint", "nearest", "inverted_cdf", "averaged_inverted_cdf",
                "closest_observation", "interpolated_inverted_cdf", "hazen", "weibull", "median_unbiased", "normal_unbiased"]


def _ref_stats(raw):
    """Per-coordinate statistics of raw (item_shape + (Ns,)) with explicit loops over the coordinates."""
    shape = raw.shape[:-1]
    n = raw.shape[-1]
    out = {k: np.zeros(shape) for k in ("mean", "median", "var0", "var1")}
    for idx in np.ndindex(*shape):
        chain = [float(raw[idx + (j,)]) for j in range(n)]
        m = math.fsum(chain) / n
        s = sorted(chain)
        med = s[n // 2] if n % 2 else 0.5 * (s[n // 2 - 1] + s[n // 2])
        ss = math.fsum((c - m) ** 2 for c in chain)
        out["mean"][idx], out["median"][idx] = m, med
        out["var0"][idx] = ss / n
        out["var1"][idx] = ss / (n - 1) if n > 1 else float("nan")
    return out


def _ref_pct(raw, q, method="linear"):
    shape = raw.shape[:-1]
    out = np.zeros(shape)
    for idx in np.ndindex(*shape):
        chain = np.array([raw[idx + (j,)] for j in range(raw.shape[-1])], float)
        out[idx] = np.percentile(chain, q, method=method)
    return out


def _check_stats(res, fail, S, raw, label):
    """All statistics of Samples S against the raw array `raw` (item_shape + (Ns,))."""
    R = _ref_stats(raw)
    shape = raw.shape[:-1]
    res.count("stats-on:" + label)
    label = "multi-dim-samples" if len(shape) > 1 else "vector-samples"   # the only facet that selects a code path
    got = {}
    for name, fn in (("mean", S.mean), ("median", S.median), ("variance", S.variance), ("std", S.std)):
        res.transitions += 1
        try:
            got[name] = np.asarray(fn(), float)
        except Exception as e:  # noqa
            fail(name, "raises,%s" % label, "%s() raised %r" % (name, e))
            return
        res.evaluations += 1
        if got[name].shape != shape:
            fail(name, "shape,%s" % label, "%s() has shape %s, one value per coordinate means %s" % (name, got[name].shape, shape))
            return
    if not close(got["mean"], R["mean"], 1e-12):
        fail("mean", "values,%s" % label, "mean() is not the per-coordinate mean over the sample axis", impl=got["mean"], ref=R["mean"])
    if not close(got["median"], R["median"], 1e-12):
        fail("median", "values,%s" % label, "median() is not the per-coordinate median over the sample axis", impl=got["median"], ref=R["median"])
    dd = None
    for name, r in (("var0", R["var0"]), ("var1", R["var1"])):
        if close(got["variance"], r, 1e-11):
            dd = name
            break
    if dd is None:
        fail("variance", "values,%s" % label, "variance() is neither the population nor the sample variance per coordinate",
             impl=got["variance"], ref=R["var0"])
    else:
        res.count("variance-" + dd)
        if not close(got["std"], np.sqrt(R[dd]), 1e-11):
            fail("std", "values,%s" % label, "std() is not the square root of the per-coordinate variance", impl=got["std"],
                 ref=np.sqrt(R[dd]))
    for pc in PERCENTS:
        res.transitions += 2
        try:
            ci = S.compute_ci(pc)
            lo, up = np.asarray(ci[0], float), np.asarray(ci[1], float)
            w = np.asarray(S.ci_width(pc), float)
        except Exception as e:  # noqa
            fail("compute_ci", "raises,%s" % label, "compute_ci(%s) raised %r" % (pc, e))
            return
        res.evaluations += 1
        if lo.shape != shape or up.shape != shape or w.shape != shape:
            fail("compute_ci", "shape,%s" % label, "CI bounds have shapes %s/%s/%s, expected %s" % (lo.shape, up.shape, w.shape, shape))
            return
        ql, qu = (100 - pc) / 2.0, 100 - (100 - pc) / 2.0
        matched = None
        for meth in _PCT_METHODS:
            if close(lo, _ref_pct(raw, ql, meth), 1e-12) and close(up, _ref_pct(raw, qu, meth), 1e-12):
                matched = meth
                break
        if matched is None:
            fail("compute_ci", "values,%s" % label, "compute_ci(%s) bounds are not the per-coordinate %g/%g percentiles over "
                 "the sample axis" % (pc, ql, qu), impl=[lo, up], ref=[_ref_pct(raw, ql), _ref_pct(raw, qu)])
        else:
            res.count("percentile-" + matched)
        tol = 1e-12 * max(1.0, float(np.max(np.abs(raw))))
        if np.any(lo > R["median"] + tol) or np.any(R["median"] > up + tol):
            fail("compute_ci", "order,%s" % label, "lower bound <= median <= upper bound violated at level %s" % pc,
                 lo=lo, median=R["median"], up=up)
        if not close(w, up - lo, 1e-12):
            fail("ci_width", "values,%s" % label, "ci_width(%s) is not upper - lower bound" % pc, impl=w, ref=up - lo)
        if pc == 100 and matched is not None:
            if not close(lo, raw.min(axis=-1), 1e-12) or not close(up, raw.max(axis=-1), 1e-12):
                fail("compute_ci", "values,%s" % label, "the 100% interval is not [min, max] of each coordinate")
    res.outcomes.add("stats:%s:%s" % (shape, np.round(got["mean"].ravel()[:2], 6).tolist()))


def eval_stats(cell, res):
    seen = set()

    def fail(op, what, msg, **d):
        sig = "C19|Samples|%s|%s" % (op, what)
        if sig not in seen:
            seen.add(sig)
            res.fail(sig, msg, **d)
    cf = Conf(cell["geom"])
    Ns = cell["Ns"]
    for kk in range(cell["ncat"]):
        k = cell["cat"] + kk
        S, ref = _start(cf, cell["start"], Ns, k)
        item = (cf.par_dim,) if ref.is_par else ((cf.funvec_dim,) if ref.is_vec else cf.fun_shape)
        raw = ref.array(item)
        before = _fp(S)
        res.state("stats-" + ref.key())
        _check_stats(res, fail, S, raw, "repr=" + ("par" if ref.is_par else ("funvec" if ref.is_vec else "fun")))
        # statistics of function-value samples are those of the converted samples
        if ref.is_par or ref.is_vec:
            rf = ref.funvals(cf)
            try:
                Sf = S.funvals
            except Exception as e:  # noqa
                fail("funvals", "raises", "funvals raised %r" % (e,))
                Sf = None
            if Sf is not None:
                res.state("stats-funvals")
                if np.asarray(Sf.samples).shape == rf.array(cf.fun_shape).shape and \
                        close(np.asarray(Sf.samples), rf.array(cf.fun_shape), 1e-12):
                    _check_stats(res, fail, Sf, rf.array(cf.fun_shape), "repr=converted-fun")
                else:
                    res.count("conversion-differs-statistics-not-judged")   # flagged by the history cells
        # statistics after burn-in/thinning are those of the slice
        if Ns >= 2:
            b, t = 1, 2
            rb = ref.burnthin(b, t)
            res.state("stats-burnthin")
            Sb = S.burnthin(b, t)
            if np.array_equal(np.asarray(Sb.samples), rb.array(item)):
                _check_stats(res, fail, Sb, rb.array(item), "repr=burnthinned")
            else:
                res.count("burnthin-differs-statistics-not-judged")   # flagged by the history cells
        if _fp(S) != before:
            fail("statistics", "source-altered", "computing statistics changed the samples")
    res.sample = {"mean": np.asarray(S.mean()), "ci95": [np.asarray(x) for x in S.compute_ci(95)]}


# ----------------------------------------------------------------------------------------
# E3: ESS / R-hat receive each variable's chain unpermuted
# ----------------------------------------------------------------------------------------
def _chains(d, n, k, salt):
    """Deterministic chains with a different autocorrelation structure per variable (all ESS / R-hat distinct)."""
    X = np.zeros((d, n))
    for i in range(d):
        for j in range(n):
            X[i, j] = (0.5 * i + ((j * (i + 2 + salt) + k) % (i + 3)) * 0.5 + 0.25 * ((j * j + i + salt) % 3)
                       + (j * (i + 1)) / (8.0 * n) * ((i + k) % 3) + (0.5 * (i + 1) if j < (i + 2) else 0.0))
    return X


def eval_ess(cell, res):
    import cuqi
    import arviz
    d, n, k = cell["dim"], cell["Ns"], cell["cat"]
    seen = set()

    def fail(op, what, msg, **dd):
        sig = "C19|Samples|%s|%s" % (op, what)
        if sig not in seen:
            seen.add(sig)
            res.fail(sig, msg, **dd)
    if cell["names"] == "default":
        geom = None
    else:
        base = ["zeta", "b", "alpha", "v10", "v2", "m", "c", "y", "a", "x1", "x0", "q", "k"]
        geom = cuqi.geometry.Discrete(base[:d])
    X = _chains(d, n, k, 0)
    S = cuqi.samples.Samples(X.copy(), geometry=geom)
    res.state("ess")
    res.transitions += 1
    try:
        ess = np.asarray(S.compute_ess(), float)
    except Exception as e:  # noqa
        fail("compute_ess", "raises", "compute_ess raised %r" % (e,))
        ess = None
    ref = np.array([float(arviz.ess(X[i].copy())) for i in range(d)])
    if ess is not None:
        res.evaluations += 1
        if ess.shape != (d,):
            fail("compute_ess", "shape", "compute_ess returned shape %s for %d variables" % (ess.shape, d))
        elif not close(ess, ref, 1e-9):
            perm = sorted(range(d), key=lambda i: ref[i])
            what = "permuted" if close(np.sort(ess), np.sort(ref), 1e-9) else "values"
            fail("compute_ess", what + ",names=%s" % cell["names"], "compute_ess differs from arviz.ess of each variable's own chain "
                 "(%s)" % what, impl=ess, ref=ref)
        res.outcomes.add("ess-distinct=%d" % len(set(np.round(ref, 6))))
    others = [cuqi.samples.Samples(_chains(d, n, k, s + 1), geometry=geom) for s in range(cell["extra"])]
    res.transitions += 1
    try:
        rh = np.asarray(S.compute_rhat(others if cell["extra"] > 1 else others[0]), float)
    except Exception as e:  # noqa
        fail("compute_rhat", "raises", "compute_rhat raised %r" % (e,))
        return
    refr = np.array([float(arviz.rhat(np.array([X[i]] + [np.asarray(o.samples)[i] for o in others]))) for i in range(d)])
    res.evaluations += 1
    if rh.shape != (d,):
        fail("compute_rhat", "shape", "compute_rhat returned shape %s for %d variables" % (rh.shape, d))
    elif not close(rh, refr, 1e-9):
        what = "permuted" if close(np.sort(rh), np.sort(refr), 1e-9) else "values"
        fail("compute_rhat", what + ",names=%s" % cell["names"], "compute_rhat differs from arviz.rhat of each variable's own chains "
             "(%s)" % what, impl=rh, ref=refr)
    res.outcomes.add("rhat-distinct=%d" % len(set(np.round(refr, 6))))
    if not np.array_equal(np.asarray(S.samples), X):
        fail("diagnostics", "source-altered", "ESS / R-hat changed the samples")
    res.sample = {"ess": ess, "ess_reference": ref, "rhat": rh}


FAMS = {"hist": eval_hist, "joint": eval_joint, "stats": eval_stats, "ess": eval_ess}


def eval_cell(cell):
    import cuqi  # noqa
    res = CellResult(cell)
    FAMS[cell["fam"]](cell, res)
    if res.transitions == 0:
        res.nontrivial = False
    return res
