"""C19 - sample statistics and burn-in / thinning are exact functions of the stored chain.

Three engines:

E1 (history explorer, no state merging) - cells 'hist'/'joint': from a start Samples object every sequence
of length <= 3 over the alphabet { burnthin(b, t) : b in 0..n, t in 1..n+1 (n = current number of samples),
.funvals, .vector, .parameters } is executed on the real objects (depth-first, prefixes shared because every
operation returns a new object and - as checked after every step - leaves its source untouched).  A plain
reference model (python list of per-sample numpy arrays + two flags) is advanced alongside and compared with
the implementation after *every* step.  Each root-to-node path is one reference trace.
On the start chain (first step of every history) the burn-in/thinning alphabet is the complete boundary product
b in 0..Ns+1, t in 1..Ns+2, each pair with python-int and numpy-int arguments, plus the one-argument form
burnthin(b); oracle: exactly stored[b::t] whenever b < Ns (a raise there is a violation), refusal or the empty
set only for b >= Ns.  copy(S) / deepcopy(S) are judged at the nodes of the first two levels (never extended).
Identity oracle at every transition: where the reference produces a new state the result must be a distinct
object ("returned as a new Samples object", every member of JointSamples.burnthin included); conversions that are
documented to hand back the object itself are exempt exactly where the reference model is the identity.
These histories are kept PURE (nothing is ever assigned on a live object), so state carried along by shallow
copies (caches) stays visible.

E2 (independence / re-assignment, fresh objects) - cells 'indep'/'indep-joint': for every history of length <= 2
over the same alphabet a fresh start object is taken through the history; source A and result B of the last
operation are then probed: re-binding .samples / .geometry / the representation flags on B leaves A's
fingerprint unchanged and vice versa (dictionary entries likewise for JointSamples).  Then use -> assign -> use
on B: after .funvals / .mean() have been used and B.samples has been re-assigned, mean and .funvals are those
of the chain stored now.  Whether B's array shares memory with A (numpy view) is *observed* (in-place edit,
counted 'buffer-shared:<op>') but not judged: the statement does not promise independent storage.

E3 (configuration product) - cells 'stats'/'ess': mean / median / variance / std / credible intervals for
every configuration x credibility level x MAGNITUDE of the stored values against per-coordinate computations on the
raw array; ESS / R-hat against per-variable arviz calls on the unpermuted chains.  Magnitude facet: every coordinate's
chain is stored as level + scale * (O(1) dyadic chain) with powers of two for level and scale (exact doubles): unit,
all values * 2^-30, * 2^30, large common offset with small differences (+-2^20 + 2^-6 x, |mean|/std ~ 2^26), a different
level/scale per coordinate (mixed), and chains without any spread (constant).  There the oracle is scale-aware: each
coordinate is compared relative to its own scale (location statistics, bounds) or to the reference statistic itself
(variance, std), so that a statistic that is only right for O(1), centred chains is a violation.

E4 (read-only operations, cells 'ro') - the operation alphabet is EVERY public consumer of the stored chain:
mean / median / variance / std / compute_ci / ci_width (default and explicit level), burnthin (four (b,t) incl. the
refused b=n), funvals / vector / parameters, copy / deepcopy, iteration, shape / Ns, repr, diagnostics(), the
functions of cuqi.diagnostics on the stored array (Geweke with default and other fractions), to_arviz_inferencedata,
compute_ess, compute_rhat (one chain / a list of chains), JointSamples.burnthin / repr where the object is a member,
and the plotting helpers (matplotlib 'agg', no display: plot_mean / median / variance / std / ci_width / ci with and
without exact / plot / plot_chain / hist_chain; in the thorough tier also the arviz plots), reduced to the data
they draw.  The object under test comes in every ORIGIN that decides who else holds its storage: own C-ordered array,
own F-ordered array, burnthin view of a longer parent, shallow copy of a parent, member of JointSamples.burnthin.
Oracles: (1) every operation alone on a freshly built object leaves the complete fingerprint (stored values bit for
bit, shape, dtype, flags, geometry identity and public face) of the object AND of every other holder of the storage
(parent, joint siblings, the chains handed to R-hat) unchanged; (2) op1 -> op2 for all ordered pairs of the cheap
operations, and two sweeps (all operations, forward and reverse order) on one live object: every result is
bit-identical to the result of the same operation on a fresh object, and every fingerprint is still unchanged after
every step (states are merged on the fingerprint only after it has been verified); (3) ESS / R-hat of the object are
one value per stored row computed from that row's own chain(s) (arviz per row) or a refusal, whatever the
representation; in the cells with pairs also the statistics oracle of E3 on the long chain and "Geweke's score of
variable i is that of variable i's chain alone".  Chain lengths: 40 (shortest chain on which the spectral estimate of
Geweke runs; for derived objects the parent is 2n+2 long so that [3::2] has n samples), 7 (everything that needs a
long chain refuses - and must still leave the chain alone), thorough also 80.
"""
import math

import numpy as np

from vfw.core import CellResult, close
from vfw import refs

PROPERTY = "C19"
RULE = ("hist/joint cells = geometry x start representation x Ns; inside a cell ALL operation sequences of length <= 3 "
        "over {burnthin(b,t): b=0..n, t=1..n+1 with n the current chain length; funvals; vector; parameters} are "
        "executed on the real Samples objects and compared step by step with a list-of-arrays reference (a refused "
        "operation ends its branch); the FIRST step of every history ranges over the complete boundary product "
        "b=0..Ns+1, t=1..Ns+2 x {python int, numpy int64} plus the one-argument form burnthin(b); copy/deepcopy are "
        "judged at the nodes of the first two levels (not extended); after every transition that yields a sample set the "
        "identity of the result is judged (new object wherever the reference state is new); histories are pure (nothing "
        "assigned on live objects).  indep cells = geometry x start representation x Ns: every history of length <= 2 "
        "on a FRESH start object, then attribute-level independence of the last operation's result and source in both "
        "directions (re-bind samples / geometry / flags, look at the other object, undo) and use -> re-assign samples -> "
        "use on the result (mean, funvals of the chain stored now); indep-joint likewise for JointSamples members and "
        "dictionary entries; stats cells = configuration x Ns x magnitude of the stored values (unit / all tiny / all huge "
        "/ large positive or negative common offset with small spread / different level and scale per coordinate / "
        "constant chain), every statistic x credibility level compared per coordinate - for the non-unit magnitudes "
        "relative to the coordinate's own scale (variance / std relative to the reference value, plus the (8 eps max|x|)^2 "
        "resp. 8 eps max|x| that an inexact mean costs any backward stable evaluation), for the directly built chain, its "
        "function values and its burnthin(1,2); ess cells = dimension x Ns x variable naming x number of extra chains.  A cell is "
        "non-trivial when at least one operation returned a new object that was compared.  ro cells = configuration x "
        "origin of the object (own C/F-ordered array, burnthin view of a parent, shallow copy, JointSamples member) x "
        "chain length: operation alphabet = every public consumer of the chain (statistics, credible intervals, burnthin, "
        "conversions, copies, iteration, repr, diagnostics(), cuqi.diagnostics.Geweke on the stored array, arviz "
        "conversion, ESS, R-hat, JointSamples.burnthin, plotting helpers on the agg backend); every operation alone on a "
        "fresh object, all ordered pairs of the cheap operations (cells with pairs), forward and reverse sweep over all "
        "operations on one object; after EVERY step the fingerprints (values bit for bit, shape, dtype, flags, geometry) "
        "of the object and of every other holder of its storage / every chain passed in are compared with those before, "
        "and every result is compared bit for bit with the result on a fresh object; ESS / R-hat results are compared "
        "with arviz per stored row")
BOUND = {
    "quick": "histories of length <= 3, start chains Ns=1..5, and of length 1 from Ns=6 (so the complete (b,t) boundary "
             "product b=0..Ns+1 x t=1..Ns+2 is decided on fresh chains of every length 1..6); independence / re-assignment "
             "cells: every history of length <= 2 from Ns=1..3 and of length 1 from Ns=4..6, each on a fresh start object, "
             "JointSamples every burnthin history of length <= 2 from Ns=1..6; 14 start configurations (default geometry dim 1..3 as "
             "parameters and as function vectors, Continuous2D 2x3 par/fun, Image2D 2x3 C and F par/funvec/fun, "
             "StepExpansion 6 nodes/2 steps par/funvec) + JointSamples with 2 members; statistics: same configurations, "
             "Ns=1..7, credibility {0,50,68,95,99,100}, 7 magnitudes (unit, *2^-30, *2^30, 2^20 + 2^-6 x, -2^20 + 2^-6 x, "
             "per-coordinate cycle of 7 (level, scale) pairs with levels up to 2^30, constant chain at +-(2^20 + 0.375 i)); ESS/R-hat: dims {1,2,3,10,11,12,13}, Ns {25,40}, default and "
             "custom (unsorted) variable names, 1-2 extra chains; read-only operations: 8 configurations (default dim 1/3 par, "
             "default dim 2 funvec, Continuous2D fun, Image2D F par/funvec, Image2D C fun, StepExpansion funvec) x {burnthin "
             "view of a parent n=40 with all ordered pairs of the 23 cheap operations, JointSamples member n=40, own array "
             "n=40, own array n=7}, every cell with every operation alone + forward and reverse sweep over all operations; "
             "matplotlib plotting helpers in the view cells of 3 configurations",
    "thorough": "same with start chains Ns=1..8 (length <= 3) plus all histories of length <= 4 from Ns=2..4, independence / "
                "re-assignment cells with histories of length <= 2 from Ns=1..6, and 3 value "
                "catalogues' worth of statistics inputs per cell; read-only operations: all 14 configurations x 5 origins "
                "(own C / own F / burnthin view / shallow copy / joint member) x n in {7, 40, 80}, all with ordered pairs, "
                "matplotlib plotting helpers for n=40 (every origin) and for the view cells of n=7 / 80, arviz plots for the n=40 "
                "view cells of vector representations, "
                "R-hat with one and with two further chains",
}
ASSUMPTIONS = [
    "burnthin with b >= Ns may raise (the library does) or return the empty slice; both accepted; for b < Ns a raise is a "
    "violation whatever t is (the result is the non-empty slice stored[b::t])",
    "independence is demanded at attribute level only (distinct object; re-binding samples/geometry/flags on one side does "
    "not show on the other); sharing of the underlying numpy buffer (burnthin returns a view) and of the geometry object is "
    "observed and counted, not judged; .funvals/.vector/.parameters may return the object itself exactly where the "
    "docstrings say so (already in the requested representation)",
    "any exception raised inside the library at a place the statement gives no licence to refuse (construction, attribute "
    "access, statistics of a legal chain, burnthin with b < Ns) is reported as a violation '...|raises...'; exceptions "
    "raised by the check's own code remain harness errors",
    "a conversion the geometry does not offer (Continuous2D has no vector form) may raise; the branch ends there",
    "magnitude facet: stored values are level + scale * x with |level| <= 2^30, 2^-30 <= scale <= 2^30 (no overflow / "
    "underflow of squares); 'the per-coordinate variance' is demanded to 1e-11 relative to the exact variance plus "
    "(8 eps max|x|)^2 - met by every evaluation that centres the chain (two-pass, Welford), not by E[x^2] - E[x]^2 once "
    "|mean|/std exceeds ~1e3; the O(1) cells and the long chains of the ro cells keep the absolute comparison of "
    "vfw.core.close; ESS / R-hat / Geweke are not run on the non-unit magnitudes",
    "variance/std: numpy's default (population, ddof=0) or the sample version (ddof=1) accepted if used consistently; "
    "credible bounds: any of numpy's percentile interpolation rules accepted, the default (linear) is what is observed",
    "reference conversions are index loops written here (Image2D order, StepExpansion partition, identity for the "
    "default geometry); for Continuous2D, whose node order is not documented, the geometry's own per-sample map is "
    "the primitive (the geometry maps themselves are property C13)",
    "arviz.ess / arviz.rhat applied to ONE variable's chain is the trusted base for the diagnostics",
    "read-only operations (ro cells): whether an operation refuses is not judged there (diagnostics / Geweke refuse chains "
    "shorter than 40 samples and multi-dimensional function values, ESS / R-hat / arviz conversion refuse non-vector "
    "samples, ...), only that refusing or not, and the result, do not depend on earlier read-only operations and that "
    "nothing stored is changed; results are compared bit for bit (same process, same data: the library is deterministic "
    "once numpy's global generator, which the plotting helpers use to pick variables, is re-seeded before every "
    "operation); plots are reduced to the data of the artists they return (lines, images, meshes, polygons, bars); a "
    "lazily filled attribute cache that is invisible through the public interface is not counted as a change",
    "compute_ess / compute_rhat on vector samples that are not parameters: one value per stored row from that row's own "
    "chain(s), or a refusal",
    "Geweke's score being per variable (joint call == call on the single column) is demanded at 1e-12 as the analogue "
    "for cuqi.diagnostics of 'each variable's chain unpermuted'",
]

PERCENTS = [0, 50, 68, 95, 99, 100]


# ----------------------------------------------------------------------------------------
# configurations: geometry + reference maps
# ----------------------------------------------------------------------------------------
class Conf:
    """Geometry of a start configuration together with reference per-sample maps."""

    def __init__(self, kind):
        import cuqi
        self.kind = kind
        G = cuqi.geometry
        if kind.startswith("default"):
            self.d = int(kind[-1])
            self.geom = None
            self.par_dim, self.fun_shape, self.fun_is_vec, self.has_vec = self.d, (self.d,), True, True
        elif kind == "c2d":
            self.geom = G.Continuous2D((2, 3))
            self.par_dim, self.fun_shape, self.fun_is_vec, self.has_vec = 6, (2, 3), False, False
        elif kind in ("imgC", "imgF"):
            self.order = kind[-1]
            self.geom = G.Image2D((2, 3), order=self.order)
            self.par_dim, self.fun_shape, self.fun_is_vec, self.has_vec = 6, (2, 3), False, True
        elif kind == "step":
            self.geom = G.StepExpansion(np.linspace(0, 1, 6), n_steps=2)
            self.part = [0, 0, 0, 1, 1, 1]     # documented partition of 6 nodes into 2 steps (no boundary node)
            self.par_dim, self.fun_shape, self.fun_is_vec, self.has_vec = 2, (6,), True, True
        else:
            raise ValueError(kind)
        self.funvec_dim = int(np.prod(self.fun_shape))

    # reference maps (one sample) -----------------------------------------------------------
    def par2fun(self, p):
        p = np.asarray(p, float)
        if self.kind.startswith("default"):
            return p.copy()
        if self.kind == "c2d":
            return np.asarray(self.geom.par2fun(p.copy()), float).reshape(2, 3)
        if self.kind in ("imgC", "imgF"):
            out = np.zeros((2, 3))
            for a in range(2):
                for b in range(3):
                    out[a, b] = p[a * 3 + b] if self.order == "C" else p[a + 2 * b]
            return out
        return np.array([p[self.part[k]] for k in range(6)])

    def fun2par(self, f):
        f = np.asarray(f, float)
        if self.kind.startswith("default"):
            return f.copy()
        if self.kind == "c2d":
            return np.asarray(self.geom.fun2par(f.copy()), float).reshape(6)
        if self.kind in ("imgC", "imgF"):
            out = np.zeros(6)
            for a in range(2):
                for b in range(3):
                    out[a * 3 + b if self.order == "C" else a + 2 * b] = f[a, b]
            return out
        return np.array([np.mean([f[k] for k in range(6) if self.part[k] == i]) for i in range(2)])

    def fun2vec(self, f):
        if self.fun_is_vec:
            return np.asarray(f, float).copy()
        if not self.has_vec:
            raise NotImplementedError
        return self.fun2par(f)          # Image2D: documented vector form = the pixel vector

    def vec2fun(self, v):
        if self.fun_is_vec:
            return np.asarray(v, float).copy()
        if not self.has_vec:
            raise NotImplementedError
        return self.par2fun(v)


class Ref:
    """Reference state: a python list of per-sample arrays and the representation flags."""

    def __init__(self, items, is_par, is_vec):
        self.items, self.is_par, self.is_vec = list(items), is_par, is_vec

    def burnthin(self, b, t):
        return Ref(self.items[b::t], self.is_par, self.is_vec)

    def funvals(self, cf):
        if not self.is_par and not self.is_vec:
            return self
        conv = cf.par2fun if self.is_par else cf.vec2fun
        return Ref([conv(x) for x in self.items], False, cf.fun_is_vec)

    def vector(self, cf):
        if self.is_vec or self.is_par:
            return self
        return Ref([cf.fun2vec(x) for x in self.items], False, True)

    def parameters(self, cf):
        if self.is_par:
            return self
        if self.is_vec:
            return Ref([cf.fun2par(cf.vec2fun(x)) for x in self.items], True, True)
        return Ref([cf.fun2par(x) for x in self.items], True, True)

    def array(self, item_shape):
        if not self.items:
            return np.zeros(tuple(item_shape) + (0,))
        return np.stack(self.items, axis=-1)

    def key(self):
        return "%s%s:n=%d" % ("P" if self.is_par else "F", "v" if self.is_vec else "a", len(self.items))


_VALUES_CACHE = {}


def _values(shape, Ns, k, salt=0):
    """Deterministic raw samples of shape `shape + (Ns,)`: dyadic, all distinct within a coordinate."""
    key = (tuple(shape), Ns, k, salt)
    if key not in _VALUES_CACHE:
        if len(_VALUES_CACHE) > 64:
            _VALUES_CACHE.clear()
        _VALUES_CACHE[key] = _values_build(shape, Ns, k, salt)
    return _VALUES_CACHE[key].copy()


def _values_build(shape, Ns, k, salt):
    dim = int(np.prod(shape))
    A = np.zeros((dim, Ns))
    for j in range(Ns):
        A[:, j] = refs.dyadic_vec(dim, k + j + salt, scale=0.25) + 0.5 * ((j * j + k) % 5) - 0.125 * j
    return A.reshape(tuple(shape) + (Ns,))


# Magnitude facet of the stored values (statistics cells).  Every coordinate's chain x_j (dyadic, O(1), from _values)
# is stored as level + scale * x_j; levels and scales are powers of two, so the stored values are exact doubles and
# the spread / level ratio is known: 'offset' chains have |mean| / std of about 2^26 (a well identified quantity far
# from zero), 'constant' chains have no spread at all (degenerate but legal).
_MAG_TABLE = {"unit": (0.0, 1.0), "tiny": (0.0, 2.0 ** -30), "huge": (0.0, 2.0 ** 30),
              "offset": (2.0 ** 20, 2.0 ** -6), "neg-offset": (-2.0 ** 20, 2.0 ** -6)}
_MAG_CYCLE = [(2.0 ** 20, 2.0 ** -6), (0.0, 1.0), (-2.0 ** 24, 2.0 ** -2), (0.0, 2.0 ** 30), (2.0 ** -4, 2.0 ** -30),
              (2.0 ** 30, 2.0 ** 4), (0.0, 2.0 ** -30)]
MAGS = ["unit", "tiny", "huge", "offset", "neg-offset", "mixed", "constant"]
MAG_CLASS = {"unit": None, "tiny": "scaled", "huge": "scaled", "offset": "offset", "neg-offset": "offset",
             "mixed": "offset", "constant": "offset"}


def _mag_apply(raw, mag):
    """raw (item_shape + (Ns,)) with the magnitude facet applied coordinate by coordinate."""
    if mag == "unit":
        return raw
    out = np.empty_like(raw)
    for i, idx in enumerate(np.ndindex(*raw.shape[:-1])):
        if mag == "mixed":
            level, scale = _MAG_CYCLE[i % len(_MAG_CYCLE)]
        elif mag == "constant":
            level, scale = (2.0 ** 20 + 0.375 * (i + 1)) * (-1.0) ** i, 0.0
        else:
            level, scale = _MAG_TABLE[mag]
        out[idx] = level + scale * raw[idx]
    return out


def _start(cf, start, Ns, k, mag="unit"):
    """(Samples, Ref) for a start representation: 'par' | 'funvec' | 'fun'."""
    import cuqi
    if start == "par":
        raw = _mag_apply(_values((cf.par_dim,), Ns, k), mag)
        S = cuqi.samples.Samples(raw.copy(), geometry=cf.geom)
        S.geometry      # the default geometry is created lazily on first access: do it before fingerprinting
        return S, Ref([raw[..., j].copy() for j in range(Ns)], True, True)
    if start == "funvec":
        raw = _mag_apply(_values((cf.funvec_dim,), Ns, k, salt=1), mag)
        S = cuqi.samples.Samples(raw.copy(), geometry=cf.geom, is_par=False, is_vec=True)
        S.geometry
        return S, Ref([raw[..., j].copy() for j in range(Ns)], False, True)
    raw = _mag_apply(_values(cf.fun_shape, Ns, k, salt=2), mag)
    S = cuqi.samples.Samples(raw.copy(), geometry=cf.geom, is_par=False, is_vec=False)
    return S, Ref([raw[..., j].copy() for j in range(Ns)], False, False)


HIST_CONFS = [("default1", "par"), ("default2", "par"), ("default3", "par"), ("default2", "funvec"),
              ("c2d", "par"), ("c2d", "fun"),
              ("imgC", "par"), ("imgC", "funvec"), ("imgC", "fun"),
              ("imgF", "par"), ("imgF", "funvec"), ("imgF", "fun"),
              ("step", "par"), ("step", "funvec")]


RO_CONFS_QUICK = [("default1", "par"), ("default3", "par"), ("default2", "funvec"), ("c2d", "fun"),
                  ("imgF", "par"), ("imgF", "funvec"), ("imgC", "fun"), ("step", "funvec")]
RO_PLOT_CONFS_QUICK = [("default3", "par"), ("imgF", "funvec"), ("c2d", "fun")]


def cells(tier, seed):
    k = refs.cat(seed)
    nmax = 5 if tier == "quick" else 8
    for kind, start in HIST_CONFS:
        for Ns in range(1, nmax + 1):
            yield {"fam": "hist", "geom": kind, "start": start, "Ns": Ns, "depth": 3, "cat": k}
        if tier == "quick":
            yield {"fam": "hist", "geom": kind, "start": start, "Ns": 6, "depth": 1, "cat": k}
        else:
            for Ns in range(2, 5):
                yield {"fam": "hist", "geom": kind, "start": start, "Ns": Ns, "depth": 4, "cat": k}
    for Ns in range(1, nmax + 1):
        yield {"fam": "joint", "Ns": Ns, "depth": 3, "cat": k}
    if tier == "quick":
        yield {"fam": "joint", "Ns": 6, "depth": 1, "cat": k}
    for kind, start in HIST_CONFS:
        for Ns in range(1, 7):
            yield {"fam": "indep", "geom": kind, "start": start, "Ns": Ns, "depth": 2 if Ns <= (3 if tier == "quick" else 6) else 1,
                   "cat": k}
    for Ns in range(1, 7):
        yield {"fam": "indep-joint", "Ns": Ns, "depth": 2, "cat": k}
    for kind, start in HIST_CONFS:
        for Ns in range(1, 8):
            for mag in MAGS:
                yield {"fam": "stats", "geom": kind, "start": start, "Ns": Ns, "cat": k, "mag": mag,
                       "ncat": 1 if tier == "quick" else 3}
    for d in (1, 2, 3, 10, 11, 12, 13):
        for Ns in (25, 40):
            for names in ("default", "custom"):
                for extra in (1, 2):
                    yield {"fam": "ess", "dim": d, "Ns": Ns, "names": names, "extra": extra, "cat": k}
    if tier == "quick":
        for kind, start in RO_CONFS_QUICK:
            for origin, n, pairs in (("view", 40, True), ("joint", 40, False), ("own-C", 40, False), ("own-C", 7, False)):
                plots = "mpl" if (origin == "view" and (kind, start) in RO_PLOT_CONFS_QUICK) else "none"
                yield {"fam": "ro", "geom": kind, "start": start, "n": n, "origin": origin, "pairs": pairs, "plots": plots,
                       "rhat2": False, "cat": k}
    else:
        for kind, start in HIST_CONFS:
            for origin in RO_ORIGINS:
                for n in (7, 40, 80):
                    plots = "all" if (origin == "view" and n == 40 and start != "fun") else (
                        "mpl" if (n == 40 or origin == "view") else "none")
                    yield {"fam": "ro", "geom": kind, "start": start, "n": n, "origin": origin, "pairs": True, "plots": plots,
                           "rhat2": True, "cat": k}


# ----------------------------------------------------------------------------------------
# E1: history exploration
# ----------------------------------------------------------------------------------------
def _fp(S):
    a = np.asarray(S.samples)
    return (a.shape, a.tobytes(), bool(S.is_par), bool(S.is_vec), id(S._geometry))


def _bt_alphabet(n, first):
    """Burn-in/thinning alphabet on a chain of n samples: entries (b, t | None, argument type, extend?)."""
    if not first:
        return [("burnthin", b, t, "int", True) for b in range(0, n + 1) for t in range(1, n + 2)]
    out = [("burnthin", b, t, ty, ty == "int") for ty in ("int", "np") for b in range(0, n + 2) for t in range(1, n + 3)]
    return out + [("burnthin", b, None, "int", False) for b in range(0, n + 2)]      # one-argument form


def _call_burnthin(obj, op):
    conv = int if op[3] == "int" else np.int64
    if op[2] is None:
        return obj.burnthin(conv(op[1]))
    return obj.burnthin(conv(op[1]), conv(op[2]))


def _toggle_flags(S):
    """Re-bind the representation flags of S to another legal combination; returns the undo closure."""
    par, vec = S.is_par, S.is_vec
    if par:
        S.is_par = False

        def undo():
            S.is_par = par
    else:
        S.is_vec = not vec

        def undo():
            S.is_vec = vec
    return undo


def _independence(res, A, B, alt_geom, label):
    """Attribute-level independence of two distinct Samples objects A (source) and B (result), both directions.

    Every re-binding is undone.  Returns None if independent, else a description of the coupling.  Also counts
    whether an in-place edit of B's array shows in A (shared buffer; observed only)."""
    for X, Y, who in ((B, A, "result->source"), (A, B, "source->result")):
        fy = _fp(Y)
        old = X.samples
        X.samples = np.full(np.asarray(old).shape, 7.5)
        hit = _fp(Y) != fy
        X.samples = old
        if hit:
            return "re-binding .samples (%s)" % who
        oldg = X.geometry
        X.geometry = alt_geom
        hit = _fp(Y) != fy
        X.geometry = oldg
        if hit:
            return "re-binding .geometry (%s)" % who
        undo = _toggle_flags(X)
        hit = _fp(Y) != fy
        undo()
        if hit:
            return "re-binding the representation flags (%s)" % who
        res.evaluations += 3
        if _fp(Y) != fy:
            return "undoing the re-bindings (%s)" % who
    arr = B.samples
    if isinstance(arr, np.ndarray) and arr.size and arr.flags.writeable:
        fa = _fp(A)
        first = arr[..., 0].copy()
        arr[..., 0] = first + 1.0
        shared = _fp(A) != fa
        arr[..., 0] = first
        res.count(("buffer-shared:" if shared else "buffer-own:") + label)
    return None


def _same_geometry(a, b):
    if a is b:
        return True
    try:
        return bool(a == b)
    except Exception:
        return False


class Explorer:
    def __init__(self, res, cf, comp, facet):
        self.res, self.cf, self.comp, self.facet = res, cf, comp, facet
        self._seen = set()
        self.stop = False
        self.copy_depth = 2       # copy / deepcopy judged at the nodes reached by histories shorter than this

    def fail(self, op, what, msg, **detail):
        sig = "C19|%s|%s|%s" % (self.comp, op, what)
        if sig not in self._seen:
            self._seen.add(sig)
            self.res.fail(sig, msg, **detail)

    def item_shape(self, ref):
        if ref.is_par:
            return (self.cf.par_dim,)
        if ref.is_vec:
            return (self.cf.funvec_dim,)
        return self.cf.fun_shape

    def compare(self, op, S, ref, hist, exact):
        """Implementation object S against reference state ref after operation op."""
        res = self.res
        res.evaluations += 1
        want = ref.array(self.item_shape(ref))
        got = np.asarray(S.samples)
        ok = got.shape == want.shape and (np.array_equal(got, want) if exact else close(got, want, 1e-12))
        opname = op[0]
        if not ok:
            self.fail(opname, "samples", "after %s the stored samples differ from the reference %s"
                      % (hist, "slice [..., b::t]" if exact else "per-sample conversion"), history=hist, impl=got, ref=want)
            return False
        if bool(S.is_par) != ref.is_par or bool(S.is_vec) != ref.is_vec:
            self.fail(opname, "flags", "after %s flags are is_par=%s is_vec=%s, reference is_par=%s is_vec=%s"
                      % (hist, S.is_par, S.is_vec, ref.is_par, ref.is_vec), history=hist)
            return False
        if S.Ns != len(ref.items):
            self.fail(opname, "Ns", "after %s Ns=%s, reference has %d samples" % (hist, S.Ns, len(ref.items)), history=hist)
            return False
        return True

    def ops(self, n, done):
        out = _bt_alphabet(n, first=done == 0) + [("funvals",), ("vector",), ("parameters",)]
        if done < self.copy_depth:
            out += [("copy",), ("deepcopy",)]
        return out

    def explore(self, S, ref, depth, hist, root):
        import copy as _copy
        res = self.res
        res.state(ref.key())
        if depth == 0 or self.stop:
            return
        n = len(ref.items)
        children = []     # every operation is executed and judged first, then the children are expanded: the
        #                   shortest failing history is therefore the one reported
        for op in self.ops(n, len(hist)):
            if self.stop:
                return
            name = op[0]
            h = hist + [[x for x in op if not isinstance(x, bool)]]
            g_before = S.geometry
            before = _fp(S)
            res.transitions += 1
            res.traces += 1
            refused = None
            try:
                if name == "burnthin":
                    S2 = _call_burnthin(S, op)
                elif name == "copy":
                    S2 = _copy.copy(S)
                elif name == "deepcopy":
                    S2 = _copy.deepcopy(S)
                else:
                    S2 = getattr(S, name)
            except Exception as e:  # noqa
                refused = e
            # reference step
            ref_refuses = False
            if name == "burnthin":
                ref2 = ref.burnthin(op[1], 1 if op[2] is None else op[2])
            elif name in ("copy", "deepcopy"):
                ref2 = Ref(ref.items, ref.is_par, ref.is_vec)        # same contents, new state
            else:
                try:
                    ref2 = getattr(ref, name)(self.cf)
                except NotImplementedError:
                    ref_refuses, ref2 = True, ref
            # source untouched, whatever happened
            if _fp(S) != before:
                self.fail(name, "source-altered", "%s changed its source object (history %s)" % (name, h), history=h)
                self.stop = True
                return
            if refused is not None:
                res.refused += 1
                res.count("refused:" + name)
                allowed = ref_refuses or (name == "burnthin" and len(ref2.items) == 0)
                if not allowed:
                    self.fail(name, "raises", "%s raised %r although the reference result is well defined (history %s)"
                              % (name, refused, h), history=h)
                continue
            if ref_refuses:
                # the implementation produced something the geometry does not offer a reference for: not judged
                res.count("unjudged-conversion")
                continue
            exact = name in ("burnthin", "copy", "deepcopy")
            if not self.compare(op, S2, ref2, h, exact):
                continue
            if not _same_geometry(S2.geometry, g_before):
                self.fail(name, "geometry", "%s did not preserve the geometry (history %s)" % (name, h), history=h)
                continue
            # identity / independence of the result
            if S2 is S:
                if ref2 is not ref:
                    self.fail(name, "result-is-source", "%s returned its source object itself where a new sample set is "
                              "promised (history %s): anything re-bound on the result later changes the source" % (name, h),
                              history=h)
                    continue
                res.count("returns-self:" + name)
            if _fp(root[0]) != root[1]:
                self.fail(name, "root-altered", "the start object changed during history %s" % (h,), history=h)
                self.stop = True
                return
            res.outcomes.add("%s->%s" % (name, ref2.key()))
            if res.sample is None and len(h) == 3 and name == "burnthin" and len(ref2.items) >= 1:
                res.sample = {"history": h, "final_samples": np.asarray(S2.samples), "flags": [S2.is_par, S2.is_vec]}
            if len(ref2.items) == 0 or name in ("copy", "deepcopy") or (name == "burnthin" and not op[4]):
                continue
            children.append((S2, ref2, h))
        for S2, ref2, h in children:
            self.explore(S2, ref2, depth - 1, h, root)


def eval_hist(cell, res):
    cf = Conf(cell["geom"])
    S, ref = _start(cf, cell["start"], cell["Ns"], cell["cat"])
    ex = Explorer(res, cf, "Samples", "")
    if not ex.compare(("construct",), S, ref, [], True):
        return
    ex.explore(S, ref, cell["depth"], [], (S, _fp(S)))


def eval_joint(cell, res):
    """JointSamples: burnthin acts on every member; histories of burnthin only (its whole interface)."""
    import cuqi
    Ns, k = cell["Ns"], cell["cat"]
    cfx, cfy = Conf("default2"), Conf("imgF")
    Sx, rx = _start(cfx, "par", Ns, k)
    Sy, ry = _start(cfy, "fun", Ns, k + 1)
    J = cuqi.samples.JointSamples({"x": Sx, "y": Sy})
    seen = set()

    def fail(what, msg, **d):
        sig = "C19|JointSamples|burnthin|%s" % what
        if sig not in seen:
            seen.add(sig)
            res.fail(sig, msg, **d)

    def rec(J, refs_, depth, hist):
        res.state("joint:n=%d" % len(refs_[0].items))
        if depth == 0:
            return
        n = len(refs_[0].items)
        children = []
        for op in _bt_alphabet(n, first=not hist):
            b, t = op[1], (1 if op[2] is None else op[2])
            h = hist + [[x for x in op[1:] if not isinstance(x, bool)]]
            members = {key: J[key] for key in J}
            before = {key: _fp(J[key]) for key in J}
            res.transitions += 1
            res.traces += 1
            try:
                J2 = _call_burnthin(J, op)
                err = None
            except Exception as e:  # noqa
                err = e
            if {key: _fp(J[key]) for key in J} != before or any(J[key] is not members[key] for key in members):
                fail("source-altered", "JointSamples.burnthin changed its source (history %s)" % (h,))
                return
            new = [r.burnthin(b, t) for r in refs_]
            if err is not None:
                res.refused += 1
                if len(new[0].items) != 0:
                    fail("raises", "burnthin(%d,%d) raised %r on %d samples" % (b, t, err, n), history=h)
                continue
            res.evaluations += 1
            if not isinstance(J2, cuqi.samples.JointSamples) or list(J2.keys()) != list(J.keys()):
                fail("members", "result is %s with keys %s" % (type(J2).__name__, list(getattr(J2, "keys", lambda: [])())), history=h)
                continue
            ok = True
            for key, r2, cf in zip(J.keys(), new, (cfx, cfy)):
                got = np.asarray(J2[key].samples)
                want = r2.array((cf.par_dim,) if r2.is_par else cf.fun_shape)
                if got.shape != want.shape or not np.array_equal(got, want):
                    fail("samples", "member %r after history %s is not the slice [..., b::t]" % (key, h), impl=got, ref=want, history=h)
                    ok = False
                elif bool(J2[key].is_par) != r2.is_par or bool(J2[key].is_vec) != r2.is_vec:
                    fail("flags", "member %r lost its representation flags (history %s)" % (key, h), history=h)
                    ok = False
                elif not _same_geometry(J2[key].geometry, J[key].geometry):
                    fail("geometry", "member %r lost its geometry (history %s)" % (key, h), history=h)
                    ok = False
            if not ok:
                continue
            # the result is a new joint set of new members, independent of the source in both directions
            if J2 is J or any(J2[key] is J[key] for key in J):
                fail("result-is-source", "JointSamples.burnthin handed back %s (history %s): anything re-bound on the "
                     "result later changes the source" % ("the source dictionary" if J2 is J else "source member(s) %s"
                                                          % [key for key in J if J2[key] is J[key]], h), history=h)
                continue
            res.outcomes.add("joint-burnthin->n=%d" % len(new[0].items))
            if len(new[0].items) == 0 or not op[4]:
                continue
            children.append((J2, new, h))
        for J2, new, h in children:
            rec(J2, new, depth - 1, h)
    rec(J, [rx, ry], cell["depth"], [])


# ----------------------------------------------------------------------------------------
# E2: independence of result and source + use -> re-assign -> use, on fresh objects per history
# ----------------------------------------------------------------------------------------
def _apply(S, op):
    import copy as _copy
    name = op[0]
    if name == "burnthin":
        return _call_burnthin(S, op)
    if name == "copy":
        return _copy.copy(S)
    if name == "deepcopy":
        return _copy.deepcopy(S)
    return getattr(S, name)


def _ref_apply(ref, op, cf):
    name = op[0]
    if name == "burnthin":
        return ref.burnthin(op[1], 1 if op[2] is None else op[2])
    if name in ("copy", "deepcopy"):
        return Ref(ref.items, ref.is_par, ref.is_vec)        # same contents, new state
    return getattr(ref, name)(cf)                            # NotImplementedError: geometry has no such form


def _histories(cf, ref, depth, prefix=()):
    """Every operation sequence of length 1..depth the reference can follow to a non-empty chain:
    yields (history, reference before the last operation, reference after it)."""
    n = len(ref.items)
    alphabet = _bt_alphabet(n, first=not prefix) + [("funvals",), ("vector",), ("parameters",), ("copy",), ("deepcopy",)]
    for op in alphabet:
        try:
            ref2 = _ref_apply(ref, op, cf)
        except NotImplementedError:
            continue
        if len(ref2.items) == 0:
            continue
        h = prefix + (op,)
        yield h, ref, ref2
        if depth > 1 and (op[0] != "burnthin" or op[4]):
            for item in _histories(cf, ref2, depth - 1, h):
                yield item


def eval_indep(cell, res):
    """For every history (length <= depth) a FRESH start object is taken through the history; the last operation's
    source A and result B are then probed: attribute-level independence in both directions, and afterwards
    use -> re-assign B.samples -> use: statistics and conversions of B are those of the newly stored chain."""
    import cuqi
    cf = Conf(cell["geom"])
    k, Ns = cell["cat"], cell["Ns"]
    alt = cuqi.geometry.Discrete(["alt%d" % i for i in range(cf.par_dim)])
    seen = set()

    def fail(op, what, msg, **d):
        sig = "C19|Samples|%s|%s" % (op, what)
        if sig not in seen:
            seen.add(sig)
            res.fail(sig, msg, **d)

    def item_shape(r):
        return (cf.par_dim,) if r.is_par else ((cf.funvec_dim,) if r.is_vec else cf.fun_shape)
    _, ref0 = _start(cf, cell["start"], Ns, k)
    for hist, ref1, ref2 in _histories(cf, ref0, cell["depth"]):
        h = [[x for x in op if not isinstance(x, bool)] for op in hist]
        name = hist[-1][0]
        A, _ = _start(cf, cell["start"], Ns, k)
        res.traces += 1
        try:
            for op in hist[:-1]:
                A = _apply(A, op)
                res.transitions += 1
            fa = _fp(A)
            B = _apply(A, hist[-1])
            res.transitions += 1
        except Exception:  # noqa   refusals are judged by the hist cells (same histories); nothing to probe here
            res.refused += 1
            res.count("not-probed:raised")
            continue
        res.state("%s=>%s" % (ref1.key(), ref2.key()))
        if B is A:
            res.count("returns-self:" + name)     # identity is judged by the hist cells
            continue
        try:
            coupled = _independence(res, A, B, alt, name)
        except Exception as e:  # noqa
            coupled = "raised %r" % (e,)
        if coupled is not None or _fp(A) != fa:
            fail(name, "result-coupled-to-source", "after history %s result and source of %s are not independent objects: %s "
                 "shows on the other object" % (h, name, coupled), history=h)
            continue
        res.outcomes.add("independent:%s:%s" % (name, ref2.key()))
        # use -> assign -> use on the result: what is computed afterwards is a function of the chain stored NOW
        n2 = len(ref2.items)
        W = _values(item_shape(ref2), n2, k, salt=7)
        refW = Ref([W[..., j].copy() for j in range(n2)], ref2.is_par, ref2.is_vec)
        try:
            B.funvals
            B.mean()
            B.samples = W.copy()
            res.transitions += 3
            got_ns, got_mean = B.Ns, np.asarray(B.mean(), float)
            try:
                want_fun = refW.funvals(cf)
            except NotImplementedError:
                want_fun = None
            got_fun = B.funvals if want_fun is not None else None
        except Exception as e:  # noqa
            fail("samples-reassigned", "raises", "history %s, then use / re-assign .samples / use raised %r" % (h, e), history=h)
            continue
        res.evaluations += 2
        if got_ns != n2 or got_mean.shape != W.shape[:-1] or not close(got_mean, _ref_stats(W)["mean"], 1e-12):
            fail("mean", "stale-after-samples-reassigned", "history %s: after re-assigning .samples the mean is not that of the "
                 "stored chain" % (h,), history=h, impl=got_mean, ref=W.mean(axis=-1))
        if got_fun is not None:
            want = want_fun.array(cf.fun_shape)
            g = np.asarray(got_fun.samples)
            if g.shape != want.shape or not close(g, want, 1e-12):
                fail("funvals", "stale-after-samples-reassigned", "history %s: after re-assigning .samples, .funvals is not the "
                     "conversion of the stored chain" % (h,), history=h, impl=g, ref=want)
            else:
                res.outcomes.add("reassigned-funvals-ok:" + ref2.key())


def eval_indep_joint(cell, res):
    """JointSamples: every burnthin history of length <= depth on a fresh joint set; the last step's source and result
    dictionaries and their members are probed for independence."""
    import cuqi
    Ns, k = cell["Ns"], cell["cat"]
    cfx, cfy = Conf("default2"), Conf("imgF")
    alt = {"x": cuqi.geometry.Discrete(["a0", "a1"]), "y": cuqi.geometry.Discrete(["b%d" % i for i in range(6)])}
    seen = set()

    def fail(what, msg, **d):
        sig = "C19|JointSamples|burnthin|%s" % what
        if sig not in seen:
            seen.add(sig)
            res.fail(sig, msg, **d)

    def hists(n, depth, prefix=()):
        for op in _bt_alphabet(n, first=not prefix):
            n2 = len(range(n)[op[1]::(1 if op[2] is None else op[2])])
            if n2 == 0:
                continue
            yield prefix + (op,)
            if depth > 1 and op[4]:
                for item in hists(n2, depth - 1, prefix + (op,)):
                    yield item
    for hist in hists(Ns, cell["depth"]):
        h = [[x for x in op[1:] if not isinstance(x, bool)] for op in hist]
        Sx, _ = _start(cfx, "par", Ns, k)
        Sy, _ = _start(cfy, "fun", Ns, k + 1)
        J = cuqi.samples.JointSamples({"x": Sx, "y": Sy})
        res.traces += 1
        try:
            for op in hist[:-1]:
                J = _call_burnthin(J, op)
                res.transitions += 1
            before = {key: _fp(J[key]) for key in J}
            J2 = _call_burnthin(J, hist[-1])
            res.transitions += 1
            keys_ok = list(J2.keys()) == ["x", "y"] and list(J.keys()) == ["x", "y"]
        except Exception:  # noqa   judged by the joint history cells
            res.refused += 1
            res.count("not-probed:raised")
            continue
        res.state("joint:n=%d" % J2["x"].Ns if keys_ok else "joint:?")
        if not keys_ok or J2 is J or any(J2[key] is J[key] for key in J):
            res.count("not-probed:identity-or-keys")          # judged by the joint history cells
            continue
        coupled = None
        try:
            for key in ("x", "y"):
                coupled = coupled or _independence(res, J[key], J2[key], alt[key], "joint-member")
            for X, Y in ((J2, J), (J, J2)):       # re-binding an entry of one dictionary does not show in the other
                keep, other = X["x"], Y["x"]
                X["x"] = X["y"]
                if Y["x"] is not other or list(Y.keys()) != ["x", "y"]:
                    coupled = coupled or "re-binding a dictionary entry"
                X["x"] = keep
                res.evaluations += 1
        except Exception as e:  # noqa
            coupled = "raised %r" % (e,)
        if coupled is not None or {key: _fp(J[key]) for key in J} != before:
            fail("result-coupled-to-source", "after burnthin history %s result and source are not independent: %s shows on "
                 "the other object" % (h, coupled), history=h)
            continue
        res.outcomes.add("joint-independent:n=%d" % J2["x"].Ns)


# ----------------------------------------------------------------------------------------
# E3: statistics
# ----------------------------------------------------------------------------------------
_PCT_METHODS = ["linear", "lower", "higher", "midpoint", "nearest", "inverted_cdf", "averaged_inverted_cdf",
                "closest_observation", "interpolated_inverted_cdf", "hazen", "weibull", "median_unbiased", "normal_unbiased"]


def _ref_stats(raw):
    """Per-coordinate statistics of raw (item_shape + (Ns,)) with explicit loops over the coordinates."""
    shape = raw.shape[:-1]
    n = raw.shape[-1]
    out = {k: np.zeros(shape) for k in ("mean", "median", "var0", "var1")}
    for idx in np.ndindex(*shape):
        chain = [float(raw[idx + (j,)]) for j in range(n)]
        m = math.fsum(chain) / n
        s = sorted(chain)
        med = s[n // 2] if n % 2 else 0.5 * (s[n // 2 - 1] + s[n // 2])
        ss = math.fsum((c - m) ** 2 for c in chain)
        out["mean"][idx], out["median"][idx] = m, med
        out["var0"][idx] = ss / n
        out["var1"][idx] = ss / (n - 1) if n > 1 else float("nan")
    return out


def _ref_pct(raw, q, method="linear"):
    shape = raw.shape[:-1]
    out = np.zeros(shape)
    for idx in np.ndindex(*shape):
        chain = np.array([raw[idx + (j,)] for j in range(raw.shape[-1])], float)
        out[idx] = np.percentile(chain, q, method=method)
    return out


_EPS = 2.0 ** -52


def _within(got, ref, tol):
    """|got - ref| <= tol elementwise (NaN only where the reference is NaN, infinities equal)."""
    got, ref = np.asarray(got, float), np.asarray(ref, float)
    if got.shape != ref.shape:
        return False
    nan = np.isnan(ref)
    if np.any(np.isnan(got) != nan):
        return False
    fin = ~nan
    if np.any(np.isinf(got[fin]) | np.isinf(ref[fin])):
        return bool(np.array_equal(got[fin], ref[fin]))
    return bool(np.all(np.abs(got[fin] - ref[fin]) <= np.broadcast_to(tol, ref.shape)[fin]))


def _check_stats(res, fail, S, raw, label, mag=None):
    """All statistics of Samples S against the raw array `raw` (item_shape + (Ns,)).

    mag None: values are O(1), comparisons with vfw.core.close (relative to max(1, |values|)).
    mag 'scaled' / 'offset' (magnitude facet; constant chains count as 'offset'): every comparison is made per coordinate relative to that
    coordinate's own scale A_i = max_j |x_ij| (location statistics, interval bounds, widths) or to the reference
    value itself (variance, standard deviation).  The only absolute allowance is the one every backward stable
    evaluation needs: the mean is known to about eps*A_i only, which moves the variance by at most (8 eps A_i)^2 and
    the standard deviation by at most 8 eps A_i."""
    R = _ref_stats(raw)
    shape = raw.shape[:-1]
    res.count("stats-on:" + label)
    label = "multi-dim-samples" if len(shape) > 1 else "vector-samples"   # the only facet that selects a code path
    if mag is not None:
        label += ",mag=" + mag
        res.count("stats-mag:" + mag)
    A = np.max(np.abs(raw), axis=-1) if raw.shape[-1] else np.zeros(shape)

    def eq(a, b, rtol, scale=None, atol=0.0):
        if mag is None:
            return close(a, b, rtol)
        sc = np.where(np.isnan(scale), 0.0, np.abs(scale))
        return _within(a, b, rtol * sc + atol)
    got = {}
    for name, fn in (("mean", S.mean), ("median", S.median), ("variance", S.variance), ("std", S.std)):
        res.transitions += 1
        try:
            got[name] = np.asarray(fn(), float)
        except Exception as e:  # noqa
            fail(name, "raises,%s" % label, "%s() raised %r" % (name, e))
            return
        res.evaluations += 1
        if got[name].shape != shape:
            fail(name, "shape,%s" % label, "%s() has shape %s, one value per coordinate means %s" % (name, got[name].shape, shape))
            return
    if not eq(got["mean"], R["mean"], 1e-12, A):
        fail("mean", "values,%s" % label, "mean() is not the per-coordinate mean over the sample axis", impl=got["mean"], ref=R["mean"])
    if not eq(got["median"], R["median"], 1e-12, A):
        fail("median", "values,%s" % label, "median() is not the per-coordinate median over the sample axis", impl=got["median"], ref=R["median"])
    dd = None
    for name, r in (("var0", R["var0"]), ("var1", R["var1"])):
        if eq(got["variance"], r, 1e-11, r, (8 * _EPS * A) ** 2):
            dd = name
            break
    if dd is None:
        fail("variance", "values,%s" % label, "variance() is neither the population nor the sample variance per coordinate",
             impl=got["variance"], ref=R["var0"])
    else:
        res.count("variance-" + dd)
        if not eq(got["std"], np.sqrt(R[dd]), 1e-11, np.sqrt(R[dd]), 8 * _EPS * A):
            fail("std", "values,%s" % label, "std() is not the square root of the per-coordinate variance", impl=got["std"],
                 ref=np.sqrt(R[dd]))
    for pc in PERCENTS:
        res.transitions += 2
        try:
            ci = S.compute_ci(pc)
            lo, up = np.asarray(ci[0], float), np.asarray(ci[1], float)
            w = np.asarray(S.ci_width(pc), float)
        except Exception as e:  # noqa
            fail("compute_ci", "raises,%s" % label, "compute_ci(%s) raised %r" % (pc, e))
            return
        res.evaluations += 1
        if lo.shape != shape or up.shape != shape or w.shape != shape:
            fail("compute_ci", "shape,%s" % label, "CI bounds have shapes %s/%s/%s, expected %s" % (lo.shape, up.shape, w.shape, shape))
            return
        ql, qu = (100 - pc) / 2.0, 100 - (100 - pc) / 2.0
        matched = None
        for meth in _PCT_METHODS:
            if eq(lo, _ref_pct(raw, ql, meth), 1e-12, A) and eq(up, _ref_pct(raw, qu, meth), 1e-12, A):
                matched = meth
                break
        if matched is None:
            fail("compute_ci", "values,%s" % label, "compute_ci(%s) bounds are not the per-coordinate %g/%g percentiles over "
                 "the sample axis" % (pc, ql, qu), impl=[lo, up], ref=[_ref_pct(raw, ql), _ref_pct(raw, qu)])
        else:
            res.count("percentile-" + matched)
        tol = 1e-12 * max(1.0, float(np.max(np.abs(raw)))) if mag is None else 1e-12 * A
        if np.any(lo > R["median"] + tol) or np.any(R["median"] > up + tol):
            fail("compute_ci", "order,%s" % label, "lower bound <= median <= upper bound violated at level %s" % pc,
                 lo=lo, median=R["median"], up=up)
        if not eq(w, up - lo, 1e-12, A):
            fail("ci_width", "values,%s" % label, "ci_width(%s) is not upper - lower bound" % pc, impl=w, ref=up - lo)
        if pc == 100 and matched is not None:
            if not eq(lo, raw.min(axis=-1), 1e-12, A) or not eq(up, raw.max(axis=-1), 1e-12, A):
                fail("compute_ci", "values,%s" % label, "the 100% interval is not [min, max] of each coordinate")
    res.outcomes.add("stats:%s:%s" % (shape, np.round(got["mean"].ravel()[:2], 6).tolist()))


def eval_stats(cell, res):
    seen = set()

    def fail(op, what, msg, **d):
        sig = "C19|Samples|%s|%s" % (op, what)
        if sig not in seen:
            seen.add(sig)
            res.fail(sig, msg, **d)
    cf = Conf(cell["geom"])
    Ns = cell["Ns"]
    mag = cell.get("mag", "unit")
    mclass = MAG_CLASS[mag]
    for kk in range(cell["ncat"]):
        k = cell["cat"] + kk
        S, ref = _start(cf, cell["start"], Ns, k, mag)
        item = (cf.par_dim,) if ref.is_par else ((cf.funvec_dim,) if ref.is_vec else cf.fun_shape)
        raw = ref.array(item)
        before = _fp(S)
        res.state("stats-" + ref.key() + ":mag=" + mag)
        _check_stats(res, fail, S, raw, "repr=" + ("par" if ref.is_par else ("funvec" if ref.is_vec else "fun")), mclass)
        # statistics of function-value samples are those of the converted samples
        if ref.is_par or ref.is_vec:
            rf = ref.funvals(cf)
            try:
                Sf = S.funvals
            except Exception as e:  # noqa
                fail("funvals", "raises", "funvals raised %r" % (e,))
                Sf = None
            if Sf is not None:
                res.state("stats-funvals")
                wantf = rf.array(cf.fun_shape)
                gotf = np.asarray(Sf.samples)
                if gotf.shape == wantf.shape and (close(gotf, wantf, 1e-12) if mclass is None else _within(
                        gotf, wantf, 1e-12 * np.max(np.abs(wantf), axis=-1, keepdims=True))):
                    _check_stats(res, fail, Sf, wantf, "repr=converted-fun", mclass)
                else:
                    res.count("conversion-differs-statistics-not-judged")   # flagged by the history cells
        # statistics after burn-in/thinning are those of the slice
        if Ns >= 2:
            b, t = 1, 2
            rb = ref.burnthin(b, t)
            res.state("stats-burnthin")
            try:
                Sb = S.burnthin(b, t)
            except Exception as e:  # noqa   b < Ns: no licence to refuse
                fail("burnthin", "raises", "burnthin(%d,%d) raised %r on a chain of %d samples" % (b, t, e, Ns))
                Sb = None
            if Sb is None:
                pass
            elif np.array_equal(np.asarray(Sb.samples), rb.array(item)):
                _check_stats(res, fail, Sb, rb.array(item), "repr=burnthinned", mclass)
            else:
                res.count("burnthin-differs-statistics-not-judged")   # flagged by the history cells
        if _fp(S) != before:
            fail("statistics", "source-altered", "computing statistics changed the samples")
    try:
        res.sample = {"mean": np.asarray(S.mean()), "ci95": [np.asarray(x) for x in S.compute_ci(95)]}
    except Exception as e:  # noqa   already reported by _check_stats
        res.sample = {"statistics_raise": repr(e)}


# ----------------------------------------------------------------------------------------
# E3: ESS / R-hat receive each variable's chain unpermuted
# ----------------------------------------------------------------------------------------
def _chains(d, n, k, salt):
    """Deterministic chains with a different autocorrelation structure per variable (all ESS / R-hat distinct)."""
    X = np.zeros((d, n))
    for i in range(d):
        for j in range(n):
            X[i, j] = (0.5 * i + ((j * (i + 2 + salt) + k) % (i + 3)) * 0.5 + 0.25 * ((j * j + i + salt) % 3)
                       + (j * (i + 1)) / (8.0 * n) * ((i + k) % 3) + (0.5 * (i + 1) if j < (i + 2) else 0.0))
    return X


def eval_ess(cell, res):
    import cuqi
    import arviz
    d, n, k = cell["dim"], cell["Ns"], cell["cat"]
    seen = set()

    def fail(op, what, msg, **dd):
        sig = "C19|Samples|%s|%s" % (op, what)
        if sig not in seen:
            seen.add(sig)
            res.fail(sig, msg, **dd)
    if cell["names"] == "default":
        geom = None
    else:
        base = ["zeta", "b", "alpha", "v10", "v2", "m", "c", "y", "a", "x1", "x0", "q", "k"]
        geom = cuqi.geometry.Discrete(base[:d])
    X = _chains(d, n, k, 0)
    S = cuqi.samples.Samples(X.copy(), geometry=geom)
    res.state("ess")
    res.transitions += 1
    try:
        ess = np.asarray(S.compute_ess(), float)
    except Exception as e:  # noqa
        fail("compute_ess", "raises", "compute_ess raised %r" % (e,))
        ess = None
    ref = np.array([float(arviz.ess(X[i].copy())) for i in range(d)])
    if ess is not None:
        res.evaluations += 1
        if ess.shape != (d,):
            fail("compute_ess", "shape", "compute_ess returned shape %s for %d variables" % (ess.shape, d))
        elif not close(ess, ref, 1e-9):
            perm = sorted(range(d), key=lambda i: ref[i])
            what = "permuted" if close(np.sort(ess), np.sort(ref), 1e-9) else "values"
            fail("compute_ess", what + ",names=%s" % cell["names"], "compute_ess differs from arviz.ess of each variable's own chain "
                 "(%s)" % what, impl=ess, ref=ref)
        res.outcomes.add("ess-distinct=%d" % len(set(np.round(ref, 6))))
    others = [cuqi.samples.Samples(_chains(d, n, k, s + 1), geometry=geom) for s in range(cell["extra"])]
    res.transitions += 1
    try:
        rh = np.asarray(S.compute_rhat(others if cell["extra"] > 1 else others[0]), float)
    except Exception as e:  # noqa
        fail("compute_rhat", "raises", "compute_rhat raised %r" % (e,))
        return
    refr = np.array([float(arviz.rhat(np.array([X[i]] + [np.asarray(o.samples)[i] for o in others]))) for i in range(d)])
    res.evaluations += 1
    if rh.shape != (d,):
        fail("compute_rhat", "shape", "compute_rhat returned shape %s for %d variables" % (rh.shape, d))
    elif not close(rh, refr, 1e-9):
        what = "permuted" if close(np.sort(rh), np.sort(refr), 1e-9) else "values"
        fail("compute_rhat", what + ",names=%s" % cell["names"], "compute_rhat differs from arviz.rhat of each variable's own chains "
             "(%s)" % what, impl=rh, ref=refr)
    res.outcomes.add("rhat-distinct=%d" % len(set(np.round(refr, 6))))
    if not np.array_equal(np.asarray(S.samples), X):
        fail("diagnostics", "source-altered", "ESS / R-hat changed the samples")
    res.sample = {"ess": ess, "ess_reference": ref, "rhat": rh}


# ----------------------------------------------------------------------------------------
# E4: read-only operations - every consumer of the chain leaves every holder of the storage untouched, and its
#     result does not depend on which other read-only operations ran before
# ----------------------------------------------------------------------------------------
RO_ORIGINS = ["own-C", "own-F", "view", "copy", "joint"]


def _geom_digest(g):
    """Public face of a geometry object (attribute caches that are filled lazily are not part of it)."""
    out = [type(g).__name__]
    for attr in ("par_shape", "fun_shape"):
        try:
            out.append(tuple(getattr(g, attr)))
        except Exception:  # noqa
            out.append("?")
    try:
        out.append(tuple(str(v) for v in g.variables))
    except Exception:  # noqa
        out.append("?")
    return tuple(out)


def _fp_vals(S):
    a = S.samples
    arr = np.asarray(a)
    return (type(a).__name__, arr.shape, arr.dtype.str, arr.tobytes(), bool(S.is_par), bool(S.is_vec))


def _fp_ro(S):
    """Complete observable state of a Samples object: stored values bit for bit (shape, dtype), flags, the identity and
    the public face of its geometry."""
    return _fp_vals(S) + (id(S._geometry), _geom_digest(S._geometry))


def _dig(x, depth=0):
    """Canonical, bit-exact digest of what an operation returned (arrays, sample sets, containers, matplotlib artists
    reduced to the data they draw)."""
    import cuqi
    if depth > 8:
        return ("deep", type(x).__name__)
    if x is None or isinstance(x, (bool, str)):
        return x
    if isinstance(x, cuqi.samples.Samples):
        return ("Samples",) + _fp_vals(x) + (_geom_digest(x.geometry),)
    if isinstance(x, (int, float, complex, np.generic)):
        a = np.asarray(x)
        return ("num", a.dtype.str, a.tobytes())
    if isinstance(x, np.ndarray):
        if x.dtype == object:
            return ("objarr", x.shape, tuple(_dig(e, depth + 1) for e in x.ravel()))
        a = np.ma.getdata(x) if isinstance(x, np.ma.MaskedArray) else x
        return ("arr", a.shape, a.dtype.str, np.asarray(a).tobytes())
    if isinstance(x, dict):       # insertion order is part of the result (variable order)
        return ("dict", type(x).__name__, tuple((str(key), _dig(v, depth + 1)) for key, v in x.items()))
    if isinstance(x, (list, tuple)):
        return ("seq", tuple(_dig(e, depth + 1) for e in x))
    if hasattr(x, "get_xydata"):                                        # Line2D
        return ("line", _dig(np.asarray(x.get_xydata()), depth + 1))
    if hasattr(x, "lines") and hasattr(x, "collections"):               # Axes: everything drawn in it
        return ("axes",) + tuple(tuple(_dig(e, depth + 1) for e in getattr(x, attr))
                                 for attr in ("lines", "collections", "images", "patches"))
    if hasattr(x, "get_array"):                                         # images, meshes, poly / line collections
        arr = x.get_array()
        paths = x.get_paths() if hasattr(x, "get_paths") else []
        return ("mappable", type(x).__name__, _dig(None if arr is None else np.asarray(np.ma.getdata(arr)), depth + 1),
                tuple(_dig(np.asarray(pa.vertices), depth + 1) for pa in paths))
    if hasattr(x, "get_bbox") and hasattr(x, "get_height"):             # Rectangle (histogram bar)
        return ("rect", _dig(np.asarray(x.get_bbox().bounds, float), depth + 1))
    if hasattr(x, "get_path"):
        return ("patch", _dig(np.asarray(x.get_path().vertices), depth + 1))
    return ("obj", type(x).__name__)


class _RoCtx:
    """One freshly built object under test T together with every other holder of (parts of) its storage and every
    other chain handed to an operation ('watchers').  `want` is what T must store according to the reference."""

    def __init__(self, cf, start, n, k, origin):
        import copy as _copy
        import cuqi
        self.cf, self.n, self.origin = cf, n, origin
        N = n if origin in ("own-C", "own-F", "copy") else 2 * n + 2       # parent length such that [3::2] has n samples
        P, ref = _start(cf, start, N, k)
        self.is_par, self.is_vec = ref.is_par, ref.is_vec
        item = (cf.par_dim,) if ref.is_par else ((cf.funvec_dim,) if ref.is_vec else cf.fun_shape)
        self.item = item
        raw = ref.array(item)
        self.joint = None
        self.watch = []
        if origin == "own-C":
            self.T, self.want = P, raw
        elif origin == "own-F":
            P.samples = np.asfortranarray(raw.copy())
            self.T, self.want = P, raw
        elif origin == "copy":
            self.T, self.want = _copy.copy(P), raw
            self.watch.append(("shallow-copy-source", P, raw))
        elif origin == "view":
            self.T, self.want = P.burnthin(3, 2), raw[..., 3::2]
            self.watch.append(("burnthin-source", P, raw))
        else:
            Sx, rx = _start(Conf("default2"), "par", N, k + 1)
            rawx = rx.array((2,))
            J = cuqi.samples.JointSamples({"x": Sx, "y": P})
            J2 = J.burnthin(3, 2)
            self.joint = J2
            self.T, self.want = J2["y"], raw[..., 3::2]
            self.watch += [("joint-source-member", P, raw), ("joint-source-sibling", Sx, rawx),
                           ("joint-sibling", J2["x"], rawx[..., 3::2])]
        self.watch.insert(0, ("object", self.T, self.want))
        # further chains handed to R-hat: same geometry, same representation
        self.others = []
        for s in (11, 12):
            w = _values(item, n, k, salt=s)
            O = cuqi.samples.Samples(w.copy(), geometry=self.T.geometry, is_par=ref.is_par, is_vec=ref.is_vec)
            self.others.append(O)
            self.watch.append(("rhat-chain", O, w))
        self.exact = np.mean(self.want, axis=-1)
        for _, S, _w in self.watch:
            S.geometry               # created lazily on first access: before anything is fingerprinted

    def built_right(self):
        for name, S, want in self.watch:
            got = np.asarray(S.samples)
            if got.shape != want.shape or not np.array_equal(got, want):
                return name
        return None

    def fps(self):
        return [_fp_ro(S) for _, S, _ in self.watch]

    def changed(self, fps0):
        out = []
        for (name, S, want), f0 in zip(self.watch, fps0):
            if _fp_ro(S) != f0:
                got = np.asarray(S.samples)
                if got.shape == want.shape and got.dtype.kind == "f":
                    out.append("%s (stored values moved by up to %.3g)" % (name, float(np.max(np.abs(got - want))) if got.size else 0.0))
                else:
                    out.append("%s (shape/dtype/flags/geometry)" % name)
        return out


def _ro_ops(ctx, plots, rhat2=True):
    """Operation alphabet of the read-only histories: (label, group, callable(ctx) -> result).
    group 'cheap' operations are also the second operation of every pair; 'heavy' ones (arviz statistics, plotting)
    are first operations of pairs and members of the two sweeps."""
    from cuqi.diagnostics import Geweke
    import copy as _copy
    n = ctx.n
    d = int(np.prod(ctx.item))
    last = [0, n - 1] if n > 1 else [0]
    ops = [
        ("mean", "cheap", lambda c: c.T.mean()),
        ("median", "cheap", lambda c: c.T.median()),
        ("variance", "cheap", lambda c: c.T.variance()),
        ("std", "cheap", lambda c: c.T.std()),
        ("compute_ci", "cheap", lambda c: c.T.compute_ci()),
        ("compute_ci(50)", "cheap", lambda c: c.T.compute_ci(50)),
        ("ci_width", "cheap", lambda c: c.T.ci_width()),
        ("ci_width(50)", "cheap", lambda c: c.T.ci_width(50)),
        ("burnthin(0)", "cheap", lambda c: c.T.burnthin(0)),
        ("burnthin(3,2)", "cheap", lambda c: c.T.burnthin(3, 2)),
        ("burnthin(n-1,1)", "cheap", lambda c: c.T.burnthin(n - 1, 1)),
        ("burnthin(n)", "cheap", lambda c: c.T.burnthin(n)),
        ("funvals", "cheap", lambda c: c.T.funvals),
        ("vector", "cheap", lambda c: c.T.vector),
        ("parameters", "cheap", lambda c: c.T.parameters),
        ("copy", "cheap", lambda c: _copy.copy(c.T)),
        ("deepcopy", "cheap", lambda c: _copy.deepcopy(c.T)),
        ("iterate", "cheap", lambda c: [np.array(v) for v in c.T]),
        ("shape/Ns", "cheap", lambda c: (tuple(c.T.shape), int(c.T.Ns))),
        ("repr", "cheap", lambda c: repr(c.T)),
        ("diagnostics", "cheap", lambda c: c.T.diagnostics()),
        ("Geweke", "heavy", lambda c: Geweke(c.T.samples.T)),
        ("Geweke(A=.25,B=.25)", "heavy", lambda c: Geweke(c.T.samples.T, 0.25, 0.25)),
        ("to_arviz_inferencedata", "cheap", lambda c: c.T.to_arviz_inferencedata()),
        ("to_arviz_inferencedata([0])", "cheap", lambda c: c.T.to_arviz_inferencedata([0])),
        ("compute_ess", "heavy", lambda c: c.T.compute_ess()),
        ("compute_rhat(chain)", "heavy", lambda c: c.T.compute_rhat(c.others[0])),
    ]
    if rhat2:
        ops.append(("compute_rhat([2 chains])", "heavy", lambda c: c.T.compute_rhat(list(c.others))))
    if ctx.joint is not None:
        ops += [("joint.burnthin(1,2)", "cheap", lambda c: dict(c.joint.burnthin(1, 2))),
                ("joint.repr", "cheap", lambda c: repr(c.joint))]
    if plots in ("mpl", "all"):
        ops += [
            ("plot_mean", "heavy", lambda c: c.T.plot_mean()),
            ("plot_median", "heavy", lambda c: c.T.plot_median()),
            ("plot_variance", "heavy", lambda c: c.T.plot_variance()),
            ("plot_std", "heavy", lambda c: c.T.plot_std()),
            ("plot_ci_width", "heavy", lambda c: c.T.plot_ci_width()),
            ("plot_ci", "heavy", lambda c: c.T.plot_ci()),
            ("plot_ci(68,exact)", "heavy", lambda c: c.T.plot_ci(68, exact=c.exact.copy())),
            ("plot", "heavy", lambda c: c.T.plot()),
            ("plot(indices)", "heavy", lambda c: c.T.plot(list(last))),
            ("plot_chain", "heavy", lambda c: c.T.plot_chain()),
            ("plot_chain([0])", "heavy", lambda c: c.T.plot_chain([0])),
            ("hist_chain", "heavy", lambda c: c.T.hist_chain([0, d - 1] if d > 1 else [0])),
        ]
    if plots == "all":
        two = [0, d - 1] if d > 1 else [0]
        ops += [
            ("plot_autocorrelation", "heavy", lambda c: c.T.plot_autocorrelation(two)),
            ("plot_trace", "heavy", lambda c: c.T.plot_trace(two, exact=c.exact.copy() if c.exact.ndim == 1 else None)),
            ("plot_pair", "heavy", lambda c: c.T.plot_pair(two)),
            ("plot_violin", "heavy", lambda c: c.T.plot_violin(two)),
        ]
    return ops


def _ro_run(fn, ctx, plotting, keep=None):
    """Run one operation on the real objects; the result (or the refusal) as a digest."""
    np.random.seed(190019)        # the plotting helpers pick variables / samples with the global generator when not told
    try:
        raw = fn(ctx)
        if keep is not None:
            keep.append(raw)
        out = _dig(raw)
    except Exception as e:  # noqa   a refusal; whether it is consistent is what is judged
        out = ("raises", type(e).__name__)
    if plotting:
        import matplotlib.pyplot as plt
        plt.close("all")
    return out


def eval_ro(cell, res):
    from cuqi.diagnostics import Geweke
    cf = Conf(cell["geom"])
    n, k, origin, start, plots = cell["n"], cell["cat"], cell["origin"], cell["start"], cell["plots"]
    seen = set()

    def comp(label):
        return "JointSamples" if label.startswith("joint.") else ("diagnostics" if label.startswith("Geweke") else "Samples")

    def fail(label, what, msg, **d):
        sig = "C19|%s|%s|%s" % (comp(label), label[6:] if label.startswith("joint.") else label, what)
        if sig not in seen:
            seen.add(sig)
            res.fail(sig, msg, **d)

    def build():
        return _RoCtx(cf, start, n, k, origin)
    ctx0 = build()
    bad = ctx0.built_right()
    res.transitions += 1
    if bad is not None:
        # construction / derivation itself is judged by the hist cells; nothing to build on here
        res.count("ro-not-built:" + bad)
        return
    key = "%s%s:n=%d:%s" % ("P" if ctx0.is_par else "F", "v" if ctx0.is_vec else "a", n, origin)
    res.state("ro:" + key)
    ops = _ro_ops(ctx0, plots, cell["rhat2"])
    pairs = cell["pairs"]
    plotting = plots != "none"
    fps_built = ctx0.fps()
    if pairs:
        # the statistics of this (longer) chain against the per-coordinate reference, and the Geweke scores per variable
        _check_stats(res, lambda op, what, msg, **d: fail(op, what, msg, **d), ctx0.T, ctx0.want, "ro-" + origin)
        if ctx0.is_vec and len(ctx0.item) == 1:
            X = np.ascontiguousarray(ctx0.want.T)
            try:
                z, p = Geweke(X.copy())
                cols = [Geweke(X[:, [i]].copy()) for i in range(X.shape[1])]
            except Exception:  # noqa   chain too short for the spectral estimate
                res.count("geweke-refuses:n=%d" % n)
            else:
                res.transitions += 1 + len(cols)
                res.evaluations += 1
                zz, pp = np.array([c[0][0] for c in cols]), np.array([c[1][0] for c in cols])
                if not (close(z, zz, 1e-12) and close(p, pp, 1e-12)):
                    fail("Geweke", "per-variable", "Geweke's z-score / p-value of variable i in the joint call differs from that "
                         "of variable i's chain alone", impl=[z, p], ref=[zz, pp])
                else:
                    res.outcomes.add("geweke-per-variable:%d" % X.shape[1])
        ch = ctx0.changed(fps_built)
        if ch:
            fail("statistics", "source-altered", "computing the statistics changed: %s" % "; ".join(ch))
            return
    # level 1: every operation alone on a fresh object - fresh result, every holder of the storage untouched
    fresh, dirty, misjudged = {}, set(), set()
    for label, group, fn in ops:
        ctx = build()
        fps0 = ctx.fps()
        res.transitions += 1
        res.traces += 1
        keep = [] if label.startswith(("compute_ess", "compute_rhat")) else None
        fresh[label] = _ro_run(fn, ctx, plotting, keep)
        refused = isinstance(fresh[label], tuple) and fresh[label][:1] == ("raises",)
        if keep and ctx.is_vec and len(ctx.item) == 1:
            # ESS / R-hat of this representation: one value per stored row, that of the row's own chain(s)
            import arviz
            d = ctx.item[0]
            facet = "repr=par" if ctx.is_par else ("repr=funvec" if d == cf.par_dim else "repr=funvec,rows!=par_dim")
            W = [ctx.want] + [w for name, _, w in ctx.watch if name == "rhat-chain"][:2 if "2 chains" in label else 1]
            if label == "compute_ess":
                want = np.array([float(arviz.ess(W[0][i].copy())) for i in range(d)])
            else:
                want = np.array([float(arviz.rhat(np.array([w[i] for w in W]))) for i in range(d)])
            try:
                got = np.asarray(keep[0], float)
            except Exception:  # noqa   not an array of numbers at all
                got = np.zeros(0)
            res.evaluations += 1
            if got.shape != (d,) or not close(got, want, 1e-9):
                misjudged.add(label)
                fail(label.split("(")[0], "values," + facet, "%s of a %s chain with %d stored rows returned %s; one value per row, "
                     "computed from that row's own chain(s), is %s" % (label, key, d, got, want), impl=got, ref=want)
            else:
                res.outcomes.add("%s-per-row:%s" % (label, facet))
        if refused:
            res.refused += 1
        res.count(("ro-refused:" if refused else "ro-ran:") + label)
        res.outcomes.add("%s:%s" % (label, "refused" if refused else "ran"))
        res.evaluations += 1
        ch = ctx.changed(fps0)
        if ch:
            dirty.add(label)
            fail(label, "source-altered", "%s on a %s chain of %d samples (origin %s) is a read-only operation but changed: %s"
                 % (label, key, n, origin, "; ".join(ch)), origin=origin, n=n)
    if res.sample is None:
        res.sample = {"origin": origin, "operations": [o[0] for o in ops], "refused": sorted(
            lab for lab, v in fresh.items() if isinstance(v, tuple) and v[:1] == ("raises",))}
    # operations already reported (altering their source / wrong values) are left out of the histories
    clean = [o for o in ops if o[0] not in dirty and o[0] not in misjudged]
    cheap = [o for o in clean if o[1] == "cheap"]

    def follow(ctx, fps0, hist, label, fn):
        """one further operation on a live object: same result as on a fresh one, everything still untouched"""
        res.transitions += 1
        got = _ro_run(fn, ctx, plotting)
        res.evaluations += 2
        if got != fresh[label]:
            fail(label, "result-depends-on-history", "%s after %s gives another result than on a fresh object (origin %s, n=%d)"
                 % (label, hist, origin, n), history=hist + [label])
        ch = ctx.changed(fps0)
        if ch:
            fail(label, "source-altered", "%s after %s changed: %s" % (label, hist, "; ".join(ch)), history=hist + [label])
            return False
        return True
    # level 2: op1 -> op2 for every op1 and every cheap op2.  States are merged on the complete fingerprint: the object
    # is re-used for the next op2 only because every step so far was verified to leave every fingerprint unchanged.
    for label1, _, fn1 in (cheap if pairs else []):
        ctx = build()
        fps0 = ctx.fps()
        res.traces += 1
        res.transitions += 1
        _ro_run(fn1, ctx, plotting)
        if ctx.changed(fps0):          # cannot happen for a clean operation unless it is history dependent itself
            fail(label1, "source-altered", "%s changed its source on the second fresh object" % label1)
            continue
        for label2, _, fn2 in cheap:
            if not follow(ctx, fps0, [label1], label2, fn2):
                break
    # sweeps: all operations (heavy ones included) one after the other on ONE object, in both orders - every ordered pair
    # (a before b) occurs in one of them
    for order in (clean, clean[::-1]):
        ctx = build()
        fps0 = ctx.fps()
        res.traces += 1
        hist = []
        for label, _, fn in order:
            ok = follow(ctx, fps0, list(hist), label, fn)
            hist.append(label)
            if not ok:
                break


FAMS = {"hist": eval_hist, "joint": eval_joint, "indep": eval_indep, "indep-joint": eval_indep_joint, "stats": eval_stats, "ess": eval_ess, "ro": eval_ro}


def _library_frame(exc):
    """Innermost traceback frame that lies inside the cuqi package (None if the exception is the check's own)."""
    import os
    import traceback
    import cuqi
    root = os.path.dirname(os.path.abspath(cuqi.__file__)) + os.sep
    hit = None
    for fr in traceback.extract_tb(exc.__traceback__):
        if os.path.abspath(fr.filename).startswith(root):
            hit = fr
    return hit


def eval_cell(cell):
    import cuqi  # noqa
    res = CellResult(cell)
    try:
        FAMS[cell["fam"]](cell, res)
    except Exception as e:  # noqa
        # Safety net: every library call whose refusal the statement allows is guarded where it is made.  What arrives
        # here from INSIDE the library is therefore a refusal without licence (construction, attribute access, ...):
        # a verdict.  An exception of the check's own code stays a harness error.
        fr = _library_frame(e)
        if fr is None:
            raise
        res.transitions += 1
        res.fail("C19|%s|%s|raises-unexpectedly" % ("JointSamples" if cell["fam"] == "joint" else "Samples", fr.name),
                 "%s (cuqi %s:%s) raised %r in a %s cell where the statement gives no licence to refuse"
                 % (fr.name, fr.filename.rsplit("/", 1)[-1], fr.lineno, e, cell["fam"]))
    if res.transitions == 0:
        res.nontrivial = False
    return res
