"""C01 helper: nested / sequential model building over the graphs of the shared catalogue.

A ``Nested`` graph is a *derived* model graph with the same interface as ``_graphs.Graph``:

  stage 1   a base graph (a catalogue graph, or again a Nested graph) is conditioned along ONE history that
            fixes every variable but one (``keep``); the library returns a single reduced density R over ``keep``
            (a Distribution carrying the constants of the fixed variables, a Posterior, a
            MultipleLikelihoodPosterior);
  stage 2   R is used as a MEMBER of a NEW JointDistribution together with fresh densities that depend on the
            same variable (further data distributions, a fresh hyper-parameter); the explorer of c01.py then
            enumerates every conditioning history of that new joint exactly as it does for a catalogue graph.

Reference (independent of the library): the contribution of member R at ``keep = v`` is the COMPLETE stage-1
reference joint log-density with ``keep`` read as v and every other stage-1 variable at the value it was fixed to;
the fresh factors are scipy / explicit Gaussian and Gamma densities.

Extension shapes (member order is part of the shape; names e<L>, f<L>, h<L> with L = nesting level):
  A : (e, R)          e ~ N(B1 v, c1 I)                                   one more data set
  C : (R, h, e)       e ~ N(B1 v, 1/h I), h ~ Gamma                       data set with a fresh hyper-parameter, R first
  D : (e, f, R)       e ~ N(B1 v, c1 I), f ~ N(B2 v, diag c2)             two data sets of different sizes
  B : (e, R, h, f)    e ~ N(B1 v, c1 I), f ~ N(B2 v, 1/h I), h ~ Gamma    four members

Harness hygiene as in _graphs.py: library objects only in obj*/_* names or containers.
"""
import numpy as np
from vfw import refs
from checks import _graphs as GR

SHAPES = ("A", "C", "D", "B")


def apply_history(obj, history, vals):
    """Replay a conditioning history ((mode, ordered names), ...) with the values of vals on obj."""
    for mode, order in history:
        if mode == "kw":
            obj = obj(**{n: GR.copy_val(vals[n]) for n in order})
        else:
            npos = int(mode[3:])
            pos = [GR.copy_val(vals[n]) for n in order[:npos]]
            obj = obj(*pos, **{n: GR.copy_val(vals[n]) for n in order[npos:]})
    return obj


def _fn(args, expr, env):
    """A python callable whose ARGUMENT NAMES are the given variable names (the library links densities by them)."""
    return eval("lambda %s: %s" % (", ".join(args), expr), dict(env, np=np))


class Nested(GR.Graph):
    def __init__(self, base, history, shape, level=1):
        self.base = base
        self.history = tuple((m, tuple(o)) for m, o in history)
        fixed = [n for _m, o in self.history for n in o]
        rem = [n for n in base.free if n not in fixed]
        if len(rem) != 1 or len(set(fixed)) != len(fixed):
            raise AssertionError("harness: stage-1 history must fix every variable but one, each once")
        self.keep = rem[0]
        self.shape = shape
        self.level = level
        self.e, self.f, self.h = "e%d" % level, "f%d" % level, "h%d" % level
        v, e, f, h = self.keep, self.e, self.f, self.h
        self.hist_id = " ; ".join("%s(%s)" % (m, ",".join(o)) for m, o in self.history)
        self.gid = "%s>%s[%s|%s]" % (base.gid, shape, v, self.hist_id)
        self.title = "stage-2 joint of shape %s on the density over %s reduced from %s by %s" % (shape, v, base.gid, self.hist_id)
        self.free = {"A": [e, v], "C": [v, h, e], "D": [e, f, v], "B": [e, v, h, f]}[shape]
        self.data0 = []
        n = base.dims[v]
        self.dims = {v: n, e: 2, f: 3, h: 1}
        self.parents = {"A": {e: [v], v: []}, "C": {v: [], h: [], e: [v, h]}, "D": {e: [v], f: [v], v: []},
                        "B": {e: [v], v: [], h: [], f: [v, h]}}[shape]

    # -- fresh parameters / values -----------------------------------------------------------------
    def par(self, k):
        n = self.base.dims[self.keep]
        L = self.level
        return dict(B1=refs.full_matrix(2, n, k + 4 + L), B2=refs.full_matrix(3, n, k + 6 + L), c1=[0.75, 1.5, 0.375][k],
                    c2=np.array([[0.5, 1.25, 2.0], [1.5, 0.25, 0.75], [2.5, 0.5, 1.0]][k]),
                    gh=([2.5, 1.5, 3.0][k], [0.75, 2.0, 1.25][k]))

    def base_values(self, k):
        return self.base.values(k)

    def values(self, k):
        L = self.level
        allv = {self.keep: GR.copy_val(self.base.values(k)[self.keep]), self.e: refs.dyadic_vec(2, k + 10 + L),
                self.f: refs.dyadic_vec(3, k + 12 + L), self.h: [1.25, 0.5, 2.0][k]}
        return {n: allv[n] for n in self.free}

    # -- library objects --------------------------------------------------------------------------------
    def reduced(self, k):
        """Fresh stage-1 objects, conditioned along the stage-1 history -> the reduced density over keep."""
        return apply_history(self.base.build(k).joint, self.history, self.base.values(k))

    def build(self, k):
        import cuqi
        D = cuqi.distribution
        p = self.par(k)
        v, e, f, h = self.keep, self.e, self.f, self.h
        _r = self.reduced(k)
        lin = "_B @ np.asarray(%s, dtype=float).reshape(-1)" % v
        fac = {v: _r}
        if self.shape in ("A", "D", "B"):
            fac[e] = D.Gaussian(mean=_fn([v], lin, {"_B": p["B1"]}), cov=p["c1"], geometry=2, name=e)
        else:
            fac[e] = D.Gaussian(mean=_fn([v], lin, {"_B": p["B1"]}), cov=_fn([h], "1.0 / %s" % h, {}), geometry=2, name=e)
        if self.shape == "D":
            fac[f] = D.Gaussian(mean=_fn([v], lin, {"_B": p["B2"]}), cov=p["c2"].copy(), geometry=3, name=f)
        if self.shape == "B":
            fac[f] = D.Gaussian(mean=_fn([v], lin, {"_B": p["B2"]}), cov=_fn([h], "1.0 / %s" % h, {}), geometry=3, name=f)
        if self.shape in ("C", "B"):
            fac[h] = D.Gamma(p["gh"][0], p["gh"][1], name=h)
        return GR.Bundle(D.JointDistribution(*[fac[n] for n in self.free]), fac, extra={"reduced": _r})

    # -- reference ----------------------------------------------------------------------------------------
    def ref_factors(self, k, vals):
        p = self.par(k)
        v, e, f, h = self.keep, self.e, self.f, self.h
        bv = dict(self.base.values(k))
        bv[v] = vals[v]
        xv = np.asarray(vals[v], dtype=float).reshape(-1)
        out = {v: float(sum(self.base.ref_factors(k, bv).values()))}
        if self.shape in ("A", "D", "B"):
            out[e] = GR.lg_gauss(vals[e], p["B1"] @ xv, p["c1"])
        else:
            out[e] = GR.lg_gauss(vals[e], p["B1"] @ xv, 1.0 / vals[h])
        if self.shape == "D":
            out[f] = GR.lg_gauss(vals[f], p["B2"] @ xv, p["c2"])
        if self.shape == "B":
            out[f] = GR.lg_gauss(vals[f], p["B2"] @ xv, 1.0 / vals[h])
        if self.shape in ("C", "B"):
            out[h] = GR.lg_gamma(vals[h], *p["gh"])
        return out


# ------------------------------------------------------------------------------------------------------------
def stage1_histories(graph, k, keep, which, step_modes):
    """Stage-1 histories of `graph` that fix every variable but `keep`.

    which = "onestep": the coarsest grouping (all other variables in one keyword step);
    which = "finest":  the finest grouping (one variable per keyword step, in the joint's parameter order);
    which = "extreme": both of them;
    which = "all":     every ordered set partition of the other variables x every passing mode of step_modes
                       (the same histories the one-stage explorer enumerates; parameter orders are read off the
                       real intermediate objects)."""
    others = [n for n in graph.free if n != keep]
    if which in ("extreme", "onestep", "finest"):
        out = [(("kw", tuple(others)),)] if which != "finest" else []
        if which != "onestep" and (len(others) > 1 or not out):
            out.append(tuple(("kw", (n,)) for n in others))
        return out
    import itertools
    vals = graph.values(k)
    out = []

    def rec(history, remaining):
        if not remaining:
            out.append(history)
            return
        try:
            names = list(apply_history(graph.build(k).joint, history, vals).get_parameter_names())
        except Exception:  # noqa  (a refusing stage-1 step is judged by the one-stage explorer)
            return
        for r in range(1, len(remaining) + 1):
            for S in itertools.combinations(remaining, r):
                for step in step_modes(S, names, "quick"):
                    rec(history + (step,), [n for n in remaining if n not in S])
    rec((), others)
    return out
