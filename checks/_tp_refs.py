"""Reference operators and option catalogues for the shipped test problems (shared by C07 and C17).

Everything here is written from the *documentation* of the test problems (docstrings of
cuqi.testproblem and of scipy.ndimage for the boundary modes) with explicit index arithmetic
in dense numpy.  Nothing in this module imports or calls cuqi; scipy.ndimage is only touched by
``selftest`` (a one-off cross-check of the index formulas, a harness self-test, not an oracle);
scipy.interpolate's general interpolating-spline constructors are the trusted base of ``observe_refs``
(the accepted family of interpolants for off-node observation points of the PDE problems).
"""
import math
import numpy as np

# ----------------------------------------------------------------------------------------
# boundary extension rules (scipy.ndimage mode semantics, documented as
#   constant (k k k k | a b c d | k k k k)      -> 'zero'
#   wrap     (a b c d | a b c d | a b c d)      -> 'periodic'
#   mirror   (d c b   | a b c d | c b a)        -> 'mirror'   reflect about the centre of the last pixel
#   reflect  (d c b a | a b c d | d c b a)      -> 'reflect'  reflect about the edge of the last pixel
#   nearest  (a a a a | a b c d | d d d d)      -> 'nearest'
# ----------------------------------------------------------------------------------------
BC_1D = ["zero", "periodic", "mirror", "reflect", "nearest"]
# Deconvolution2D names: 'Neumann (reflective)' = reflection about the edge (half-sample symmetric),
# 'Mirror' = reflection about the centre of the last pixel (same word as in the 1-D problem).
BC_2D = ["zero", "periodic", "neumann", "mirror", "nearest"]
_RULE = {"zero": "constant", "periodic": "wrap", "mirror": "mirror", "reflect": "reflect",
         "neumann": "reflect", "nearest": "nearest"}


def ext_index(i, N, bc):
    """Index in 0..N-1 the (possibly out-of-range) position ``i`` refers to, or None (= value 0)."""
    rule = _RULE[bc.lower()]
    if 0 <= i < N:
        return i
    if rule == "constant":
        return None
    if rule == "wrap":
        return i % N
    if rule == "nearest":
        return 0 if i < 0 else N - 1
    if rule == "reflect":            # period 2N:  0..N-1, N-1..0
        m = i % (2 * N)
        return m if m < N else 2 * N - 1 - m
    if rule == "mirror":             # period 2N-2: 0..N-1, N-2..1
        if N == 1:
            return 0
        m = i % (2 * N - 2)
        return m if m < N else 2 * N - 2 - m
    raise ValueError(bc)


def conv1d_matrix(P, N, bc):
    """Dense matrix of  y_i = sum_k P[k] * x_ext[i + c - k],  c = len(P)//2  (the centre convention of
    scipy.ndimage.convolve1d with origin 0, for odd and even kernel lengths)."""
    P = np.asarray(P, float)
    s = P.size
    c = s // 2
    A = np.zeros((N, N))
    for i in range(N):
        for k in range(s):
            j = ext_index(i + c - k, N, bc)
            if j is not None:
                A[i, j] += P[k]
    return A


def conv2d_matrix(P, N, bc):
    """Dense (N*N x N*N) matrix (row-major pixels) of
    Y[i1,i2] = sum_{k1,k2} P[k1,k2] X_ext[i1 + c1 - k1, i2 + c2 - k2],  c = shape//2, extension per axis."""
    P = np.asarray(P, float)
    s1, s2 = P.shape
    c1, c2 = s1 // 2, s2 // 2
    A = np.zeros((N * N, N * N))
    for i1 in range(N):
        for i2 in range(N):
            r = i1 * N + i2
            for k1 in range(s1):
                j1 = ext_index(i1 + c1 - k1, N, bc)
                if j1 is None:
                    continue
                for k2 in range(s2):
                    j2 = ext_index(i2 + c2 - k2, N, bc)
                    if j2 is None:
                        continue
                    A[r, j1 * N + j2] += P[k1, k2]
    return A


def selftest():
    """One-off cross-check of the index formulas against scipy.ndimage (harness self-test).
    Returns a list of discrepancies (empty = fine)."""
    from scipy import ndimage
    bad = []
    for N in (5, 6):
        for s in (3, 4, 5):
            P1 = np.array([1.0, 2.0, 4.0, 8.0, 16.0, 32.0][:s])
            for bc in BC_1D:
                A = conv1d_matrix(P1, N, bc)
                B = np.array([ndimage.convolve1d(e, P1, mode=_RULE[bc]) for e in np.eye(N)]).T
                if not np.allclose(A, B, atol=1e-13):
                    bad.append(("1d", N, s, bc))
    N = 4
    for s in (3, 4):
        P2 = np.arange(1.0, s * s + 1).reshape(s, s) ** 1.5
        for bc in BC_2D:
            A = conv2d_matrix(P2, N, bc)
            cols = []
            for j in range(N * N):
                E = np.zeros(N * N)
                E[j] = 1
                cols.append(ndimage.convolve(E.reshape(N, N), P2, mode=_RULE[bc]).ravel())
            if not np.allclose(A, np.array(cols).T, atol=1e-13):
                bad.append(("2d", N, s, bc))
    return bad


# ----------------------------------------------------------------------------------------
# point-spread functions as documented: a Gaussian / Moffat / out-of-focus (disc) blur function
# sampled at the integer offsets  x_k = k - size//2  (so that the peak sits at the convolution
# centre size//2) and normalised to unit sum.
# ----------------------------------------------------------------------------------------
PSF_NAMES = ["gauss", "moffat", "defocus", "custom"]


def _offsets(size):
    return np.arange(size, dtype=float) - (size // 2)


def psf_1d(name, size, param):
    x = _offsets(size)
    name = name.lower()
    if name == "gauss":
        w = np.exp(-0.5 * x ** 2 / param ** 2)
    elif name == "moffat":
        w = 1.0 / (1.0 + x ** 2 / param ** 2)
    elif name == "defocus":
        w = (x ** 2 <= param ** 2).astype(float)
    else:
        raise ValueError(name)
    return w / w.sum()


def psf_2d(name, size, param):
    x = _offsets(size)
    X, Y = np.meshgrid(x, x)
    R2 = X ** 2 + Y ** 2
    name = name.lower()
    if name == "gauss":
        w = np.exp(-0.5 * R2 / param ** 2)
    elif name == "moffat":
        w = 1.0 / (1.0 + R2 / param ** 2)
    elif name == "defocus":
        w = (R2 <= param ** 2).astype(float)
    else:
        raise ValueError(name)
    return w / w.sum()


def shifted(P):
    """The same samples with the peak one pixel before the convolution centre (used only to *name* a
    mismatch in a failure signature, never to accept anything)."""
    P = np.asarray(P, float)
    if P.ndim == 1:
        return np.concatenate([P[1:], [0.0]])
    Q = np.zeros_like(P)
    Q[:-1, :-1] = P[1:, 1:]
    return Q


def defocus_1d_offcentre(size, param):
    x = _offsets(size) + 1.0
    w = (x ** 2 <= param ** 2).astype(float)
    return w / w.sum()


def defocus_2d_offcentre(size, param):
    x = _offsets(size) + 1.0
    X, Y = np.meshgrid(x, x)
    w = ((X ** 2 + Y ** 2) <= param ** 2).astype(float)
    return w / w.sum()


def identify_psf_1d(name, taps):
    """Documented PSFs (1-D) whose samples equal ``taps``: the *default* PSF_param is documented only as
    "depends on PSF", so a default-parameter operator is accepted iff its taps are a member of the documented
    family for SOME parameter.  Gauss / Moffat: the parameter is solved from the ratio of the two central taps,
    then the whole PSF is rebuilt from the formula; out-of-focus: radii on a half-integer lattice (both centre
    readings).  Returns the list of matching reference PSFs (empty = not in the family)."""
    taps = np.asarray(taps, float)
    s = taps.size
    c = s // 2
    name = name.lower()
    out = []
    if name in ("gauss", "moffat"):
        if c + 1 >= s or not (taps[c] > 0) or not (0 < taps[c + 1] / taps[c] < 1):
            return out
        r = taps[c + 1] / taps[c]
        par = math.sqrt(-0.5 / math.log(r)) if name == "gauss" else 1.0 / math.sqrt(1.0 / r - 1.0)
        cand = [psf_1d(name, s, par)]
    else:
        cand = []
        for j in range(1, 2 * s + 42):
            cand.append(psf_1d("defocus", s, 0.5 * j))
            cand.append(defocus_1d_offcentre(s, 0.5 * j))
    for P in cand:
        if P.shape == taps.shape and np.all(np.isfinite(P)) and float(np.max(np.abs(P - taps))) <= 1e-12:
            out.append(P)
    return out


def custom_psf_1d(size, k=0):
    """Deterministic asymmetric 1-D PSF (dyadic entries, some NEGATIVE weights, unit sum is *not* required for a custom PSF)."""
    base = [1, 5, 2, 7, 3, 1, 4, 2, 6, 1, 3, 5, 2, 4, 1, 7, 2, 3]
    w = np.array([base[(i * 3 + 2 * k) % len(base)] + 0.5 * i for i in range(size)], float)
    w[1::3] *= -0.5          # a ringing kernel: custom PSFs may have negative weights
    return w / 32.0


def custom_psf_2d(size, k=0):
    w = np.array([[((3 * i + 5 * j + i * j + 2 * k) % 7) + 0.5 * i + 0.25 * j + (1.0 if (i, j) == (0, 1) else 0.0)
                   for j in range(size)] for i in range(size)], float)
    w[::2, 1::2] *= -0.5     # negative weights as well
    return w / 64.0


def is_symmetric_psf(P):
    """Symmetric about the convolution centre size//2 (only possible for odd sizes)."""
    P = np.asarray(P, float)
    if any(s % 2 == 0 for s in P.shape):
        return False
    Q = P[::-1] if P.ndim == 1 else P[::-1, ::-1]
    return bool(np.allclose(P, Q, atol=1e-14))


# ----------------------------------------------------------------------------------------
# legacy periodic (circulant) deconvolution:  A[i,j] = h[(i-j) mod n]
# ----------------------------------------------------------------------------------------
def circulant(h):
    h = np.asarray(h, float)
    n = h.size
    A = np.zeros((n, n))
    for i in range(n):
        for j in range(n):
            A[i, j] = h[(i - j) % n]
    return A


def legacy_kernel(name, n, param=None):
    """Periodic kernel of the legacy form, sampled at the wrapped distances d_i = min(i, n-i)/n."""
    d = np.array([min(i, n - i) for i in range(n)], float) / n
    name = name.lower()
    if name == "gauss":
        a = 10 if param is None else param
        return np.exp(-(a * d) ** 2)
    if name in ("sinc", "prolate"):
        a = 15 if param is None else param
        return np.sinc(a * d)
    if name == "vonmises":
        a = 5 if param is None else param
        return (np.exp(np.cos(2 * np.pi * d)) / math.e) ** a
    raise ValueError(name)


# ----------------------------------------------------------------------------------------
# Abel: midpoint quadrature of  g(s) = int_0^s f(t) / sqrt(s - t) dt  on N cells of width h,
# t_j = (j + 1/2) h, s_i = (i + 1) h
# ----------------------------------------------------------------------------------------
def abel_matrix(N, endpoint=1.0):
    h = endpoint / N
    A = np.zeros((N, N))
    for i in range(N):
        for j in range(N):
            t = (j + 0.5) * h
            s = (i + 1.0) * h
            if t < s:
                A[i, j] = h / math.sqrt(s - t)
    return A


# ----------------------------------------------------------------------------------------
# field parameterisations (documented formulas)
# ----------------------------------------------------------------------------------------
def kl_matrix(N, num_modes=None, decay_rate=2.5, normalizer=12.0):
    """f_K = sum_{i<N-1} p_i sin(pi/N (i+1)(K+1/2)) / ((i+1)^g tau) + (-1)^K/2 p_{N-1} / (N^g tau)."""
    m = N if num_modes is None or num_modes > N else num_modes
    B = np.zeros((N, m))
    for K in range(N):
        for i in range(m):
            c = 1.0 / ((i + 1.0) ** decay_rate * normalizer)
            if i < N - 1:
                B[K, i] = c * math.sin(math.pi / N * (i + 1) * (K + 0.5))
            else:
                B[K, i] = c * ((-1) ** K) / 2.0
    return B


def kl_full_matrix(N, std=1.0, cor_len=0.2, nu=3.0):
    """KLExpansion_Full as documented:
    f_K = std^2/pi [ sum_{i<N-1} c_i p_i sin(pi/N (i+1)(K+1/2)) + (-1)^K/2 c_{N-1} p_{N-1} ],
    c_i = tau^g / (tau + i^2)^g,  tau = 1/cor_len^2,  g = nu + 1."""
    tau = 1.0 / cor_len ** 2
    g = nu + 1.0
    B = np.zeros((N, N))
    for K in range(N):
        for i in range(N):
            c = tau ** g / (tau + i ** 2) ** g
            if i < N - 1:
                B[K, i] = c * math.sin(math.pi / N * (i + 1) * (K + 0.5))
            else:
                B[K, i] = c * ((-1) ** K) / 2.0
    return std ** 2 / math.pi * B


def step_matrix(grid, n_steps):
    """Step i covers (x0 + i L/n, x0 + (i+1) L/n] (first step includes x0); membership with a rounding guard."""
    grid = np.asarray(grid, float)
    N = grid.size
    L = grid[-1] - grid[0]
    B = np.zeros((N, n_steps))
    for K in range(N):
        t = (grid[K] - grid[0]) / L * n_steps      # position in units of steps
        tr = round(t)
        if abs(t - tr) < 1e-9:
            t = float(tr)
        i = 0 if t <= 0 else int(math.ceil(t)) - 1
        B[K, min(i, n_steps - 1)] = 1.0
    return B


# ----------------------------------------------------------------------------------------
# PDE test problems: reference solves (dense, textbook)
# ----------------------------------------------------------------------------------------
def poisson_solution(kappa, rhs, dx):
    """Solve  D^T diag(kappa) D u = rhs  with D the (N+1) x N zero-boundary first difference / dx."""
    kappa = np.asarray(kappa, float)
    N = kappa.size - 1
    D = np.zeros((N + 1, N))
    for r in range(N + 1):
        if r < N:
            D[r, r] += 1.0
        if r >= 1:
            D[r, r - 1] -= 1.0
    D /= dx
    return np.linalg.solve(D.T @ np.diag(kappa) @ D, np.asarray(rhs, float))


def poisson_node_readings(N, endpoint):
    """Reasonable readings of "the N interior nodes of the grid with end-point `endpoint`" (the docstring does not
    give them): uniform with mesh width endpoint/N or endpoint/(N+1), or N equispaced nodes from the first mesh
    width up to (excluding) the end-point."""
    L = float(endpoint)
    k = np.arange(1, N + 1, dtype=float)
    return [k * L / N, k * L / (N + 1), L / N + (k - 1) * (L - L / N) / N]


def heat_final(u0, dx, time_steps, method="forward_euler"):
    """Euler recurrence for u_t = u_xx with zero Dirichlet values outside the N interior nodes."""
    u = np.array(u0, float)
    N = u.size
    L = np.zeros((N, N))
    for i in range(N):
        L[i, i] = -2.0
        if i > 0:
            L[i, i - 1] = 1.0
        if i < N - 1:
            L[i, i + 1] = 1.0
    L /= dx ** 2
    for k in range(len(time_steps) - 1):
        dt = time_steps[k + 1] - time_steps[k]
        if method == "forward_euler":
            u = u + dt * (L @ u)
        else:
            u = np.linalg.solve(np.eye(N) - dt * L, u)
    return u


def observe_refs(grid_sol, u, points, tol=1e-12):
    """Admissible values of "the solution u (given on the increasing nodes grid_sol) observed at ``points``", IN THE
    ORDER of ``points`` (any order, repetitions allowed, all inside [grid_sol[0], grid_sol[-1]]).

    * every point is a solution node (|distance| <= tol): the node values, picked by explicit index search - the only
      admissible answer (every interpolant reproduces the nodal values);
    * otherwise the interpolation rule is not documented ("the grid on which the observed solution should be
      interpolated"): the accepted family is the piecewise-linear interpolant (own index arithmetic), the quadratic and
      the cubic (not-a-knot) interpolating spline and the natural cubic spline through ALL nodes (scipy.interpolate is
      the trusted base for these three), each evaluated point by point.
    Returns a list of arrays of len(points)."""
    gs = np.asarray(grid_sol, float).ravel()
    u = np.asarray(u, float).ravel()
    pts = np.asarray(points, float).ravel()
    if gs.size != u.size or gs.size < 2 or not np.all(np.diff(gs) > 0):
        raise ValueError("observe_refs: needs increasing nodes and one value per node")
    if pts.size and (pts.min() < gs[0] - tol or pts.max() > gs[-1] + tol):
        raise ValueError("observe_refs: point outside the hull of the nodes (extrapolation is not covered)")
    idx = [int(np.argmin(np.abs(gs - p))) for p in pts]
    if all(abs(gs[j] - p) <= tol for j, p in zip(idx, pts)):
        return [np.array([u[j] for j in idx], float)]
    lin = np.empty(pts.size)
    for i, p in enumerate(pts):
        j = min(max(int(np.searchsorted(gs, p, side="right")) - 1, 0), gs.size - 2)
        w = (p - gs[j]) / (gs[j + 1] - gs[j])
        lin[i] = (1.0 - w) * u[j] + w * u[j + 1]
    out = [lin]
    from scipy.interpolate import make_interp_spline, CubicSpline
    for k in (2, 3):
        if gs.size > k:
            s = make_interp_spline(gs, u, k=k)
            out.append(np.array([float(s(p)) for p in pts]))
    if gs.size > 2:
        s = CubicSpline(gs, u, bc_type="natural")
        out.append(np.array([float(s(p)) for p in pts]))
    return out


def wang_cubic(x):
    return 10 * x[1] - 10 * x[0] ** 3 + 5 * x[0] ** 2 + 6 * x[0]


# ----------------------------------------------------------------------------------------
# user-supplied priors of the test problems (C17 "user prior" facet): parameter catalogue and dense
# reference log-densities written from the class docstrings (Gaussian N(mean, diag(var)); GMRF of
# order 1 with zero boundary = N(mean, (prec * P)^-1), P the documented tridiagonal (2, -1) matrix, in 2-D
# the sum of the horizontal and the vertical one; LMRF / CMRF = i.i.d. Laplace(0, b) / Cauchy(0, g) on
# the differences x_i - x_{i-1} of x - location with zero boundary (x_{-1} = x_N = 0), in 2-D in both
# directions; Laplace(location, b) i.i.d.; Uniform on a box)
# ----------------------------------------------------------------------------------------
PRIOR_FAMILIES = ["gaussian", "gmrf", "lmrf", "cmrf", "laplace", "uniform"]


def user_prior_params(kind, n, k=0):
    """Deterministic parameters of the user prior of family ``kind`` in dimension n (catalogue k)."""
    base = [3, -5, 7, 2, -9, 11, -4, 6, -13, 8, 5, -7, 10, -3, 12, -6, 9, -11, 4, 13, -2, 14, -8, 15]
    vec = np.array([0.0625 * base[(i + 5 * k) % len(base)] for i in range(n)])
    if kind == "gaussian":          # non-zero mean, non-constant variances
        return {"mean": vec, "cov": 0.5 + 0.125 * (np.arange(n) % 5)}
    if kind == "gmrf":
        return {"mean": vec, "prec": [2.0, 3.0, 1.5][k]}
    if kind in ("lmrf", "cmrf"):
        return {"location": [0.25, -0.5, 0.125][k], "scale": [0.5, 0.75, 0.375][k]}
    if kind == "laplace":
        return {"location": vec, "scale": [0.5, 0.75, 0.375][k]}
    if kind == "uniform":
        return {"low": vec - 4.0, "high": vec + 4.0 + 0.25 * (np.arange(n) % 3)}
    raise ValueError(kind)


def diff_zero_1d(N):
    """(N+1) x N first-order differences with zero boundary: rows x_0 - 0, x_i - x_{i-1}, 0 - x_{N-1}."""
    D = np.zeros((N + 1, N))
    for i in range(N):
        D[i, i] = 1.0
        D[i + 1, i] = -1.0
    return D


def diff_zero(shape):
    """Stacked difference operator for a 1-D signal (shape (N,)) or a row-major N x N image (both directions)."""
    if len(shape) == 1:
        return diff_zero_1d(shape[0])
    N = shape[0]
    if len(shape) != 2 or shape[1] != N:
        raise ValueError(shape)
    D, I = diff_zero_1d(N), np.eye(N)
    return np.vstack([np.kron(I, D), np.kron(D, I)])


def user_prior_logd(kind, params, x, shape):
    """Reference log-density of the user prior at x (dense, from the documented density)."""
    x = np.asarray(x, float).ravel()
    n = x.size
    if kind == "gaussian":
        var = np.broadcast_to(np.asarray(params["cov"], float), (n,))
        r = x - params["mean"]
        return float(-0.5 * n * math.log(2 * math.pi) - 0.5 * np.sum(np.log(var)) - 0.5 * np.sum(r * r / var))
    if kind == "gmrf":
        D = diff_zero(shape)
        P = params["prec"] * (D.T @ D)
        r = x - params["mean"]
        sign, ld = np.linalg.slogdet(P)
        return float(-0.5 * n * math.log(2 * math.pi) + 0.5 * ld - 0.5 * r @ (P @ r))
    if kind == "lmrf":
        d = diff_zero(shape) @ (x - params["location"])
        b = params["scale"]
        return float(-d.size * math.log(2 * b) - np.sum(np.abs(d)) / b)
    if kind == "cmrf":
        d = diff_zero(shape) @ (x - params["location"])
        g = params["scale"]
        return float(np.sum(-math.log(math.pi) + math.log(g) - np.log(d * d + g * g)))
    if kind == "laplace":
        b = params["scale"]
        return float(-n * math.log(2 * b) - np.sum(np.abs(x - params["location"])) / b)
    if kind == "uniform":
        lo, hi = np.asarray(params["low"], float), np.asarray(params["high"], float)
        if np.any(x < lo) or np.any(x > hi):
            return -math.inf
        return float(-np.sum(np.log(hi - lo)))
    raise ValueError(kind)
