"""C06 - linear RTO / UGLA draws are exact Gaussian draws.

E2 environment explorer.  One step of the real sampler is executed with the N(0,I) perturbation answered
by 0 and by every basis vector of the stacked right-hand side (complete basis: the step is affine in the
perturbation when the inner solver converges) plus one linearity probe.  The identified offset and linear
part are compared with the closed-form posterior mean and covariance computed densely by the harness from
the matrices that defined the problem; two different current states must give the same map.
"""
import numpy as np
import scipy.linalg as sla
from vfw.core import CellResult, close
from vfw import refs
from vfw.stream import Stream, affine_probe

PROPERTY = "C06"
RULE = ("cells = interface x sampler x size x #likelihoods (1-4, equal and unequal numbers of observations) x model backing x "
        "likelihood Gaussian form; inside a cell every prior form (16 Gaussian input forms x 3 mean kinds, 1-D GMRF orders 0-2) is "
        "crossed with two or three current states and the complete perturbation basis; GMRF-pair cells = interface x N x order x "
        "construction order x #likelihoods x backing x likelihood form: a zero-boundary GMRF on a 1-D grid of N*N nodes and one on an "
        "N x N image are built in ONE process (either one first; decoy fields of the same dimension with another boundary condition / "
        "another order and a 1-D field of N nodes are built in between) and BOTH are then probed with the complete perturbation basis "
        "from two current states; non-trivial = sampler accepted the posterior and the linear part is non-zero")
BOUND = {"quick": "sizes (m,n) in {(3,3),(2,3)} + (3,76) above the sparse-storage switch + (30,40) with a GMRF prior (many inner iterations); 1-2 likelihoods "
                  "(all 16 noise forms) and 3-4 likelihoods (size (2,3), dense noise forms + scalar covariance, reduced prior-form subset incl. GMRF) "
                  "of equal and of different sizes; current states: origin, near, far (2^22 x catalogue vector); matrix- and function-backed models; both interfaces + "
                  "5-tuple form; GMRF pairs (1-D N*N nodes / N x N image, zero boundary, orders 0-2, both construction orders): N=2 with 1 and 3 "
                  "likelihoods x 2 backings x 2 noise forms, N=3 with 1 likelihood; UGLA: 2 sizes x location {0, scalar, vector} x scale {1, 0.25}",
         "thorough": "sizes {(2,3),(3,3),(4,2)}; 1-4 likelihoods (equal and different sizes, all noise forms, all prior forms); GMRF pairs N=2 with 1-4 and N=3 "
                     "with 1 and 3 likelihoods x 8 noise forms; all catalogues of the seed; UGLA with 3 beta values"}
ASSUMPTIONS = [
    "inner solver run to convergence (maxit=400, tol=1e-13) - results compared at 1e-7; draws from the far current state "
    "(norm R ~ 1e7..1e8) are compared with those from the origin at 1e3*tol*R (the stopping rule is relative to the initial residual)",
    "matrix square roots are passed as symmetric roots, for which the R R^T / R^T R conventions coincide "
    "(the convention question is decided in C04/C05)",
    "GMRF reference precision: prec * D^T D with the 1-D difference matrix of the order (identity for order 0), on an N x N image "
    "prec * (D1^T D1 + D2^T D2) with D1 = I (x) D, D2 = D (x) I (vfw.refs.fd_ref; the operators themselves are decided in C20); on an image "
    "geometry the library hands the model an N x N array, so the 2-D member of a pair always uses a function-backed model acting on "
    "the flattened image (a matrix-backed model on an image geometry is refused by the library's model layer - not C06's subject); "
    "only zero-boundary fields are probed (the library documents RTO with periodic/Neumann fields as inexact), the others serve as decoys",
    "GMRF-pair cells report ONE signature per interface and order whichever member is inexact: with process-wide state in the "
    "library the member that goes wrong may depend on what the worker process built before, the verdict of the cell does not",
    "UGLA: the documentation does not say whether the weights are evaluated at D x_k or D (x_k - location); either "
    "reading is accepted but mean and covariance must be those of ONE Gaussian",
]

PARAMS = ("cov", "prec", "sqrtcov", "sqrtprec")
KINDS = ("scalar", "vector", "diag", "dense")
MAXIT, TOL = 400, 1e-13


def base_cov(kind, dim, k, salt=0):
    if kind == "scalar":
        return (0.5 + 0.25 * k + 0.125 * salt) * np.eye(dim)
    if kind in ("vector", "diag"):
        return np.diag(0.5 + 0.25 * ((np.arange(dim) + k + salt) % 4))
    return refs.spd_matrix(dim, k + salt)


def form_value(param, kind, C):
    """The value passed to the Gaussian for covariance matrix C in the given input form."""
    dim = C.shape[0]
    if param == "cov":
        M = C
    elif param == "prec":
        M = np.linalg.inv(C)
    elif param == "sqrtcov":
        M = np.real(sla.sqrtm(C))
    else:
        M = np.real(sla.sqrtm(np.linalg.inv(C)))
    M = (M + M.T) / 2
    if kind == "scalar":
        return float(M[0, 0])
    if kind == "vector":
        return np.diag(M).copy()
    return M


def cells(tier, seed):
    k = refs.cat(seed)
    sizes = [(3, 3), (2, 3)] if tier == "quick" else [(2, 3), (3, 3), (4, 2)]
    nliks = (1, 2, 3, 4)
    for iface in ("exp", "legacy"):
        for (m, n) in sizes:
            for nl in nliks:
                for backing in ("matrix", "function"):
                    for p in PARAMS:
                        for kd in KINDS:
                            if tier == "quick" and nl > 2 and not ((m, n) == (2, 3) and (kd == "dense" or (p, kd) == ("cov", "scalar"))):
                                # quick: three and four likelihoods on the smallest size, dense form of every
                                # parameterisation + the scalar covariance (reduced prior-form subset inside the cell)
                                continue
                            yield {"sampler": "RTO", "iface": iface, "m": m, "n": n, "nlik": nl, "backing": backing,
                                   "lik": [p, kd], "cat": k, "tier": tier}
                            if nl > 1 and (tier != "quick" or kd in ("dense", "scalar")):
                                # several likelihoods with DIFFERENT numbers of observations (m, m+1, m-1 ...)
                                yield {"sampler": "RTO", "iface": iface, "m": m, "n": n, "nlik": nl, "backing": backing,
                                       "lik": [p, kd], "cat": k, "tier": tier, "msizes": [max(1, m + d) for d in (0, 1, -1, 2)][:nl]}
        # one size above the sparse-storage switch of the Gaussian (dim > 75): dense/vector forms of every parameterisation
        for p in PARAMS:
            for kd in (("dense",) if tier == "quick" else ("dense", "vector", "scalar")):
                yield {"sampler": "RTO", "iface": iface, "m": 3, "n": 76, "nlik": 1, "backing": "matrix",
                       "lik": ["cov", "scalar"], "prior_only": [p, kd], "cat": k, "tier": tier}
        # a size at which the inner CG needs many iterations (GMRF prior, 30 observations of 40 unknowns): the current
        # state (origin / far away) must still not matter
        for order in ((1,) if tier == "quick" else (1, 2)):
            yield {"sampler": "RTO", "iface": iface, "m": 30, "n": 40, "nlik": 1, "backing": "matrix",
                   "lik": ["cov", "scalar"], "prior_only": ["gmrf", order], "cat": k, "tier": tier}
        # GMRF priors on 1-D and on 2-D (N x N image) grids that CO-EXIST in one process: both layouts of the same total
        # dimension are built (in either order, with decoys of other boundary condition / order / node count in between)
        # and both must give exact draws
        for N in (2, 3):
            for order in (0, 1, 2):
                for first in ("1d", "2d"):
                    for nl in ((1, 3) if tier == "quick" else (1, 2, 3, 4)):
                        for backing in ("matrix", "function"):
                            for lik in ((("cov", "scalar"), ("prec", "dense")) if tier == "quick" else [(p, kd) for p in PARAMS for kd in ("scalar", "dense")]):
                                if N == 3 and (nl > 1 or lik[1] == "dense" if tier == "quick" else nl in (2, 4)):
                                    continue      # 3 x 3 image: quick = one likelihood with scalar noise; thorough = 1 and 3 likelihoods
                                yield {"sampler": "RTO", "pair": True, "iface": iface, "N": N, "order": order, "first": first, "m": 3,
                                       "nlik": nl, "backing": backing, "lik": list(lik), "cat": k, "tier": tier,
                                       "msizes": [3, 4, 2, 1][:nl]}
        for (m, n) in sizes:
            for p in PARAMS:
                yield {"sampler": "RTO5", "iface": "legacy" if iface == "legacy" else "exp", "m": m, "n": n,
                       "lik": [p, "dense"], "cat": k, "tier": tier}
            for loc in ("zero", "scalar", "vector"):
                for b in (1.0, 0.25):
                    for beta in ((1e-2,) if tier == "quick" else (1e-2, 1e-5, 0.5)):
                        for p in (("cov", "scalar"), ("prec", "dense")) if tier == "quick" else [(p, kd) for p in PARAMS for kd in ("scalar", "dense")]:
                            yield {"sampler": "UGLA", "iface": iface, "m": m, "n": n, "loc": loc, "b": b, "beta": beta,
                                   "lik": list(p), "cat": k, "tier": tier}


# ----------------------------------------------------------------------------------------
def make_model(A, backing):
    import cuqi
    if backing == "matrix":
        return cuqi.model.LinearModel(A)
    return cuqi.model.LinearModel(lambda x: A @ x, lambda y: A.T @ y, range_geometry=A.shape[0], domain_geometry=A.shape[1])


def one_step(iface, cls_name, target, x0, e, **kw):
    """One transition of the real sampler from x0 with the normal request answered by e."""
    import cuqi
    st = Stream(normal=[e])
    if iface == "exp":
        cls = getattr(cuqi.experimental.mcmc, cls_name)
        s = cls(target, initial_point=np.array(x0, float), maxit=MAXIT, tol=TOL, **kw)
        s.initialize()
        with st.installed():
            s.step()
        return np.array(s.current_point, float), s
    cls = getattr(cuqi.sampler, cls_name)
    s = cls(target, x0=np.array(x0, float), maxit=MAXIT, tol=TOL, **kw)
    with st.installed():
        r = s.sample(2)
    return np.array(r.samples[:, 1], float), s


def two_steps(iface, cls_name, target, x0, e1, e2, **kw):
    """Two consecutive transitions of ONE sampler object (non-initial state): returns (x1, x2)."""
    import cuqi
    st = Stream(normal=[e1, e2])
    if iface == "exp":
        s = getattr(cuqi.experimental.mcmc, cls_name)(target, initial_point=np.array(x0, float), maxit=MAXIT, tol=TOL, **kw)
        s.initialize()
        with st.installed():
            s.step()
            x1 = np.array(s.current_point, float)
            s.step()
        return x1, np.array(s.current_point, float)
    s = getattr(cuqi.sampler, cls_name)(target, x0=np.array(x0, float), maxit=MAXIT, tol=TOL, **kw)
    with st.installed():
        r = s.sample(3)
    return np.array(r.samples[:, 1], float), np.array(r.samples[:, 2], float)


def noise_dim(iface, cls_name, target, n, **kw):
    """Size of the standard-normal request of one step (read from a dry run with a recording stream)."""
    import cuqi
    sizes = []

    def ans(nn, i):
        sizes.append(nn)
        return np.zeros(nn)
    st = Stream(normal=ans)
    if iface == "exp":
        s = getattr(cuqi.experimental.mcmc, cls_name)(target, initial_point=np.zeros(n), maxit=MAXIT, tol=TOL, **kw)
        s.initialize()
        with st.installed():
            s.step()
    else:
        s = getattr(cuqi.sampler, cls_name)(target, x0=np.zeros(n), maxit=MAXIT, tol=TOL, **kw)
        with st.installed():
            s.sample(2)
    return sizes[0], s


def eval_cell(cell):
    if cell["sampler"] == "UGLA":
        return eval_ugla(cell)
    if cell.get("pair"):
        return eval_gmrf_pair(cell)
    return eval_rto(cell)


def make_model_on(A, backing, layout, N):
    """Linear model of matrix A on a 1-D domain of A.shape[1] nodes or on an N x N image (the library hands an image-shaped
    array to a model on an image geometry, so the 2-D model is the function-backed one acting on the flattened image)."""
    import cuqi
    if layout == "1d":
        return make_model(A, backing)
    geom = cuqi.geometry.Image2D((N, N))
    return cuqi.model.LinearModel(lambda X: A @ np.asarray(X).ravel(), lambda y: (A.T @ y).reshape(N, N),
                                  range_geometry=A.shape[0], domain_geometry=geom)


def eval_gmrf_pair(cell):
    """Two GMRF priors of the same total dimension N*N - one on a 1-D grid of N*N nodes, one on an N x N image - are built in
    ONE process in the order given by the cell, with decoy fields (other boundary condition, other order, 1-D with N nodes)
    built in between; afterwards BOTH must give exact draws for their own posterior (reference precision: prec * D^T D with the
    1-D difference matrix, resp. prec * (D1^T D1 + D2^T D2) with the Kronecker-stacked operators)."""
    import cuqi
    res = CellResult(cell)
    k, N, order, iface, m = cell["cat"], cell["N"], cell["order"], cell["iface"], cell["m"]
    nl, backing = cell["nlik"], cell["backing"]
    lp, lk = cell["lik"]
    n = N * N
    comp = "%s.LinearRTO" % iface
    ms = cell["msizes"]
    As = [refs.full_matrix(ms[i], n, k + 3 * i) for i in range(nl)]
    ds = [refs.dyadic_vec(ms[i], k + i, scale=0.25) for i in range(nl)]
    Cls = [base_cov(lk, ms[i], k, salt=i) for i in range(nl)]
    precs = {"1d": [2.0, 0.5, 3.0][k], "2d": [0.75, 1.5, 0.25][k]}
    means = {"1d": refs.dyadic_vec(n, k + 1, scale=0.25), "2d": refs.dyadic_vec(n, k + 2, scale=0.125)}
    Dref = {"1d": refs.fd_ref(n, "zero", order, 1), "2d": refs.fd_ref(N, "zero", order, 2)}

    def geom(layout, nodes=None):
        return (nodes or n) if layout == "1d" else cuqi.geometry.Image2D((N, N))

    def build(layout):
        return cuqi.distribution.GMRF(means[layout], precs[layout], bc_type="zero", order=order, geometry=geom(layout), name="x")

    second = "2d" if cell["first"] == "1d" else "1d"
    priors = {}
    try:
        priors[cell["first"]] = build(cell["first"])
        # decoys (never used afterwards): same dimension with another boundary condition / another order in both layouts, and
        # the 1-D field with N nodes; a decoy the library refuses to build is simply absent
        for lay, bc, od, nodes in [(second, "neumann", order, None), (second, "periodic", order, None),
                                   ("1d", "zero", (order + 1) % 3, None), ("2d", "zero", (order + 1) % 3, None),
                                   ("1d", "zero", order, N)]:
            try:
                cuqi.distribution.GMRF(np.zeros(nodes or n), 1.25, bc_type=bc, order=od, geometry=geom(lay, nodes))
                res.count("decoy-built")
            except Exception as e:
                res.outcomes.add("decoy-refused:%s,%s,%d:%s" % (lay, bc, od, type(e).__name__))
        priors[second] = build(second)
    except Exception as e:
        res.refused += 1
        res.outcomes.add("refused:%s" % type(e).__name__)
        res.nontrivial = False
        return res
    nontriv = False
    bad = []
    for layout in (cell["first"], second):
        x = priors[layout]
        try:
            ys = [cuqi.distribution.Gaussian(make_model_on(As[i], backing, layout, N)(x), name="y%d" % i, **{lp: form_value(lp, lk, Cls[i])})
                  for i in range(nl)]
            target = cuqi.distribution.JointDistribution(x, *ys)(**{"y%d" % i: ds[i] for i in range(nl)})
            nd, s0 = noise_dim(iface, "LinearRTO", target, n)
        except Exception as e:
            res.refused += 1
            res.outcomes.add("refused:%s:%s" % (layout, type(e).__name__))
            continue
        res.state("gmrf-%s,order=%d,built-%s" % (layout, order, "first" if layout == cell["first"] else "second"))
        P0 = precs[layout] * Dref[layout].T @ Dref[layout]
        H = P0.copy()
        rhs = P0 @ means[layout]
        for i in range(nl):
            Li = np.linalg.inv(Cls[i])
            H = H + As[i].T @ Li @ As[i]
            rhs = rhs + As[i].T @ Li @ ds[i]
        cov_ref = np.linalg.inv(H)
        mean_ref = cov_ref @ rhs
        x0s = [np.zeros(n), refs.dyadic_vec(n, k + 5, scale=0.5) * 2.0 ** 22]
        maps = []
        try:
            for x0 in x0s:
                maps.append(affine_probe(lambda e: one_step(iface, "LinearRTO", target, x0, e)[0], nd))
                res.transitions += nd + 2
        except Exception as e:
            res.fail("C06|%s|step-raises|prior=GMRF-%s" % (comp, layout), "step raised %r on an accepted posterior" % (e,), focus={"layout": layout})
            continue
        res.traces += 1
        res.evaluations += 1
        z0, T, aff = maps[0]
        nontriv = nontriv or np.abs(T).max() > 0
        z0b, Tb, affb = maps[1]
        tol_st = max(1e-7, 1e3 * TOL * float(np.linalg.norm(x0s[1])))
        why = None
        if not aff:
            why = "the draw is not an affine function of the perturbation"
        elif not close(z0, mean_ref, 1e-7):
            why = "offset of the draw %s != posterior mean %s" % (z0, mean_ref)
        elif not close(T @ T.T, cov_ref, 1e-7):
            why = "linear part does not reproduce the posterior covariance"
        elif not (close(z0b, z0, tol_st, atol=tol_st) and close(Tb, T, tol_st, atol=tol_st)):
            why = "draw depends on the current state"
        # stacked operator: adjoint is the exact transpose of the forward action (reported on its own: an operator whose two
        # actions disagree cannot give exact draws, the consequences are not reported a second time)
        adj_ok = True
        try:
            M = s0.M
            if callable(M):
                F = np.array([np.asarray(M(np.eye(n)[:, i], 1)).ravel() for i in range(n)]).T
                G = np.array([np.asarray(M(np.eye(nd)[:, j], 2)).ravel() for j in range(nd)]).T
            else:
                Md = np.asarray(M.todense()) if hasattr(M, "todense") else np.asarray(M)
                F, G = Md, Md.T
            res.transitions += n + nd
            if not close(F, G.T, 1e-10):
                adj_ok = False
                res.fail("C06|%s|stacked-adjoint|backing=%s" % (comp, backing if layout == "1d" else "function"), "stacked operator's adjoint is not the transpose of its forward action",
                         focus={"layout": layout})
        except AttributeError:
            pass
        res.outcomes.add("gmrf-%s,order=%d:%.4g:%s" % (layout, order, float(z0[0]), why is None))
        if why is not None and adj_ok:
            bad.append((layout, why))
        if res.sample is None:
            res.sample = {"layout": layout, "order": order, "offset": z0, "posterior_mean": mean_ref, "TTt": T @ T.T, "posterior_cov": cov_ref}
    if bad:
        # ONE signature whichever member of the pair is wrong (which one it is may depend on what was built earlier in the process)
        res.fail("C06|%s|gmrf-1d-2d-pair|order=%d" % (comp, order),
                 "of two zero-boundary GMRF priors with %d unknowns built in one process (1-D grid of %d nodes and %d x %d image; %s first), "
                 "LinearRTO does not give exact draws for: %s" % (n, n, N, N, cell["first"], "; ".join("%s (%s)" % b for b in bad)),
                 focus={"not-exact": [b[0] for b in bad], "built-first": cell["first"]})
    res.nontrivial = nontriv
    return res


def eval_rto(cell):
    import cuqi
    res = CellResult(cell)
    k, m, n, iface = cell["cat"], cell["m"], cell["n"], cell["iface"]
    nl = cell.get("nlik", 1)
    backing = cell.get("backing", "matrix")
    lp, lk = cell["lik"]
    comp = "%s.LinearRTO" % iface
    ms = cell.get("msizes", [m] * nl)
    As = [refs.full_matrix(ms[i], n, k + 3 * i) for i in range(nl)]
    ds = [refs.dyadic_vec(ms[i], k + i, scale=0.25) for i in range(nl)]
    Cls = [base_cov(lk, ms[i], k, salt=i) for i in range(nl)]
    prior_forms = []
    for p in PARAMS:
        for kd in KINDS:
            for mk in ("zero", "scalar", "vector"):
                prior_forms.append(("gauss", p, kd, mk))
    for order in (0, 1, 2):
        prior_forms.append(("gmrf", order, None, "vector"))
    if cell["sampler"] == "RTO5":
        prior_forms = [("tuple", "sqrtprec", "dense", mk) for mk in ("zero", "vector")]
    if "prior_only" in cell:
        prior_forms = [("gauss", cell["prior_only"][0], cell["prior_only"][1], "vector")]
        if cell["prior_only"][0] == "gmrf":
            prior_forms = [("gmrf", cell["prior_only"][1], None, "vector")]
    if cell["tier"] == "quick" and cell["sampler"] == "RTO" and (nl > 1 or backing == "function"):
        # keep the quick product small: the full 48 prior forms are crossed with (1 likelihood, matrix);
        # other cells use one representative per parameterisation + GMRF
        prior_forms = [f for f in prior_forms if f[0] == "gmrf" or (f[2] == "dense" and f[3] == "vector") or (f[1] == "cov" and f[3] == "scalar")]
    nontriv = False
    for pf in prior_forms:
        kind = pf[0]
        mk = pf[3]
        m0 = {"zero": np.zeros(n), "scalar": 0.75 * np.ones(n), "vector": refs.dyadic_vec(n, k + 1, scale=0.25)}[mk]
        try:
            if kind == "gmrf":
                if n < 2:
                    continue
                prec = [2.0, 0.5, 3.0][k]
                x = cuqi.distribution.GMRF(m0, prec, bc_type="zero", order=pf[1], geometry=n, name="x")
                D = refs.fd_ref(n, "zero", pf[1])
                P0 = prec * D.T @ D
                facet = "prior=GMRF"
            else:
                C0 = base_cov(pf[2], n, k, salt=2)
                P0 = np.linalg.inv(C0)
                mean_arg = {"zero": np.zeros(n), "scalar": 0.75, "vector": m0}[mk]
                if kind == "gauss":
                    x = cuqi.distribution.Gaussian(mean_arg, name="x", geometry=n, **{pf[1]: form_value(pf[1], pf[2], C0)})
                facet = "prior=%s" % pf[1]
            if kind == "tuple":
                model = make_model(As[0], "matrix")
                Lsp = form_value("sqrtprec", "dense", Cls[0])
                Psp = form_value("sqrtprec", "dense", C0)
                target = (ds[0], model if k % 2 else As[0], Lsp, m0, Psp)
                facet = "input=5-tuple"
            else:
                ys = []
                for i in range(nl):
                    model = make_model(As[i], backing)
                    ys.append(cuqi.distribution.Gaussian(model(x), name="y%d" % i, **{lp: form_value(lp, lk, Cls[i])}))
                joint = cuqi.distribution.JointDistribution(x, *ys)
                target = joint(**{"y%d" % i: ds[i] for i in range(nl)})
            nd, s0 = noise_dim(iface if kind != "tuple" else "legacy", "LinearRTO", target, n)
        except Exception as e:
            res.refused += 1
            res.outcomes.add("refused:%s" % type(e).__name__)
            continue
        use_iface = iface if kind != "tuple" else "legacy"
        if kind == "tuple" and iface == "exp":
            continue   # the stateful interface does not offer the 5-tuple form
        res.state("%s" % (pf,))
        H = P0.copy()
        rhs = P0 @ m0
        for i in range(nl if kind != "tuple" else 1):
            Li = np.linalg.inv(Cls[i])
            H = H + As[i].T @ Li @ As[i]
            rhs = rhs + As[i].T @ Li @ ds[i]
        cov_ref = np.linalg.inv(H)
        mean_ref = cov_ref @ rhs
        maps = []
        ok_run = True
        # current states: the origin, a nearby state and (cheap sizes and the large size) a state FAR from the posterior
        # (2^22 times the catalogue vector: a warm start whose norm dwarfs that of the draw)
        x0s = [np.zeros(n), refs.dyadic_vec(n, k + 4, scale=0.5)] if n <= 10 else [np.zeros(n)]
        if n > 10 or pf[2] == "dense" or kind == "gmrf":
            x0s.append(refs.dyadic_vec(n, k + 5, scale=0.5) * 2.0 ** 22)
        for x0 in x0s:
            try:
                z0, T, aff = affine_probe(lambda e: one_step(use_iface, "LinearRTO", target, x0, e)[0], nd)
            except Exception as e:
                res.fail("C06|%s|step-raises|%s" % (comp, facet), "step raised %r on an accepted posterior" % (e,), focus={"prior": pf})
                ok_run = False
                break
            res.transitions += nd + 2
            maps.append((z0, T, aff))
        if not ok_run:
            continue
        res.traces += 1
        res.evaluations += 1
        z0, T, aff = maps[0]
        nontriv = nontriv or np.abs(T).max() > 0
        focus = {"prior": pf, "lik": cell["lik"]}
        if not aff:
            res.fail("C06|%s|not-affine|%s" % (comp, facet), "draw is not an affine function of the perturbation", focus=focus)
            continue
        if not close(z0, mean_ref, 1e-7):
            res.fail("C06|%s|mean|%s,lik=%s" % (comp, facet, lp), "offset of the draw %s != posterior mean %s" % (z0, mean_ref), focus=focus)
        if not close(T @ T.T, cov_ref, 1e-7):
            res.fail("C06|%s|covariance|%s,lik=%s" % (comp, facet, lp), "linear part does not reproduce the posterior covariance", focus=focus,
                     impl=T @ T.T, ref=cov_ref)
        for i_st, (z0b, Tb, _) in enumerate(maps[1:]):
            # the solver's stopping rule is relative to the initial normal residual: from a state of norm R the absolute
            # accuracy of a converged solve is ~ tol * R * cond, so draws from the far state are compared at 1e3 * tol * R
            tol_st = max(1e-7, 1e3 * TOL * float(np.linalg.norm(x0s[i_st + 1])))
            if not (close(z0b, z0, tol_st, atol=tol_st) and close(Tb, T, tol_st, atol=tol_st)):
                res.fail("C06|%s|depends-on-state|%s" % (comp, facet), "draw depends on the current state (offset %s from the origin, "
                         "%s from another state)" % (z0[:4], z0b[:4]), focus=focus)
                break
        # stacked operator: adjoint is the exact transpose of the forward action
        try:
            M = s0.M
            if callable(M):
                F = np.array([np.asarray(M(np.eye(n)[:, i], 1)).ravel() for i in range(n)]).T
                G = np.array([np.asarray(M(np.eye(nd)[:, j], 2)).ravel() for j in range(nd)]).T
            else:
                Md = np.asarray(M.todense()) if hasattr(M, "todense") else np.asarray(M)
                F, G = Md, Md.T
            res.transitions += n + nd
            if not close(F, G.T, 1e-10):
                res.fail("C06|%s|stacked-adjoint|backing=%s" % (comp, backing), "stacked operator's adjoint is not the transpose of its forward action", focus=focus)
        except AttributeError:
            pass
        res.outcomes.add("%s:%.4g" % (facet, float(z0[0])))
        if res.sample is None:
            res.sample = {"prior_form": pf, "offset": z0, "posterior_mean": mean_ref, "TTt": T @ T.T, "posterior_cov": cov_ref}
        # ---- non-initial state: the SAME prior object after its precision was re-assigned (its square-root precision was
        #      read by the run above); a new posterior built on it must again give exact draws for the new precision
        if kind == "gmrf" and cell["tier"] != "quick" or (kind == "gmrf" and pf[1] == 1):
            try:
                # posteriors built DIRECTLY on the prior object (conditioning a joint would hand a copy to the sampler)
                def direct_posterior():
                    yy = cuqi.distribution.Gaussian(make_model(As[0], backing)(x), name="y0", **{lp: form_value(lp, lk, Cls[0])})
                    return cuqi.distribution.Posterior(yy.to_likelihood(ds[0]), x)
                if nl != 1:
                    raise RuntimeError("single-likelihood cells only")
                one_step(use_iface, "LinearRTO", direct_posterior(), np.zeros(n), np.zeros(nd))   # first use of x
                prec2 = prec * 4.0
                x.prec = prec2
                target2 = direct_posterior()
                P2 = prec2 * D.T @ D
                H2 = P2.copy()
                rhs2 = P2 @ m0
                for i in range(nl):
                    Li = np.linalg.inv(Cls[i])
                    H2 = H2 + As[i].T @ Li @ As[i]
                    rhs2 = rhs2 + As[i].T @ Li @ ds[i]
                cov2 = np.linalg.inv(H2)
                z2, T2, aff2 = affine_probe(lambda e: one_step(use_iface, "LinearRTO", target2, np.zeros(n), e)[0], nd)
            except Exception as e:
                res.outcomes.add("reassigned-prior-refused:%s" % type(e).__name__)
            else:
                res.transitions += nd + 2
                res.traces += 1
                res.evaluations += 1
                res.state("reassigned-prior:%s" % (pf,))
                if not (aff2 and close(z2, cov2 @ rhs2, 1e-7) and close(T2 @ T2.T, cov2, 1e-7)):
                    res.fail("C06|%s|after-prior-reassignment|%s" % (comp, facet), "after the precision of the SAME GMRF prior object was "
                             "re-assigned, the RTO draw is not an exact draw for the new posterior (offset %s vs mean %s)"
                             % (z2, cov2 @ rhs2), focus={"prior": pf})
    res.nontrivial = nontriv
    return res


def eval_ugla(cell):
    import cuqi
    res = CellResult(cell)
    k, m, n, iface = cell["cat"], cell["m"], cell["n"], cell["iface"]
    lp, lk = cell["lik"]
    b, beta = cell["b"], cell["beta"]
    comp = "%s.UGLA" % iface
    A = refs.full_matrix(m, n, k)
    d = refs.dyadic_vec(m, k, scale=0.25)
    Cl = base_cov(lk, m, k)
    L = np.linalg.inv(Cl)
    loc = {"zero": np.zeros(n), "scalar": 0.5 * np.ones(n), "vector": refs.dyadic_vec(n, k + 1, scale=0.25)}[cell["loc"]]
    loc_arg = {"zero": 0, "scalar": 0.5, "vector": loc}[cell["loc"]]
    facet = "location=%s,scale%s1" % ("zero" if cell["loc"] == "zero" else "nonzero", "=" if b == 1.0 else "!=")
    try:
        x = cuqi.distribution.LMRF(loc_arg, b, bc_type="zero", geometry=n, name="x")
        y = cuqi.distribution.Gaussian(cuqi.model.LinearModel(A)(x), name="y", **{lp: form_value(lp, lk, Cl)})
        target = cuqi.distribution.JointDistribution(x, y)(y=d)
        nd, _ = noise_dim(iface, "UGLA", target, n, beta=beta)
    except Exception as e:
        res.refused += 1
        res.outcomes.add("refused:%s" % type(e).__name__)
        res.transitions += 1
        res.state("refused")
        res.nontrivial = False
        return res
    D = refs.fd_ref(n, "zero", 1)
    for x0 in (refs.dyadic_vec(n, k + 4, scale=0.5), np.zeros(n), 0.25 * np.ones(n)):
        z0, T, aff = affine_probe(lambda e: one_step(iface, "UGLA", target, x0, e, beta=beta)[0], nd)
        res.transitions += nd + 2
        res.traces += 1
        res.evaluations += 1
        res.state("x0=%s" % x0.tolist())
        focus = {"x0": x0}
        if not aff:
            res.fail("C06|%s|not-affine|%s" % (comp, facet), "draw is not affine in the perturbation", focus=focus)
            continue
        ok = False
        best = None
        for reading, z in (("D x_k", D @ x0), ("D (x_k - location)", D @ (x0 - loc))):
            W = np.diag(1.0 / np.sqrt(z ** 2 + beta))
            H = A.T @ L @ A + (1.0 / b) * D.T @ W @ D
            cov = np.linalg.inv(H)
            mu = cov @ (A.T @ L @ d + (1.0 / b) * D.T @ W @ D @ loc)
            okm, okc = close(z0, mu, 1e-6), close(T @ T.T, cov, 1e-6)
            if okm and okc:
                ok = True
            if best is None or (okc and not best[0]):
                best = (okc, okm, reading, mu, cov)
        res.outcomes.add("%s:%s" % (facet, ok))
        if not ok:
            okc, okm, reading, mu, cov = best
            what = "covariance" if not okc else "mean"
            res.fail("C06|%s|%s|%s" % (comp, what, facet),
                     "draw is not from the documented local Gaussian at x_k under either reading of the weights (%s of the "
                     "draw does not match; offset %s vs %s)" % (what, z0, mu), focus=focus)
        if res.sample is None:
            res.sample = {"x_k": x0, "offset": z0, "TTt": T @ T.T}
    # ---- histories on ONE live sampler object of the stateless interface (that is how the legacy Gibbs sampler drives its block
    #      samplers): constructed at state a, then moved to state b through step(b) / by re-assigning x0 / used for a second
    #      sample() call - the observed draw must be a draw from the local Gaussian at the state it starts from
    if iface == "legacy":
        a_state = refs.dyadic_vec(n, k + 4, scale=0.5)
        b_state = refs.dyadic_vec(n, k + 6, scale=0.25) + 0.125

        def live(hist, e):
            import cuqi as _c
            smp = _c.sampler.UGLA(target, x0=np.array(a_state), maxit=MAXIT, tol=TOL, beta=beta)
            if hist == "step(b)":
                st = Stream(normal=[e])
                with st.installed():
                    return np.array(smp.step(np.array(b_state)), float).ravel()
            if hist == "x0:=b":
                smp.x0 = np.array(b_state)
                st = Stream(normal=[e])
                with st.installed():
                    return np.array(smp.sample(2).samples[:, 1], float)
            st = Stream(normal=[np.zeros(nd), e])          # "second-call": sample(2) twice, observe the second call's draw
            with st.installed():
                smp.sample(2)
                return np.array(smp.sample(2).samples[:, 1], float)
        for hist, start in (("step(b)", b_state), ("x0:=b", b_state), ("second-call", a_state)):
            try:
                z0, T, aff = affine_probe(lambda e: live(hist, e), nd)
            except Exception as e:
                res.fail("C06|%s|live-object-raises|%s" % (comp, facet), "history %s raised %r" % (hist, e))
                continue
            res.transitions += nd + 2
            res.traces += 1
            res.evaluations += 1
            res.state("live:%s" % hist)
            ok = False
            for z in (D @ start, D @ (start - loc)):
                W = np.diag(1.0 / np.sqrt(z ** 2 + beta))
                H = A.T @ L @ A + (1.0 / b) * D.T @ W @ D
                cov = np.linalg.inv(H)
                mu = cov @ (A.T @ L @ d + (1.0 / b) * D.T @ W @ D @ loc)
                ok = ok or (aff and close(z0, mu, 1e-6) and close(T @ T.T, cov, 1e-6))
            res.outcomes.add("live:%s:%s" % (hist, ok))
            if not ok:
                res.fail("C06|%s|live-object|%s" % (comp, facet), "on a sampler object constructed at another state, the draw after the history "
                         "'%s' is not a draw from the documented local Gaussian at the state it starts from (offset %s)" % (hist, z0),
                         focus={"history": hist, "constructed_at": a_state, "starts_from": start})
                break
    # ---- the SECOND transition of one sampler object is a draw from the local Gaussian at the state after the first
    x0 = refs.dyadic_vec(n, k + 4, scale=0.5)
    e1 = refs.dyadic_vec(nd, k + 2, scale=0.5)
    try:
        x1, _ = two_steps(iface, "UGLA", target, x0, e1, np.zeros(nd), beta=beta)
        z0, T, aff = affine_probe(lambda e: two_steps(iface, "UGLA", target, x0, e1, e, beta=beta)[1], nd)
    except Exception as e:
        res.fail("C06|%s|second-step-raises|%s" % (comp, facet), "second transition raised %r" % (e,))
        return res
    res.transitions += 2 * (nd + 3)
    res.traces += 1
    res.evaluations += 1
    res.state("second-step")
    ok = False
    for z in (D @ x1, D @ (x1 - loc)):
        W = np.diag(1.0 / np.sqrt(z ** 2 + beta))
        H = A.T @ L @ A + (1.0 / b) * D.T @ W @ D
        cov = np.linalg.inv(H)
        mu = cov @ (A.T @ L @ d + (1.0 / b) * D.T @ W @ D @ loc)
        ok = ok or (aff and close(z0, mu, 1e-6) and close(T @ T.T, cov, 1e-6))
    res.outcomes.add("second-step:%s:%s" % (facet, ok))
    if not ok:
        res.fail("C06|%s|second-step|%s" % (comp, facet), "the second transition of the same sampler object is not a draw from the "
                 "documented local Gaussian at the state reached by the first transition (offset %s)" % (z0,),
                 focus={"x0": x0, "x1": x1})
    return res
