"""C13 - geometry maps are mutually inverse and act column-wise on batches.

E3 configuration explorer.  Every cell is one geometry configuration; inside the cell the maps are
applied to the *complete* parameter basis, a generic (dyadic) vector, the complete function basis (for
the projections) and batches of 1, 2 and 3 columns, and compared with a reference written here:

* StepExpansion: the documented partition of the grid nodes into steps, computed in exact rational
  arithmetic (fractions.Fraction) from (N, n_steps): node k of a regular N-node grid lies in step
  ceil(k*n/(N-1)) - 1 (k = 0 -> step 0).  The partition of the implementation is observed through
  par2fun(e_i) (black box), never through its private index lists.
* KLExpansion: the dense matrix of the documented sine-series formula.
* Image2D: the documented row-major / column-major index formula; Continuous2D: a bijection
  parameters <-> nodes.
* projections (fun2par of step expansions): mean / max / min over the nodes of a step.
* vectorised-function form: identity for 1-D function values (including visual-only images), the documented
  row-major / column-major pixel enumeration for images; vec2fun / fun2vec are called directly on the complete
  basis of the vector space, on the reference function values and on matrices of columns.
* representation facet: integer-valued parameter / function / sample arrays are handed over as float64, int64,
  int32, float32, non-contiguous (strided / Fortran-ordered) and list; oracle = the map (per sample) on the
  float64 copy.
* Samples / CUQIarray: a small reference state machine (parameters / function values / function values in vector
  form); every word of <= 3 conversions is applied and flags + stored values are compared after every step.
* option facet: every STRING / enumerated option of a geometry class in every spelling the class accepts (Image2D
  order C/F/c/f, StepExpansion projection names lower / UPPER / Capitalised, visual_only as bool / numpy bool / 0-1)
  and every integer-like constructor argument (image shape, grid size, n_steps, num_modes, number of variables) as
  python int, numpy integer, float-valued integer and (grids) tuple / list / integer-dtype array, numeric options
  (decay_rate, normalizer) as float / int / numpy scalars.  Reference = the documented, case-insensitive meaning of
  the option evaluated on the canonical python value.  A violation seen in such a cell is attributed to the MINIMAL
  set of non-canonical option facets that still shows it (the sub-configurations are re-evaluated), so that one
  defect gets one signature.
"""
import itertools
import math
import os
from fractions import Fraction

import numpy as np

from vfw.core import CellResult, close
from vfw import refs

PROPERTY = "C13"
RULE = ("cells = full product of geometry configurations inside the bound (StepExpansion: N x n_steps x offset x "
        "length x grid-builder, all 3 projections inside the cell; KLExpansion: N x num_modes x decay x normaliser; "
        "Continuous2D / Image2D: shape x order x visual_only x grid kind; Discrete; MappedGeometry with inverse; "
        "default geometries).  Each cell applies par2fun/fun2par to the complete parameter basis + a generic vector "
        "+ the complete function basis, vec2fun/fun2vec directly to the complete basis of the vector form + generic "
        "vectors (each against the reference, shapes against fun_shape/funvec_shape), all four maps to batches of "
        "1,2,3 columns; every map, Samples and CUQIarray conversion is repeated on integer-valued inputs held as "
        "{int64, int32, float32, strided/Fortran-ordered, list} against the float64 result; Samples and CUQIarray "
        "are driven through EVERY word of <= 3 conversions over {funvals, vector, parameters} (plus burnthin(0,1), "
        "burnthin(1,2) after the first funvals) with a reference state machine; OPTION facet: additional cells give "
        "every string / enumerated option in every accepted spelling and every integer-like or numeric constructor "
        "argument in every accepted representation (full product of the option facets of a class inside a smaller "
        "size bound) and run the same relations against the reference of the canonical value; violations of such a "
        "cell are attributed to the minimal failing subset of non-canonical facets; GRID-TRANSFORM facet: every "
        "grid-carrying geometry (StepExpansion, KLExpansion, Continuous1D, Continuous2D) is also built on the dyadic "
        "grid s*(arange(N)/64)+t for the full product of power-of-two scalings s and translations t (exact in "
        "floating point) and must act exactly like the untranslated geometry: StepExpansion node by node against the "
        "documented partition computed in exact rational arithmetic (no upper-step reading is possible: the float "
        "grid IS the ideal grid) and fun2par (mean/max/min) against the same node sets, the others against the "
        "grid-independent reference maps (signatures carry ',grid=s*dyadic+t'); a cell is non-trivial when the "
        "geometry was constructed and at least one map was evaluated on the whole basis")
BOUND = {
    "quick": "StepExpansion N=2..12, n_steps=1..N, offsets {0,0.1,1,-0.3,1e3}, lengths {1,0.7,3,0.1,pi}, builders "
             "{linspace, x0+h*arange} + integer grids, projections {mean,max,min}; KLExpansion N=1..10, num_modes "
             "{None,1..N+1}, decay {2.5,1.5}, normaliser {12,1}; Continuous2D {1..4}^2 x {int grid, array grid}; "
             "Image2D {1..4}^2 x {C,F} x visual_only; Discrete 1..6 (+named); Mapped over 9 bases (1D, 2D, images C/F, "
             "visual-only images C/F, discrete, step, KL) x 3 maps (2x+1, x/4, exp); defaults 1..6 / {1..3}^2; inputs = "
             "basis + 1 dyadic vector, batches of 1,2,3 columns, 5 non-float64 representations of 2 integer-valued "
             "samples, conversion words of length <= 3 on 3 samples.  For StepExpansion the representation facet, the "
             "direct vector-map basis and CUQIarray words of length 3 run on 3 canonical grids per (N, n_steps) (integer "
             "grid; offset 0.1 / length 0.7 with both builders) x all 3 projections - the other 48 offset/length grids "
             "keep the float64 maps, batches and Samples words.  OPTION facet (full products): Image2D {1..4}^2 x order "
             "{C,F,c,f} x visual_only x shape as {tuple of int, tuple of np.int64, tuple of float, list} + the same "
             "x visual_only as {np.bool_, 0/1}; StepExpansion N=2..6, n_steps=1..N, grid {int, np.int64, (N,), "
             "(np.int64,), int-dtype array, list, float} x n_steps {int, np.int64, float} x projection spelling {lower, "
             "UPPER, Capitalised} (all 3 projections); KLExpansion N=1..4, num_modes {None,1..N+1} as {int, np.int64, "
             "float} x grid {array, int, np.int64, list} x (decay_rate=2, normalizer=12) as {float, int, np.float64, "
             "np.int64}; Continuous2D {1..4}^2 x grid {np.int64 pair, one-element tuples, list of two, int-dtype "
             "arrays, int+array mixed, float pair}; Discrete 1..6 as {np.int64, float, list of np.str_}; Continuous1D / "
             "default 1D 1..6 as {np.int64, (np.int64,), int-dtype array, float}; default 2D {1..3}^2 x {np.int64, "
             "float} x visual_only; Mapped over images of order c / f.  GRID-TRANSFORM facet: s in {1, 2^-6, 2^10} x t in "
             "{0, 2^20, -2^20} on the base grid arange(N)/64: StepExpansion N=2..12 x n_steps=1..N x all 9 (s,t) x 3 "
             "projections; the 8 non-identity (s,t) x {KLExpansion N=1..6 x num_modes {None,1..N+1} (decay 2.5, "
             "normaliser 12); Continuous2D {1..4}^2; Continuous1D 1..6}",
    "thorough": "same with StepExpansion N=2..24, KLExpansion N=1..16, Continuous2D/Image2D {1..5}^2, 3 dyadic "
                "vectors per cell (representations, words and batch sizes as in quick); OPTION facet with StepExpansion "
                "N=2..10, KLExpansion N=1..8, images / 2-D grids {1..5}^2; GRID-TRANSFORM facet with StepExpansion "
                "N=2..24, KLExpansion N=1..16, Continuous2D {1..5}^2",
}
ASSUMPTIONS = [
    "a grid node that coincides (in rational arithmetic) with an interior step boundary is accepted in the lower "
    "step (documented, ideal regular grid) or in the upper step if exact real arithmetic on the given "
    "floating-point grid puts it there - provided no step is left without a node",
    "a batch with ONE column may come back squeezed (documented in the code comments); batches of stacked "
    "multi-dimensional function values (not matrices of column vectors) are executed but not judged",
    "a map that raises on a batch is accepted (raises, or equals the per-column result)",
    "geometries without fun2vec (Continuous2D) may refuse the vector form",
    "representation facet: integer-dtype / float32 / non-contiguous ndarrays must be accepted (they are arrays of "
    "admissible numbers) and give the float64 result (float32: to 1e-5, single-precision arithmetic inside the maps "
    "is legitimate); a Python list (maps are documented for arrays) and any batch may be refused; the oracle for "
    "fun2par on non-float64 input is fun2par on the float64 copy (differential), for par2fun the documented map",
    "a conversion that is documented to return the object itself may also return an equal copy",
    "an exception raised by library code on admissible input outside the allowed refusals is a verdict "
    "(signature ...|raises|...), exceptions of harness code are harness errors",
    "fractions / numpy reshape with explicit index loops are the trusted base of the reference",
    "option facet: spellings / representations that the classes document or explicitly test for (order 'C'/'F' in "
    "either case - the option is forwarded to numpy, which reads it case-insensitively -, projection names in any "
    "case, python and numpy integers, bool / numpy bool / 0-1 truth values, int / float / numpy numeric options, "
    "tuple-with-one-int / list / ndarray grids) must be accepted and mean what the canonical value means; "
    "float-valued integers and a list in place of the documented shape tuple are OPTIONAL representations: the "
    "library may refuse them anywhere (any raise of library code = refusal; a geometry reporting non-integer "
    "dimensions is not explored further), but every value it does return must equal the reference",
    "grid-transform facet: the documented partition (i*L/n, (i+1)*L/n] and the KL series / reshape maps are stated "
    "relative to the grid's own origin and length, so they are invariant under grid -> s*grid + t; for power-of-two "
    "s, t (|t|/spacing up to 2^32, far inside the 53-bit mantissa) every node, L and every coincident boundary is "
    "exact in floating point, hence the library must reproduce the ideal partition exactly (a self-check asserts "
    "the exactness of the transformed grid)",
    "the function values of every geometry in the bound are arrays: fun_is_array must say so once par2fun has "
    "returned an array of the reported fun_shape (Samples.funvals relies on it)",
]

OFFSETS = [0.0, 0.1, 1.0, -0.3, 1e3]
LENGTHS = [1.0, 0.7, 3.0, 0.1, math.pi]
PROJS = ["mean", "max", "min"]
GT_S = [1.0, 2.0 ** -6, 2.0 ** 10]          # power-of-two scalings of the dyadic base grid arange(N)/64
GT_T = [0.0, 2.0 ** 20, -2.0 ** 20]        # power-of-two translations
GT_FACET = "grid=s*dyadic+t"


def _dy(N, gt):
    """s*(arange(N)/64) + t, with the harness self-check that every node is exact in floating point."""
    s, t = gt
    g = t + s * (np.arange(N) / 64.0)
    assert all(Fraction(float(g[i])) == Fraction(t) + Fraction(s) * Fraction(i, 64) for i in range(N)), \
        "harness self-check: transformed dyadic grid is not exact"
    return g


def _gtf(cell):
    return GT_FACET if "gt" in cell else ""


# ----------------------------------------------------------------------------------------
# enumeration
# ----------------------------------------------------------------------------------------
def cells(tier, seed):
    k = refs.cat(seed)
    nv = 1 if tier == "quick" else 3
    nmax_step = 12 if tier == "quick" else 24
    nmax_kl = 10 if tier == "quick" else 16
    smax = 4 if tier == "quick" else 5
    for N in range(2, nmax_step + 1):
        for n in range(1, N + 1):
            yield {"fam": "step", "N": N, "n": n, "x0": 0.0, "L": float(N - 1), "b": "int", "cat": k, "nv": nv}
            for x0 in OFFSETS:
                for L in LENGTHS:
                    for b in ("lin", "ar"):
                        yield {"fam": "step", "N": N, "n": n, "x0": x0, "L": L, "b": b, "cat": k, "nv": nv}
    # ---- GRID-TRANSFORM facet: the same dyadic grid arange(N)/64 scaled and translated by powers of two (exact
    # in floating point): the geometry must act exactly like the untranslated one (documented partition / series) ----
    for N in range(2, nmax_step + 1):
        for n in range(1, N + 1):
            for gs in GT_S:
                for gt in GT_T:
                    yield {"fam": "step", "N": N, "n": n, "x0": gt, "L": gs * (N - 1) / 64.0, "b": "dy", "gt": [gs, gt],
                           "cat": k, "nv": nv}
    for gs in GT_S:
        for gt in GT_T:
            if (gs, gt) == (1.0, 0.0):
                continue
            for N in range(1, (6 if tier == "quick" else nmax_kl) + 1):
                for m in [None] + list(range(1, N + 2)):
                    yield {"fam": "kl", "N": N, "m": m, "decay": 2.5, "tau": 12.0, "gt": [gs, gt], "cat": k, "nv": nv}
            for n1 in range(1, smax + 1):
                for n2 in range(1, smax + 1):
                    yield {"fam": "c2d", "n1": n1, "n2": n2, "grid": "dy", "gt": [gs, gt], "cat": k, "nv": nv}
            for n in range(1, 7):
                yield {"fam": "default", "kind": "c1d-dy", "n": n, "gt": [gs, gt], "cat": k, "nv": nv}
    for N in range(1, nmax_kl + 1):
        for m in [None] + list(range(1, N + 2)):
            for decay in (2.5, 1.5):
                for tau in (12.0, 1.0):
                    yield {"fam": "kl", "N": N, "m": m, "decay": decay, "tau": tau, "cat": k, "nv": nv}
    for n1 in range(1, smax + 1):
        for n2 in range(1, smax + 1):
            for gk in ("int", "arr"):
                yield {"fam": "c2d", "n1": n1, "n2": n2, "grid": gk, "cat": k, "nv": nv}
            for order in ("C", "F"):
                for vo in (False, True):
                    yield {"fam": "img", "r": n1, "c": n2, "order": order, "vo": vo, "cat": k, "nv": nv}
    for n in range(1, 7):
        for named in (False, True):
            yield {"fam": "disc", "n": n, "named": named, "cat": k, "nv": nv}
    for base in ("c1d", "c2d", "imgC", "imgF", "imgCvo", "imgFvo", "disc", "step", "kl"):
        for mp in ("affine", "quarter", "exp"):
            yield {"fam": "mapped", "base": base, "map": mp, "cat": k, "nv": nv}
    for n in range(1, 7):
        for kind in ("default1d", "c1d-int", "c1d-tuple", "c1d-list", "samples-default", "array-default"):
            yield {"fam": "default", "kind": kind, "n": n, "cat": k, "nv": nv}
    for r in range(1, 4):
        for c in range(1, 4):
            yield {"fam": "default", "kind": "default2d", "r": r, "c": c, "cat": k, "nv": nv}
    # ---- OPTION facet: spellings of string / enumerated options, representations of integer-like and numeric
    # constructor arguments (keys absent = canonical value; full product of the option facets of each class) ----
    for n1 in range(1, smax + 1):
        for n2 in range(1, smax + 1):
            for order in ("C", "F"):
                for vo in (False, True):
                    base = {"fam": "img", "r": n1, "c": n2, "order": order, "vo": vo, "cat": k, "nv": nv}
                    for ocase in ("upper", "lower"):
                        for srep in ("int", "np.int64", "float", "list"):
                            if (ocase, srep) != ("upper", "int"):
                                yield _with(base, ocase=ocase, srep=srep)
                        for vrep in ("np.bool_", "int"):
                            yield _with(base, ocase=ocase, vrep=vrep)
            for g2 in ("np.int64", "tuple1", "list2", "intarray", "mixed", "float"):
                yield {"fam": "c2d", "n1": n1, "n2": n2, "grid": "int", "g2rep": g2, "cat": k, "nv": nv}
    for N in range(2, (6 if tier == "quick" else 10) + 1):
        for n in range(1, N + 1):
            base = {"fam": "step", "N": N, "n": n, "x0": 0.0, "L": float(N - 1), "b": "int", "cat": k, "nv": nv}
            for grep in ("int", "np.int64", "tuple", "np.tuple", "intarray", "list", "float"):
                for nrep in ("int", "np.int64", "float"):
                    for pcase in ("lower", "upper", "capital"):
                        if (grep, nrep, pcase) != ("int", "int", "lower"):
                            yield _with(base, grep=grep, nrep=nrep, pcase=pcase)
    for N in range(1, (4 if tier == "quick" else 8) + 1):
        for m in [None] + list(range(1, N + 2)):
            base = {"fam": "kl", "N": N, "m": m, "decay": 2.0, "tau": 12.0, "cat": k, "nv": nv}
            for grep in ("array", "int", "np.int64", "list"):
                for mrep in (("int",) if m is None else ("int", "np.int64", "float")):
                    for numrep in ("float", "int", "np.float64", "np.int64"):
                        yield _with(base, grep=grep, mrep=mrep, numrep=numrep)
    for n in range(1, 7):
        for vrep in ("np.int64", "float"):
            yield {"fam": "disc", "n": n, "named": False, "vrep": vrep, "cat": k, "nv": nv}
        yield {"fam": "disc", "n": n, "named": True, "vrep": "np.str_", "cat": k, "nv": nv}
        for kind in ("default1d", "c1d-int"):
            for irep in ("np.int64", "np.tuple", "intarray", "float"):
                yield {"fam": "default", "kind": kind, "n": n, "irep": irep, "cat": k, "nv": nv}
    for r in range(1, 4):
        for c in range(1, 4):
            for vo in (False, True):
                for srep in ("int", "np.int64", "float"):
                    if (vo, srep) != (False, "int"):
                        yield {"fam": "default", "kind": "default2d", "r": r, "c": c, "vo": vo, "srep": srep,
                               "cat": k, "nv": nv}
    for base in ("imgc", "imgf"):
        for mp in ("affine", "quarter", "exp"):
            yield {"fam": "mapped", "base": base, "map": mp, "cat": k, "nv": nv}


def _with(base, **kw):
    d = dict(base)
    d.update(kw)
    return d


# ----------------------------------------------------------------------------------------
# option facet: representations of one and the same option value
# ----------------------------------------------------------------------------------------
# family -> {facet key: canonical representation} (a cell without the key uses the canonical one)
OPT_CANON = {
    "img": {"ocase": "upper", "srep": "int", "vrep": "bool"},
    "step": {"grep": "int", "nrep": "int", "pcase": "lower"},
    "kl": {"grep": "array", "mrep": "int", "numrep": "float"},
    "c2d": {"g2rep": "int"},
    "disc": {"vrep": "py"},
    "default": {"irep": "int", "srep": "int"},
    "mapped": {},
}
IREP = {"int": int, "np.int64": np.int64, "float": float}
NUMREP = {"float": float, "int": int, "np.float64": np.float64, "np.int64": np.int64}


def _opt(cell, key):
    return cell.get(key, OPT_CANON[cell["fam"]][key])


def _opts(cell):
    """The non-canonical option facets of a cell: {key: representation}."""
    return {key: cell[key] for key, canon in OPT_CANON[cell["fam"]].items() if key in cell and cell[key] != canon}


def _lenient(cell):
    """True when the cell hands over an OPTIONAL representation (float-valued integer, list in place of a tuple)."""
    o = _opts(cell)
    return any(v == "float" for v in o.values()) or o.get("srep") == "list"


def _case(name, how):
    return {"lower": name.lower(), "upper": name.upper(), "capital": name.capitalize()}[how]


def _shape_rep(shape, rep):
    if rep == "list":
        return [int(v) for v in shape]
    return tuple(IREP[rep](v) for v in shape)


def _bool_rep(v, rep):
    return {"bool": bool, "np.bool_": np.bool_, "int": int}[rep](v)


def _grid_rep(N, rep):
    """An N-node default grid (nodes 0..N-1) in the given representation."""
    if rep in IREP:
        return IREP[rep](N)
    if rep == "tuple":
        return (int(N),)
    if rep == "np.tuple":
        return (np.int64(N),)
    if rep == "intarray":
        return np.arange(N, dtype=np.int64)
    if rep == "list":
        return list(range(N))
    raise ValueError(rep)


# ----------------------------------------------------------------------------------------
# small helpers
# ----------------------------------------------------------------------------------------
def _arr(x):
    return np.asarray(x, dtype=float)


def _is_index(v):
    """v is an integer (python or numpy), not a bool-free float / other object."""
    return isinstance(v, (int, np.integer)) and not isinstance(v, (bool, np.bool_))


def _sq(shape):
    return tuple(s for s in shape if s != 1)


def _prod(shape):
    return int(math.prod(int(v) for v in shape))


def _np(x):
    """np.asarray that never raises: None for ragged / object-valued results."""
    try:
        a = np.asarray(x)
    except Exception:  # noqa
        return None
    if a.dtype == object:
        return None
    return a


def _fit(x, shape):
    """x as an array of the given shape if it has exactly that many entries (singleton axes may differ), else None."""
    a = _np(x)
    shape = tuple(shape)
    if a is None or a.size != _prod(shape):
        return None
    return a.reshape(shape)


def _sarr(S):
    """The stored samples of a Samples object as one array with the sample index last (None if impossible)."""
    s = getattr(S, "samples", None)
    if isinstance(s, list):
        try:
            return np.stack([np.asarray(x, dtype=float) for x in s], axis=-1)
        except Exception:  # noqa
            return None
    return _np(s)


def _eq(a, want, tol):
    """a is an array of exactly the shape of want holding the same numbers."""
    return a is not None and a.shape == want.shape and close(a, want, tol)


def _shp(x):
    a = _np(x)
    return None if a is None else a.shape


RAISE_KINDS = ("raises", "refused", "maps-raise-after-new-grid")


class Ctx:
    """Per-cell bookkeeping: component name, facet string, and de-duplicated failures."""

    def __init__(self, res, comp, facet="", lenient=False):
        self.res, self.comp, self.facet = res, comp, facet
        self._seen = set()
        self.map_broken = False   # a map-level relation failed: derived relations are not flagged again
        self.lenient = lenient    # OPTIONAL representation of an option: a raise of the library is a refusal
        self.not_array = False    # fun_is_array denies that the function values are arrays (reported once)

    def fail(self, op, what, msg, nofacet=False, **detail):
        head = what.split(",")[0]
        if self.lenient and head in RAISE_KINDS:
            self.res.refused += 1
            self.res.count("optional-representation-refused")
            self.res.outcomes.add("%s:optional-representation-refused:%s" % (self.comp, op))
            return
        sig = "C13|%s|%s|%s" % (self.comp, op, what if (nofacet or not self.facet) else "%s,%s" % (what, self.facet))
        if what == "shape-singleton-squeezed" or (head == "raises" and getattr(self, "squeezed", False)):
            # one defect (maps squeeze away genuine length-1 axes) whatever map shows it and whatever downstream
            # conversion then refuses the wrongly shaped array
            sig = "C13|%s|singleton-axis|squeezed" % self.comp
            msg = "[%s] %s" % (op, msg)
        elif self.not_array and op.startswith("Samples.") and head == "flags":
            # consequence of the wrong fun_is_array flag (function values kept as a list, is_vec False)
            sig = "C13|%s|fun_is_array|reports-non-array" % self.comp
            msg = "[%s] %s" % (op, msg)
        if sig in self._seen:
            return
        self._seen.add(sig)
        self.res.fail(sig, msg, **detail)

    def shape(self, op, got, want, batch=False):
        """Compare a produced shape with the reported one; classify pure singleton squeezes."""
        got, want = tuple(got), tuple(want)
        self.res.evaluations += 1
        if got == want:
            return True
        if _sq(got) == _sq(want):
            self.res.count("singleton-squeezed")
            self.squeezed = True
            self.fail(op, "shape-singleton-squeezed",
                      "%s%s produced shape %s where the geometry reports %s (a length-1 axis was squeezed away)"
                      % (op, " (batch)" if batch else "", got, want))
        else:
            self.fail(op, "shape", "%s produced shape %s, geometry reports %s" % (op, got, want))
            self.map_broken = True
        return False


def _pvecs(dim, k, nv):
    """Complete basis + nv generic dyadic vectors."""
    out = [np.eye(dim)[:, i].copy() for i in range(dim)]
    for j in range(nv):
        out.append(refs.dyadic_vec(dim, k + 3 * j))
    return out


def _batch(dim, k, ncol):
    return np.column_stack([refs.dyadic_vec(dim, k + 1 + 2 * j, scale=0.5) for j in range(ncol)])


def _ivec(dim, k):
    """Generic integer-VALUED vector (no zero entry): exactly representable in every tested dtype."""
    return np.rint(refs.dyadic_vec(dim, k + 2, scale=1.0))


def _ipos(dim, k):
    """Generic vector of positive integers (admissible function values also below a log / exp map)."""
    return np.abs(_ivec(dim, k + 1)) + 1.0


def _call(res, f, *a, **kw):
    """Run a library map; returns (ok, value-or-exception)."""
    res.transitions += 1
    try:
        return True, f(*a, **kw)
    except Exception as e:  # noqa
        return False, e


# representations of one and the same parameter / function / sample array -------------------------------
REPS = ("int64", "int32", "float32", "strided", "list")
REP_CLASS = {"int64": "integer", "int32": "integer", "float32": "float32", "strided": "strided", "list": "list"}
REP_TOL = {"float32": 1e-5}      # single-precision arithmetic inside the maps is legitimate for float32 input


def _rep(x, rep):
    """The (integer-valued) float64 array x in another representation holding exactly the same numbers."""
    x = np.asarray(x, dtype=float)
    if rep == "float64":
        return x.copy()
    if rep == "int64":
        return x.astype(np.int64)
    if rep == "int32":
        return x.astype(np.int32)
    if rep == "float32":
        return x.astype(np.float32)
    if rep == "strided":          # non-contiguous view (vector) / Fortran-ordered buffer (matrix, stack)
        if x.ndim == 1:
            buf = np.full(2 * x.size, 99.0)
            buf[::2] = x
            return buf[::2]
        return np.asfortranarray(x.copy())
    if rep == "list":
        return x.astype(int).tolist()
    raise ValueError(rep)


def _same_numbers(xr, x):
    a = _np(xr)
    return a is not None and a.shape == np.shape(x) and np.array_equal(a.astype(float), x)


def _vec_refs(fshape, ref_fun2vec):
    """(ref_f2v, ref_v2f) of the geometry: identity for 1-D function values, else derived from the given
    reference fun2vec (a permutation of the entries) - or (None, None) when there is no reference."""
    fshape = tuple(fshape)
    if ref_fun2vec is None and len(fshape) == 1:
        return (lambda f: np.array(f, float)), (lambda v: np.array(v, float))
    if ref_fun2vec is None:
        return None, None
    fd = _prod(fshape)
    perm = np.rint(ref_fun2vec(np.arange(fd, dtype=float).reshape(fshape))).astype(int)   # v[j] = f.flat[perm[j]]

    def v2f(v):
        out = np.zeros(fd)
        for j in range(fd):
            out[perm[j]] = v[j]
        return out.reshape(fshape)
    return (lambda f: np.array(ref_fun2vec(np.asarray(f, float)), float)), v2f


# ----------------------------------------------------------------------------------------
# generic relations valid for every geometry
# ----------------------------------------------------------------------------------------
def generic(cx, g, k, nv, inverse=True, ref_par2fun=None, has_vec=True, samples=True, ref_fun2vec=None, full=True):
    """inverse: fun2par offered and expected to invert par2fun.  ref_par2fun(p)->array: reference of par2fun.
    ref_fun2vec(f)->vector: reference of the vectorised-function map (identity when function values are 1-D).
    full=False (step expansions on all but the canonical grids, where the grid offset / length facet cannot interact
    with the added facets): no representation facet, vector maps only on par2fun outputs, CUQIarray words <= 2."""
    res = cx.res
    ok, dims = _call(res, lambda: (g.par_dim, tuple(g.fun_shape), g.fun_dim, tuple(g.par_shape)))
    if not ok:
        cx.fail("dims", "raises", "the geometry cannot report its shapes: %r" % (dims,))
        return None
    pd, fshape, fdim, pshape = dims
    cx.res.evaluations += 1
    if not all(_is_index(v) for v in (pd, fdim) + fshape + pshape):
        if cx.lenient:
            # an optional representation (float-valued integer) that leaks into the reported dimensions: the library
            # never promised it - not explored further
            res.refused += 1
            res.count("optional-representation-nonint-dims")
            res.outcomes.add("%s:optional-representation-nonint-dims" % cx.comp)
            return None
        cx.fail("dims", "not-integers", "par_dim %r / par_shape %r / fun_dim %r / fun_shape %r are not all integers"
                % (pd, pshape, fdim, fshape))
        return None
    pd, fdim, fshape, pshape = int(pd), int(fdim), tuple(int(v) for v in fshape), tuple(int(v) for v in pshape)
    if pshape != (pd,) or fdim != _prod(fshape):
        cx.fail("dims", "inconsistent", "par_shape %s / par_dim %s / fun_shape %s / fun_dim %s are inconsistent"
                % (pshape, pd, fshape, fdim))
        return None
    # ---- single vectors -----------------------------------------------------------------
    F = []
    for p in _pvecs(pd, k, nv):
        ok, f = _call(res, g.par2fun, p.copy())
        if not ok:
            cx.fail("par2fun", "raises", "par2fun raised on a valid parameter vector: %r" % (f,))
            return None
        f = _np(f)
        if f is None:
            cx.fail("par2fun", "shape", "par2fun did not return an array of numbers")
            return None
        cx.shape("par2fun", f.shape, fshape)
        if f.size != fdim:
            return None
        if not F and f.shape == fshape:
            # the maps produce arrays of the reported shape: the geometry must say so (Samples.funvals relies on it)
            ok, flag = _call(res, lambda: g.fun_is_array)
            res.evaluations += 1
            if not ok:
                cx.fail("fun_is_array", "raises", "fun_is_array raised: %r" % (flag,))
            elif not flag:
                cx.not_array = True
                cx.fail("fun_is_array", "reports-non-array", "fun_is_array is %r although par2fun returns an ndarray of the "
                        "reported fun_shape %r (entries of type %s): Samples.funvals then keeps the function values as a "
                        "list flagged is_vec=False" % (flag, g.fun_shape, sorted(set(type(v).__name__ for v in g.fun_shape))),
                        nofacet=True)
        if ref_par2fun is not None:
            r = ref_par2fun(p)
            res.evaluations += 1
            if _sq(f.shape) != _sq(r.shape) or not close(f.reshape(r.shape), r, 1e-9):
                cx.fail("par2fun", "values", "par2fun differs from the documented map", p=p, impl=f, ref=r)
                cx.map_broken = True
        F.append(f)
        if inverse:
            fin = f if f.shape == fshape else f.reshape(fshape)   # hand back exactly a function of the reported shape
            ok, q = _call(res, g.fun2par, fin.copy())
            if not ok:
                cx.fail("fun2par", "raises", "fun2par raised on the function values the geometry reports for "
                        "par2fun(p) (shape %s): %r" % (fshape, q))
                continue
            q = _np(q)
            if q is None:
                cx.fail("fun2par", "shape", "fun2par did not return an array of numbers")
                continue
            cx.shape("fun2par", q.shape, (pd,))
            res.evaluations += 1
            if q.size != pd or not close(q.reshape(pd), p, 1e-9):
                cx.fail("roundtrip", "fun2par(par2fun(p))!=p", "fun2par(par2fun(p)) = %s for p = %s" % (q, p), p=p, q=q)
                cx.map_broken = True
    res.outcomes.add("%s:par%s->fun%s" % (cx.comp, (pd,), F[-1].shape))
    # ---- vector form --------------------------------------------------------------------
    vshape = None
    ref_f2v, ref_v2f = _vec_refs(fshape, ref_fun2vec)
    if has_vec:
        vshape = _vec_check(cx, g, k, nv, F, pd, fshape, ref_f2v, ref_v2f, full)
    # ---- batches: matrices of column vectors ---------------------------------------------
    for ncol in (1, 2, 3):
        B = _batch(pd, k, ncol)
        cols = []
        for j in range(ncol):
            ok, c = _call(res, g.par2fun, B[:, j].copy())
            c = _fit(c, fshape) if ok else None
            if c is None:
                cx.fail("par2fun", "raises", "par2fun raised / returned a wrong size on a valid parameter vector: %r" % (c,))
                return F
            cols.append(c)
        _batch_check(cx, g.par2fun, "par2fun", B, cols, fshape, ncol)
        if len(fshape) == 1 and inverse:
            FB = np.stack(cols, axis=-1)
            pc = []
            for j in range(ncol):
                ok, q = _call(res, g.fun2par, FB[:, j].copy())
                q = _fit(q, (pd,)) if ok else None
                if q is None:
                    pc = None
                    break
                pc.append(q)
            if pc is not None:
                _batch_check(cx, g.fun2par, "fun2par", FB, pc, (pd,), ncol)
        elif inverse:
            # stack of multi-dimensional function values: executed, recorded, not judged (see ASSUMPTIONS)
            FB = np.stack(cols, axis=-1)
            ok, out = _call(res, g.fun2par, FB.copy())
            res.outcomes.add("%s:fun2par-stack%d:%s" % (cx.comp, ncol, _shp(out) if ok else "raises"))
    # ---- representation of the inputs (dtype / memory layout / list) -------------------------
    if full:
        _rep_check(cx, g, k, inverse, ref_par2fun, pd, fshape, vshape, ref_f2v, samples)
    # ---- Samples / CUQIarray conversions ---------------------------------------------------
    if samples:
        _samples_check(cx, g, k, inverse, pd, fshape, vshape, ref_f2v)
        _array_check(cx, g, k, inverse, pd, fshape, DEPTH if full else 2)
    return F


def _vec_check(cx, g, k, nv, F, pd, fshape, ref_f2v, ref_v2f, full=True):
    """The vectorised-function maps called directly: on the complete basis of the vector space + generic vectors,
    on the reference function values, on par2fun outputs, and on matrices of columns.  Returns funvec_shape or None."""
    res = cx.res
    fd = _prod(fshape)
    ok, vs = _call(res, lambda: (tuple(g.funvec_shape), g.funvec_dim))
    if not ok:
        # a geometry without fun2vec (Continuous2D) may refuse the vector form
        res.refused += 1
        res.outcomes.add("%s:funvec-refused" % cx.comp)
        if ref_f2v is not None:
            cx.fail("funvec_shape", "raises", "funvec_shape raised although the geometry has a vector form: %r" % (vs,))
        return None
    vshape, vdim = vs
    res.evaluations += 1
    if not all(_is_index(v) for v in (vdim,) + vshape):
        cx.fail("dims", "funvec-not-integers", "funvec_dim %r / funvec_shape %r are not integers" % (vdim, vshape))
        return None
    vshape, vdim = tuple(int(v) for v in vshape), int(vdim)
    if vdim != _prod(vshape) or len(vshape) != 1:
        cx.fail("dims", "funvec", "funvec_dim %s != prod(funvec_shape %s) / not one-dimensional" % (vdim, vshape))
        return None
    res.state("vec-form")
    # (a) direct calls on the complete vector basis + generic vectors, each map against the reference
    if ref_f2v is not None and full:
        if vdim != fd:
            cx.fail("dims", "funvec", "funvec_dim %s but the function has %d values" % (vdim, fd))
            return None
        for v in _pvecs(vdim, k + 1, nv):
            fr = ref_v2f(v)
            ok, f = _call(res, g.vec2fun, v.copy())
            if not ok:
                cx.fail("vec2fun", "raises", "vec2fun raised on a vector of the reported funvec_shape %s: %r" % (vshape, f))
                break
            sh = _shp(f)
            if sh is None:
                cx.fail("vec2fun", "shape", "vec2fun did not return an array of numbers")
                break
            if not cx.shape("vec2fun", sh, fshape) and cx.map_broken:
                break
            ff = _fit(f, fshape)
            res.evaluations += 1
            if ff is None or not close(ff, fr, 1e-12):
                if ff is not None or _sq(sh) != _sq(fshape):
                    cx.fail("vec2fun", "values", "vec2fun(v) differs from the reference function values", v=v, impl=_np(f), ref=fr)
                cx.map_broken = True
                break
            ok, v2 = _call(res, g.fun2vec, fr.copy())
            if not ok:
                cx.fail("fun2vec", "raises", "fun2vec raised on function values of the reported fun_shape %s: %r" % (fshape, v2))
                break
            sh = _shp(v2)
            if sh is None:
                cx.fail("fun2vec", "shape", "fun2vec did not return an array of numbers")
                break
            if not cx.shape("fun2vec", sh, vshape) and cx.map_broken:
                break
            vv = _fit(v2, vshape)
            res.evaluations += 1
            if vv is None or not close(vv, v, 1e-12):
                if vv is not None or _sq(sh) != _sq(vshape):
                    cx.fail("fun2vec", "values", "fun2vec(f) differs from the reference vector", f=fr, impl=_np(v2), ref=v)
                cx.map_broken = True
                break
    if cx.map_broken:
        res.count("derived-relation-skipped-after-map-failure")
        return vshape
    # (b) on par2fun outputs: fun2vec then vec2fun returns the function
    for f in F[-(nv + 1):]:
        fin = f if f.shape == fshape else f.reshape(fshape)
        ok, v = _call(res, g.fun2vec, fin.copy())
        if not ok:
            cx.fail("fun2vec", "raises", "fun2vec raised although funvec_shape is reported: %r" % (v,))
            break
        sh = _shp(v)
        if sh is None:
            cx.fail("fun2vec", "shape", "fun2vec did not return an array of numbers")
            break
        cx.shape("fun2vec", sh, vshape)
        v = _fit(v, vshape)
        if v is None:
            break
        ok, f2 = _call(res, g.vec2fun, v.copy())
        if not ok:
            cx.fail("vec2fun", "raises", "vec2fun raised on fun2vec output: %r" % (f2,))
            break
        sh = _shp(f2)
        if sh is None:
            cx.fail("vec2fun", "shape", "vec2fun did not return an array of numbers")
            break
        cx.shape("vec2fun", sh, fshape)
        f2 = _fit(f2, fshape)
        res.evaluations += 1
        if f2 is None or not close(f2, fin, 1e-12):
            if f2 is not None or _sq(sh) != _sq(fshape):
                cx.fail("vec2fun", "not-inverse-of-fun2vec", "vec2fun(fun2vec(f)) != f", f=fin, back=f2)
            cx.map_broken = True
    # (c) matrices of column vectors through the vector maps
    for ncol in ((1, 2, 3) if full else ()):
        VB = _batch(vdim, k + 2, ncol)
        cols = []
        for j in range(ncol):
            ok, c = _call(res, g.vec2fun, VB[:, j].copy())
            c = _fit(c, fshape) if ok else None
            if c is None:
                break
            cols.append(c)
        if len(cols) < ncol:
            break          # reported above
        _batch_check(cx, g.vec2fun, "vec2fun", VB, cols, fshape, ncol)
        FB = np.stack(cols, axis=-1)
        if len(fshape) == 1:
            vc = []
            for j in range(ncol):
                ok, c = _call(res, g.fun2vec, FB[:, j].copy())
                c = _fit(c, vshape) if ok else None
                if c is None:
                    break
                vc.append(c)
            if len(vc) == ncol:
                _batch_check(cx, g.fun2vec, "fun2vec", FB, vc, vshape, ncol)
        else:
            ok, out = _call(res, g.fun2vec, FB.copy())
            res.outcomes.add("%s:fun2vec-stack%d:%s" % (cx.comp, ncol, _shp(out) if ok else "raises"))
    return vshape


def _batch_check(cx, fn, op, B, cols, single_shape, ncol):
    res = cx.res
    ok, out = _call(res, fn, B.copy())
    if not ok:
        res.refused += 1
        res.count("batch-refused")
        res.outcomes.add("%s:%s-batch%d:raises" % (cx.comp, op, ncol))
        return
    out = _np(out)
    single_shape = tuple(single_shape)
    want = np.stack([np.asarray(c).reshape(single_shape) for c in cols], axis=-1)
    res.evaluations += 1
    if out is None:
        cx.fail(op + "-batch", "shape", "%s on a matrix of %d columns did not return an array of numbers" % (op, ncol))
        return
    shape_ok = out.shape == want.shape or (ncol == 1 and out.shape == single_shape)
    if ncol == 1 and out.shape == single_shape and want.shape != single_shape:
        res.count("one-column-batch-squeezed")
    if not shape_ok:
        if _sq(out.shape) == _sq(want.shape):
            cx.shape(op, out.shape, want.shape, batch=True)
        else:
            cx.fail(op + "-batch", "shape", "%s on a matrix of %d columns returned shape %s, per-column results "
                    "stack to %s" % (op, ncol, out.shape, want.shape))
            return
    if out.size != want.size or not close(out.reshape(want.shape), want, 1e-12):
        cx.fail(op + "-batch", "values", "%s on a matrix of %d columns differs from the per-column results"
                % (op, ncol), batch=B, impl=out, ref=want)
    res.outcomes.add("%s:%s-batch%d:%s" % (cx.comp, op, ncol, out.shape))


# ----------------------------------------------------------------------------------------
# representation facet: the same numbers as float64 / integer dtypes / float32 / strided / list
# ----------------------------------------------------------------------------------------
def _rep_check(cx, g, k, inverse, ref_par2fun, pd, fshape, vshape, ref_f2v, with_samples):
    """Every map, Samples conversion and CUQIarray conversion applied to integer-VALUED inputs held in each
    representation must return what it returns for the float64 copy (reference / per-sample map on float64)."""
    import cuqi
    res = cx.res
    if cx.map_broken:
        res.count("derived-relation-skipped-after-map-failure")
        return
    fd = _prod(fshape)
    Ns = 2
    PZ = np.column_stack([_ivec(pd, k + j) for j in range(Ns)])
    FZ = np.stack([_ipos(fd, k + j).reshape(fshape) for j in range(Ns)], axis=-1)

    def base(fn, x, shape):
        ok, y = _call(res, fn, np.array(x, float))
        return _fit(y, shape) if ok else None

    # float64 baselines (par2fun: the reference itself where there is one)
    Fb, Qb, Vb = [], [], []
    for j in range(Ns):
        f = base(g.par2fun, PZ[:, j], fshape)
        if f is None:
            cx.fail("par2fun", "raises", "par2fun raised / returned a wrong size on an integer-valued float64 vector")
            return
        if ref_par2fun is not None:
            r = np.asarray(ref_par2fun(PZ[:, j]), float)
            res.evaluations += 1
            if not close(f, r.reshape(fshape), 1e-9):
                cx.fail("par2fun", "values", "par2fun differs from the documented map", p=PZ[:, j], impl=f, ref=r)
                return
            f = r.reshape(fshape)
        Fb.append(f)
        if inverse:
            q = base(g.fun2par, FZ[..., j], (pd,))
            if q is None:
                cx.fail("fun2par", "raises", "fun2par raised / returned a wrong size on positive integer-valued float64 "
                        "function values of the reported shape %s" % (fshape,))
                return
            Qb.append(q)
        if vshape is not None:
            v = ref_f2v(FZ[..., j]) if ref_f2v is not None else base(g.fun2vec, FZ[..., j], vshape)
            if v is None:
                vshape = None
            else:
                Vb.append(np.asarray(v, float).reshape(vshape))
    wantF = np.stack(Fb, axis=-1)
    jobs = [("par2fun", g.par2fun, PZ[:, 0], Fb[0], fshape, False),
            ("par2fun-batch", g.par2fun, PZ, wantF, fshape + (Ns,), True)]
    if inverse:
        jobs.append(("fun2par", g.fun2par, FZ[..., 0], Qb[0], (pd,), False))
    if vshape is not None:
        jobs.append(("fun2vec", g.fun2vec, FZ[..., 0], Vb[0], vshape, False))
        w = _ivec(_prod(vshape), k + 1)
        wb = base(g.vec2fun, w, fshape)
        if wb is not None:
            jobs.append(("vec2fun", g.vec2fun, w, wb, fshape, False))
    is1d = len(fshape) == 1
    bad = set()        # operations that already fail on the float64 control: reported once, without input facet

    def report(key, op, kind, rep, msg, extra="", **detail):
        if rep == "float64":
            bad.add(key)
            cx.fail(op, kind + extra, msg, **detail)
        else:
            cx.fail(op, "%s,input=%s%s" % (kind, REP_CLASS[rep], extra), msg, **detail)

    for rep in ("float64",) + REPS:
        tol = REP_TOL.get(rep, 1e-9)
        may_refuse = rep == "list"        # the maps are documented for arrays
        res.state("rep-" + rep)
        # ---- the maps themselves ---------------------------------------------------------------
        for op, fn, x, want, shape, batch in jobs:
            if op in bad:
                continue
            xr = _rep(x, rep)
            ok, out = _call(res, fn, xr)
            if not ok:
                if may_refuse or batch:
                    res.refused += 1
                    continue
                report(op, op, "raises", rep, "%s raised on %s input holding numbers it accepts as float64: %r" % (op, rep, out))
                continue
            o = _fit(out, shape)
            res.evaluations += 1
            if o is None or not close(o, want, tol):
                report(op, op, "values", rep, "%s of %s input differs from %s of the float64 copy (returned shape %s)"
                       % (op, rep, op, _shp(out)), x=x, impl=_np(out), ref=want)
            elif not _same_numbers(xr, x):
                report(op, op, "source-altered", rep, "%s changed its %s input" % (op, rep))
            else:
                res.outcomes.add("%s:%s:%s->%s" % (cx.comp, op, rep, getattr(_np(out), "dtype", None)))
        # ---- CUQIarray ----------------------------------------------------------------------------
        if "A.funvals" not in bad:
            ok, fa = _call(res, lambda: cuqi.array.CUQIarray(_rep(PZ[:, 0], rep), geometry=g).funvals)
            if not ok:
                if may_refuse:
                    res.refused += 1
                else:
                    report("A.funvals", "CUQIarray.funvals", "raises", rep, "CUQIarray.funvals raised on %s data: %r" % (rep, fa))
            else:
                o = _fit(fa, fshape)
                res.evaluations += 1
                if o is None or not close(o, Fb[0], tol):
                    report("A.funvals", "CUQIarray.funvals", "values", rep, "CUQIarray.funvals of %s data differs from par2fun "
                           "of the float64 copy" % rep, impl=_np(fa), ref=Fb[0])
                elif inverse and "A.roundtrip" not in bad:
                    ok, pa = _call(res, lambda: fa.parameters)
                    o = _fit(pa, (pd,)) if ok else None
                    res.evaluations += 1
                    if o is None or not close(o, PZ[:, 0], max(tol, 1e-9)):
                        report("A.roundtrip", "CUQIarray.parameters", "roundtrip" if ok else "raises", rep,
                               "CUQIarray(%s data).funvals.parameters does not return the parameters: %r" % (rep, pa))
        if inverse and "A.parameters" not in bad:
            ok, pa = _call(res, lambda: cuqi.array.CUQIarray(_rep(FZ[..., 0], rep), is_par=False, geometry=g).parameters)
            if not ok:
                if may_refuse:
                    res.refused += 1
                else:
                    report("A.parameters", "CUQIarray.parameters", "raises", rep, "CUQIarray.parameters raised on %s function "
                           "values: %r" % (rep, pa), extra=",from=fun")
            else:
                o = _fit(pa, (pd,))
                res.evaluations += 1
                if o is None or not close(o, Qb[0], tol):
                    report("A.parameters", "CUQIarray.parameters", "values", rep, "CUQIarray.parameters of %s function values "
                           "differs from fun2par of the float64 copy" % rep, extra=",from=fun", impl=_np(pa), ref=Qb[0])
        if not with_samples:
            continue
        # ---- Samples holding parameters ----------------------------------------------------------
        if "S.funvals" not in bad:
            X = [PZ[:, j].copy() for j in range(Ns)] if rep == "list" else _rep(PZ, rep)
            ok, Fs = _call(res, lambda: cuqi.samples.Samples(X, geometry=g).funvals)
            if not ok:
                if may_refuse:
                    res.refused += 1
                else:
                    report("S.funvals", "Samples.funvals", "raises", rep, "Samples.funvals raised on a %s sample array: %r" % (rep, Fs))
            else:
                o = _sarr(Fs)
                res.evaluations += 1
                if not _eq(o, wantF, tol):
                    report("S.funvals", "Samples.funvals", "values", rep, "Samples.funvals of a %s sample array differs from "
                           "the per-sample par2fun of the float64 copy" % rep, impl=o, ref=wantF)
                else:
                    res.outcomes.add("%s:Samples.funvals:%s->%s" % (cx.comp, rep, getattr(_np(Fs.samples), "dtype", None)))
                    if inverse and "S.roundtrip" not in bad:
                        ok, Ps = _call(res, lambda: Fs.parameters)
                        o = _sarr(Ps) if ok else None
                        res.evaluations += 1
                        if not _eq(o, PZ, max(tol, 1e-9)):
                            report("S.roundtrip", "Samples.parameters", "roundtrip" if ok else "raises", rep,
                                   "Samples(%s array).funvals.parameters does not return the parameter samples: %r" % (rep, Ps),
                                   ref=PZ)
                if rep != "list" and not _same_numbers(X, PZ):
                    report("S.source", "Samples", "source-altered", rep, "conversion changed the %s source samples" % rep)
        # ---- Samples holding function values ---------------------------------------------------------
        Y = [FZ[..., j].copy() for j in range(Ns)] if rep == "list" else _rep(FZ, rep)
        ok, Sf = _call(res, lambda: cuqi.samples.Samples(Y, geometry=g, is_par=False, is_vec=is1d))
        if not ok:
            if "S.construct" not in bad:
                report("S.construct", "Samples", "raises", rep, "Samples refused function-value samples: %r" % (Sf,))
            continue
        conv = []
        if inverse:
            conv.append(("parameters", np.stack(Qb, axis=-1)))
        if vshape is not None and len(Vb) == Ns:
            conv.append(("vector", np.stack(Vb, axis=-1)))
        conv.append(("funvals", FZ))
        for name, want in conv:
            key = "Sf." + name
            if key in bad:
                continue
            ok, R = _call(res, lambda: getattr(Sf, name))
            if not ok:
                if may_refuse:
                    res.refused += 1
                else:
                    report(key, "Samples." + name, "raises", rep, "Samples.%s raised on %s function-value samples: %r"
                           % (name, rep, R), extra=",from=fun")
                continue
            o = _sarr(R)
            res.evaluations += 1
            if not _eq(o, want, tol):
                report(key, "Samples." + name, "values", rep, "Samples.%s of %s function-value samples differs from the "
                       "per-sample map of the float64 copy" % (name, rep), extra=",from=fun", impl=o, ref=want)


# ----------------------------------------------------------------------------------------
# Samples / CUQIarray: all conversion words up to length 3
# ----------------------------------------------------------------------------------------
OPS = ("funvals", "vector", "parameters")
DEPTH = 3


def _samples_check(cx, g, k, inverse, pd, fshape, vshape, ref_f2v):
    """Reference model: a sample collection is in state par / fun (function values, not a matrix of vectors) / fv
    (function values as a matrix of column vectors).  Every word of <= DEPTH conversions is applied to parameter
    samples (sub-trees of a conversion that returns the object itself are already covered and pruned) and after
    every step the flags and the stored array are compared with the per-sample maps."""
    import cuqi
    res = cx.res
    Ns = 3
    is1d = len(fshape) == 1
    P = _batch(pd, k + 1, Ns)
    P0 = P.copy()
    ok, S = _call(res, lambda: cuqi.samples.Samples(P, geometry=g))
    if not ok:
        cx.fail("Samples", "raises", "Samples refused a parameter sample array: %r" % (S,))
        return
    percol = []
    for j in range(Ns):
        ok, f = _call(res, g.par2fun, P0[:, j].copy())
        f = _fit(f, fshape) if ok else None
        if f is None:
            return            # reported by the map-level checks
        percol.append(np.asarray(f, float))
    want = np.stack(percol, axis=-1)
    wantv = None
    if vshape is not None:
        vs = []
        for f in percol:
            if ref_f2v is not None:
                v = ref_f2v(f)
            else:
                ok, v = _call(res, g.fun2vec, f.copy())
                v = _fit(v, vshape) if ok else None
            if v is None:
                vs = None
                break
            vs.append(np.asarray(v, float).reshape(vshape))
        if vs is not None:
            wantv = np.stack(vs, axis=-1)
    fstate = "fv" if is1d else "fun"
    VALUE = {"par": P0, "fun": want, "fv": want if is1d else wantv}
    FLAGS = {"par": (True, True), "fun": (False, False), "fv": (False, True)}
    TOL = {"par": 1e-9, "fun": 1e-12, "fv": 1e-12}

    def model(state, op):
        """(state after op, may the conversion be refused)"""
        if op == "parameters":
            return "par", not inverse
        if op == "funvals":
            return fstate, False
        if state == "fun":
            return "fv", vshape is None     # no fun2vec offered (Continuous2D): refusal allowed
        return state, False

    def judge(obj, src, state, new, op, sub, label):
        """sub: slice of the sample axis kept by a preceding burnthin (None = all)."""
        res.evaluations += 1
        opname = "Samples." + op
        if obj is src and new == state:
            return True
        ok, fl = _call(res, lambda: (obj.is_par, obj.is_vec, obj.geometry is g, _sarr(obj)))
        if not ok:
            cx.fail(opname, "flags", "%s: the result is not a Samples object: %r" % (label, fl))
            return False
        if (fl[0], fl[1]) != FLAGS[new] or not fl[2]:
            cx.fail(opname, "flags,from=%s" % state, "%s gives is_par=%s is_vec=%s (expected %s) / geometry kept: %s"
                    % (label, fl[0], fl[1], FLAGS[new], fl[2]))
            return False
        val = VALUE[new]
        if val is None:
            return True                      # vector form without a reference: nothing to compare with
        if sub is not None:
            val = val[..., sub]
        if new == "par" and cx.map_broken:
            res.count("derived-relation-skipped-after-map-failure")
            return True
        a = fl[3]
        if a is None or a.shape != val.shape or not close(a, val, TOL[new]):
            what = "values" if sub is None else "values-after-burnthin"
            cx.fail(opname, "%s,from=%s" % (what, state), "%s differs from the per-sample %s of the kept samples (shape %s, expected %s)"
                    % (label, {"par": "fun2par", "fun": "par2fun / vec2fun", "fv": "fun2vec"}[new],
                       None if a is None else a.shape, val.shape), impl=a, ref=val)
            return False
        return True

    def walk(obj, state, depth, label, sub=None):
        res.state("samples-%s-d%d" % (state, depth))
        if depth == DEPTH:
            return
        for op in OPS:
            new, may_refuse = model(state, op)
            ok, out = _call(res, lambda: getattr(obj, op))
            lab = "%s.%s" % (label, op)
            if not ok:
                res.refused += 1
                res.outcomes.add("%s:Samples.%s-refused,from=%s" % (cx.comp, op, state))
                if not may_refuse:
                    cx.fail("Samples." + op, "raises,from=%s" % state, "%s raised: %r" % (lab, out))
                continue
            if not judge(out, obj, state, new, op, sub, lab):
                continue
            if out is obj:
                continue          # same object: its sub-tree is the one being explored
            walk(out, new, depth + 1, lab, sub)
            # the representation must survive the copy made by a (trivial and a real) burn-in / thinning
            if depth == 0 and op == "funvals":
                for (nb, nt) in ((0, 1), (1, 2)):
                    okb, Bt = _call(res, lambda: out.burnthin(nb, nt))
                    sl = slice(nb, None, nt)
                    lb = "%s.burnthin(%d,%d)" % (lab, nb, nt)
                    if okb and judge(Bt, None, new, new, "burnthin", sl, lb):
                        walk(Bt, new, DEPTH - 1, lb, sl)

    walk(S, "par", 0, "S")
    res.evaluations += 1
    if not np.array_equal(P, P0) or S.samples is not P:
        cx.fail("Samples", "source-altered", "conversion changed the source samples")


def _array_check(cx, g, k, inverse, pd, fshape, maxdepth):
    """CUQIarray: every word of <= DEPTH conversions over {funvals, parameters} from a parameter array."""
    import cuqi
    res = cx.res
    p = _batch(pd, k + 1, 1)[:, 0].copy()
    ok, f = _call(res, g.par2fun, p.copy())
    f = _fit(f, fshape) if ok else None
    if f is None:
        return
    ok, a = _call(res, lambda: cuqi.array.CUQIarray(p.copy(), geometry=g))
    if not ok:
        cx.fail("CUQIarray", "raises", "CUQIarray refused a parameter vector: %r" % (a,))
        return
    VALUE = {"par": (p, (pd,), 1e-9), "fun": (np.asarray(f, float), fshape, 1e-12)}

    def walk(obj, state, depth, label):
        res.state("array-%s-d%d" % (state, depth))
        if depth == maxdepth:
            return
        for op in ("funvals", "parameters"):
            new = "fun" if op == "funvals" else "par"
            ok, out = _call(res, lambda: getattr(obj, op))
            lab = "%s.%s" % (label, op)
            opname = "CUQIarray." + op
            if not ok:
                if not (op == "parameters" and not inverse):
                    cx.fail(opname, "raises,from=%s" % state, "%s raised: %r" % (lab, out))
                continue
            res.evaluations += 1
            flag = getattr(out, "is_par", None)
            if flag is not (new == "par") or getattr(out, "geometry", None) is not g:
                cx.fail(opname, "flags,from=%s" % state, "%s has is_par=%r / geometry kept: %s"
                        % (lab, flag, getattr(out, "geometry", None) is g))
                continue
            val, shape, tol = VALUE[new]
            if new == "par" and cx.map_broken:
                res.count("derived-relation-skipped-after-map-failure")
            else:
                o = _fit(out, shape)
                if o is None or not close(o, val, tol):
                    cx.fail(opname, "values,from=%s" % state, "%s differs from the %s of the source vector" %
                            (lab, "function values" if new == "fun" else "parameters"), impl=_np(out), ref=val)
                    continue
            walk(out, new, depth + 1, lab)

    walk(a, "par", 0, "a")
    res.evaluations += 1
    if not np.array_equal(np.asarray(a), p):
        cx.fail("CUQIarray", "source-altered", "conversion changed the source array")


# ----------------------------------------------------------------------------------------
# StepExpansion
# ----------------------------------------------------------------------------------------
def step_oracle(N, n):
    """Documented partition in exact rational arithmetic: (step of node k, node k on an interior boundary)."""
    step, onb = [], []
    for kk in range(N):
        if kk == 0:
            step.append(0)
            onb.append(False)
            continue
        t = Fraction(kk * n, N - 1)          # position of node k in units of the step length
        step.append(int(math.ceil(t)) - 1)    # (i, i+1] -> i
        onb.append(t.denominator == 1 and kk != N - 1)
    return step, onb


def step_exact_on_float_grid(grid, n):
    """The same interval membership evaluated in exact arithmetic on the given floating-point nodes."""
    G = [Fraction(float(v)) for v in grid]
    L = G[-1] - G[0]
    out = [0]
    for kk in range(1, len(G)):
        out.append(int(math.ceil((G[kk] - G[0]) * n / L)) - 1)
    return out


def _grid(cell):
    N, x0, L = cell["N"], cell["x0"], cell["L"]
    if cell["b"] == "int":
        return N
    if cell["b"] == "lin":
        return np.linspace(x0, x0 + L, N)
    if cell["b"] == "dy":
        return _dy(N, cell["gt"])
    return x0 + np.arange(N) * (L / (N - 1))


def _iterate(res, g, q, n, N):
    """par2fun(q), fun2par of it, par2fun again - or None when a map raises / returns a wrong size."""
    ok, f1 = _call(res, g.par2fun, q.copy())
    f1 = _fit(f1, (N,)) if ok else None
    if f1 is None:
        return None
    f1 = f1.astype(float)
    ok, q1 = _call(res, g.fun2par, f1.copy())
    q1 = _fit(q1, (n,)) if ok else None
    if q1 is None:
        return None
    q1 = q1.astype(float)
    ok, f2 = _call(res, g.par2fun, q1.copy())
    f2 = _fit(f2, (N,)) if ok else None
    if f2 is None:
        return None
    return f1, q1, f2.astype(float)


def eval_step(cell, res):
    from cuqi.geometry import StepExpansion
    N, n, k, nv = cell["N"], cell["n"], cell["cat"], cell["nv"]
    ideal, onb = step_oracle(N, n)
    assert sorted(set(ideal)) == list(range(n)), "harness self-check: documented partition has an empty step"
    grid = _grid(cell)
    # option facet: representation of the grid size / of n_steps, spelling of the projection name (the canonical
    # configuration - python ints, lower case - is the integer-grid cell of the main product)
    opt = bool(_opts(cell))
    grep, nrep, pcase = _opt(cell, "grep"), _opt(cell, "nrep"), _opt(cell, "pcase")
    if opt:
        grid = _grid_rep(N, grep)
        res.state("step-opt:%s/%s/%s" % (grep, nrep, pcase))
    # canonical grids carrying the representation / vector-form / long-word facets (for all three projections)
    full = (cell["b"] == "int" or (cell["x0"], cell["L"]) == (0.1, 0.7)) and not opt
    first = True
    for proj in PROJS:
        cx = Ctx(res, "StepExpansion", facet=_gtf(cell), lenient=_lenient(cell))
        res.transitions += 1
        try:
            g = StepExpansion(grid, n_steps=IREP[nrep](n), fun2par_projection=_case(proj, pcase))
        except Exception as e:
            res.refused += 1
            cx.fail("construct", "refused", "admissible regular grid (N=%d >= n_steps=%d) refused: %r" % (N, n, e))
            return
        res.state("step-" + proj)
        ok, fgrid = _call(res, lambda: np.asarray(g.grid, float))
        if not ok or fgrid.shape != (N,):
            cx.fail("grid", "raises", "the geometry does not report its %d-node grid: %r" % (N, fgrid))
            return
        cx.shape("par_shape", g.par_shape, (n,))
        cx.shape("fun_shape", g.fun_shape, (N,))
        # ---- observed partition through par2fun(e_i) -----------------------------------------
        cols = []
        for i in range(n):
            ok, c = _call(res, g.par2fun, np.eye(n)[:, i].copy())
            if not ok:
                cx.fail("par2fun", "raises", "par2fun(e_%d) raised %r" % (i, c))
                return
            c = _fit(c, (N,))
            if c is None:
                cx.fail("par2fun", "shape", "par2fun(e_i) does not have one entry for each of the %d nodes" % N)
                return
            cols.append(c.astype(float))
        M = np.array(cols)                      # n x N
        res.evaluations += 1
        if not np.all((M == 0) | (M == 1)):
            cx.fail("par2fun", "basis-not-indicator", "par2fun(e_i) is not a 0/1 indicator", M=M)
            return
        cnt = M.sum(axis=0)
        obs = [int(np.argmax(M[:, kk])) if cnt[kk] >= 1 else -1 for kk in range(N)]
        exactf = step_exact_on_float_grid(fgrid, n)
        valid = True
        accepted_up = 0
        causes = set()
        for kk in range(N):
            res.evaluations += 1
            if cnt[kk] == 0:
                valid = False
                if kk == N - 1:
                    causes.add("last")
                    cx.fail("partition", "last-node-in-no-step",
                            "the last grid node receives no parameter (par2fun(1) is 0 there%s); documented step %d"
                            % ("; the last step is empty so fun2par(par2fun(p)) is NaN" if n - 1 not in obs else "", ideal[kk]),
                            N=N, n=n, grid=fgrid, observed=obs, documented=ideal)
                else:
                    cx.fail("partition", "node-in-no-step", "grid node %d receives no parameter" % kk,
                            observed=obs, documented=ideal)
            elif cnt[kk] > 1:
                valid = False
                cx.fail("partition", "node-in-several-steps", "grid node %d receives %d parameters" % (kk, int(cnt[kk])),
                        observed=M[:, kk], documented=ideal)
            elif obs[kk] != ideal[kk]:
                if onb[kk] and obs[kk] == ideal[kk] + 1:
                    if exactf[kk] == obs[kk]:
                        accepted_up += 1          # the float node really lies above the boundary: accepted reading
                    else:
                        causes.add("interior")
                        cx.fail("partition", "interior-boundary-node-rounded-into-next-step",
                                "node %d lies on the boundary of steps %d|%d (documented: lower step; exact arithmetic on "
                                "the float grid: step %d) but is assigned to step %d" % (kk, ideal[kk], ideal[kk] + 1,
                                                                                        exactf[kk], obs[kk]),
                                N=N, n=n, grid=fgrid, observed=obs, documented=ideal)
                else:
                    cx.fail("partition", "node-in-wrong-step", "node %d is in step %d, documented step %d"
                            % (kk, obs[kk], ideal[kk]), observed=obs, documented=ideal)
        if accepted_up:
            res.count("boundary-node-in-upper-step-accepted", accepted_up)
        empty = [i for i in range(n) if i not in obs]
        if empty:
            valid = False
            unexplained = [i for i in empty if not ("last" in causes and i == n - 1)]
            if unexplained:
                cx.fail("roundtrip", "step-without-node",
                        "step(s) %s contain no grid node although N=%d >= n_steps=%d (boundary nodes were rounded into the "
                        "next step): par2fun drops the parameter and fun2par returns NaN" % (unexplained, N, n),
                        N=N, n=n, grid=fgrid, observed=obs, documented=ideal)
        if first:
            res.outcomes.add("step-partition:" + "".join("%x" % min(o, 15) if o >= 0 else "-" for o in obs)[:16])
            res.outcomes.add("step-deviation:%s" % (sorted(causes) + (["accepted-up"] if accepted_up else []) +
                                                    (["empty"] if empty else [])))
        if not valid:
            res.count("partition-invalid")
            # column-wise action can still be judged
            for ncol in (2, 3):
                B = _batch(n, k, ncol)
                cs = [_call(res, g.par2fun, B[:, j].copy()) for j in range(ncol)]
                cs = [_fit(c, (N,)) if okc else None for okc, c in cs]
                if any(c is None for c in cs):
                    cx.fail("par2fun", "raises", "par2fun raised / returned a wrong size on a valid parameter vector")
                    break
                _batch_check(cx, g.par2fun, "par2fun", B, cs, (N,), ncol)
            first = False
            continue
        part = [[kk for kk in range(N) if obs[kk] == i] for i in range(n)]

        def ref_p2f(p, obs=obs):
            return np.array([p[obs[kk]] for kk in range(N)], float)

        # generic relations (round trip, shapes, batches, Samples, CUQIarray) with the observed partition
        generic(cx, g, k, nv, inverse=True, ref_par2fun=ref_p2f, samples=full or first or proj == "max", full=full)
        # ---- fun2par is the documented projection; par2fun o fun2par is idempotent ----------------
        red = {"mean": np.mean, "max": np.max, "min": np.min}[proj]
        fvecs = [np.eye(N)[:, i].copy() for i in range(N)] + [refs.dyadic_vec(N, k + 3 * j) for j in range(nv)]
        for f in fvecs:
            ok, q = _call(res, g.fun2par, f.copy())
            if not ok:
                cx.fail("fun2par", "raises", "fun2par raised on a function vector: %r" % (q,))
                break
            q = _fit(q, (n,))
            ref = np.array([red(f[part[i]]) for i in range(n)])
            res.evaluations += 1
            if q is None or not close(q, ref, 1e-12):
                cx.fail("fun2par", "projection,proj=%s" % proj, "fun2par(f) is not the %s over the nodes of each step" % proj,
                        f=f, impl=q, ref=ref)
                break
            it = _iterate(res, g, q.astype(float), n, N)
            if it is None:
                cx.fail("projection", "raises", "par2fun/fun2par raised / returned a wrong size while iterating the projection")
                break
            f1, q1, f2 = it
            res.evaluations += 1
            if not close(f2, f1, 1e-12) or not close(q1, q, 1e-12):
                cx.fail("projection", "not-idempotent,proj=%s" % proj, "par2fun(fun2par(.)) applied twice changes the result",
                        f=f, once=f1, twice=f2)
                break
        first = False
    if res.sample is None:
        res.sample = {"grid": fgrid, "documented_partition": ideal, "observed_partition": obs}


# ----------------------------------------------------------------------------------------
# KLExpansion
# ----------------------------------------------------------------------------------------
def kl_matrix(N, m, decay, tau):
    """Documented series: column i is the function of the i-th unit coefficient vector."""
    B = np.zeros((N, m))
    for i in range(m):
        for K in range(N):
            if i <= N - 2:
                B[K, i] = math.sin(math.pi / N * (i + 1) * (K + 0.5)) / ((i + 1) ** decay * tau)
            else:
                B[K, i] = 0.5 * (-1) ** K / (N ** decay * tau)
    return B


def eval_kl(cell, res):
    from cuqi.geometry import KLExpansion
    N, m, decay, tau, k, nv = cell["N"], cell["m"], cell["decay"], cell["tau"], cell["cat"], cell["nv"]
    cx = Ctx(res, "KLExpansion", facet=_gtf(cell), lenient=_lenient(cell))
    grid = np.linspace(0, 1, N) if N > 1 else np.array([0.5])
    if "gt" in cell:
        grid = _dy(N, cell["gt"])
        res.state("kl-grid-transformed")
    # option facet: representation of the grid (the series does not depend on the node positions), of num_modes and
    # of the numeric options; decay / tau / m stay the python values used by the reference
    grep, mrep, numrep = _opt(cell, "grep"), _opt(cell, "mrep"), _opt(cell, "numrep")
    if grep != "array":
        grid = _grid_rep(N, grep)
    if "grep" in cell:
        res.state("kl-opt:%s/%s/%s" % (grep, mrep, numrep))
    res.transitions += 1
    try:
        g = KLExpansion(grid, decay_rate=NUMREP[numrep](decay), normalizer=NUMREP[numrep](tau),
                        num_modes=None if m is None else IREP[mrep](m))
    except Exception as e:
        res.refused += 1
        cx.fail("construct", "refused", "KLExpansion refused a documented configuration: %r" % (e,))
        return
    meff = N if (m is None or m > N) else m
    res.state("kl")
    cx.shape("par_shape", g.par_shape, (meff,))
    cx.shape("fun_shape", g.fun_shape, (N,))
    B = kl_matrix(N, meff, decay, tau)
    generic(cx, g, k, nv, inverse=True, ref_par2fun=lambda p: B @ p)
    # projection: par2fun o fun2par idempotent on the complete function basis + generic
    fvecs = [np.eye(N)[:, i].copy() for i in range(N)] + [refs.dyadic_vec(N, k + 3 * j) for j in range(nv)]
    if cx.map_broken:
        fvecs = []
    for f in fvecs:
        ok, q = _call(res, g.fun2par, f.copy())
        if not ok:
            cx.fail("fun2par", "raises", "fun2par raised on a function vector: %r" % (q,))
            break
        q = _fit(q, (meff,))
        if q is None:
            cx.fail("fun2par", "shape", "fun2par did not return one coefficient for each of the %d modes" % meff)
            break
        q = q.astype(float)
        it = _iterate(res, g, q, meff, N)
        if it is None:
            cx.fail("projection", "raises", "par2fun/fun2par raised / returned a wrong size while iterating the projection")
            break
        f1, q1, f2 = it
        res.evaluations += 1
        if not close(f2, f1, 1e-9) or not close(q1, q, 1e-9):
            cx.fail("projection", "not-idempotent", "par2fun(fun2par(.)) applied twice changes the result", f=f, once=f1, twice=f2)
            break
        if meff == N and not close(f1, f, 1e-9):
            cx.fail("roundtrip", "par2fun(fun2par(f))!=f,all-modes", "with all modes the expansion must reproduce f", f=f, back=f1)
            break
    # cached scalings are keyed by the mode count: re-gridding must give the maps of a fresh geometry
    N2 = N + 2
    try:
        g.grid = np.linspace(0, 1, N2)
    except Exception as e:   # re-gridding itself may be refused
        res.refused += 1
        res.outcomes.add("kl-regrid-refused:" + type(e).__name__)
        g = None
    if g is not None and not cx.map_broken:
        m2 = N2 if (m is None or m > N2) else m
        p = refs.dyadic_vec(m2, k)
        B2 = kl_matrix(N2, m2, decay, tau)
        res.state("kl-regridded")
        ok, a = _call(res, g.par2fun, p.copy())
        okq, qa = _call(res, g.fun2par, (B2 @ p).copy())
        res.evaluations += 1
        if not ok or not okq:
            cx.fail("regrid", "maps-raise-after-new-grid", "after assigning a new grid (documented use) the maps raise: %r"
                    % ((a if not ok else qa),))
        elif _call(res, lambda: g.par_dim)[1] != m2 or np.asarray(a).size != N2 or not close(np.asarray(a).reshape(-1), B2 @ p, 1e-9) \
                or np.asarray(qa).size != m2 or not close(np.asarray(qa).reshape(-1), p, 1e-9):
            cx.fail("regrid", "stale-cached-scalings", "after assigning a new grid the maps differ from the documented "
                    "series of the new grid", impl=a, ref=B2 @ p, back=qa)
    res.outcomes.add("kl:N=%d,m=%d" % (N, meff))
    res.sample = {"N": N, "modes": meff, "documented_first_column": B[:, 0]}


# ----------------------------------------------------------------------------------------
# 2-D geometries, Discrete, Mapped, defaults
# ----------------------------------------------------------------------------------------
def eval_c2d(cell, res):
    from cuqi.geometry import Continuous2D
    n1, n2, k, nv = cell["n1"], cell["n2"], cell["cat"], cell["nv"]
    cx = Ctx(res, "Continuous2D", facet=_gtf(cell), lenient=_lenient(cell))
    grid = (n1, n2) if cell["grid"] == "int" else (0.1 + 0.7 * np.arange(n1), list(-0.3 + 0.25 * np.arange(n2)))
    if cell["grid"] == "dy":
        grid = (_dy(n1, cell["gt"]), list(_dy(n2, cell["gt"])))
        res.state("c2d-grid-transformed")
    g2 = _opt(cell, "g2rep")          # option facet: representation of the pair of grid sizes
    if g2 != "int":
        res.state("c2d-opt:" + g2)
        grid = {"np.int64": (np.int64(n1), np.int64(n2)), "tuple1": ((n1,), (np.int64(n2),)), "list2": [n1, n2],
                "intarray": (np.arange(n1, dtype=np.int64), np.arange(n2, dtype=np.int32)),
                "mixed": (n1, np.arange(n2, dtype=float)), "float": (float(n1), float(n2))}[g2]
    g = _construct(cx, Continuous2D, grid)
    if g is None:
        return
    res.state("c2d")
    cx.shape("par_shape", g.par_shape, (n1 * n2,))
    cx.shape("fun_shape", g.fun_shape, (n1, n2))
    F = generic(cx, g, k, nv, inverse=True, has_vec=True)
    if F is not None:
        _bijection(cx, F[:n1 * n2], n1 * n2)
    res.sample = {"fun_shape": g.fun_shape}


def _bijection(cx, Fbasis, dim):
    """Every node / pixel receives exactly one parameter's contribution."""
    M = np.array([np.asarray(f, float).reshape(-1) for f in Fbasis])   # dim x nodes
    cx.res.evaluations += 1
    if M.shape != (dim, dim) or not np.all((M == 0) | (M == 1)) or not np.all(M.sum(0) == 1) or not np.all(M.sum(1) == 1):
        cx.fail("par2fun", "not-a-bijection", "par2fun(e_i) does not put each parameter on exactly one node", M=M)


def _img_f2v(r, c, order, vo):
    """Reference vector form of an image: the documented row-major / column-major enumeration of the pixels
    (a visual-only image IS its vector: None = identity)."""
    if vo:
        return None

    def f2v(f):
        out = np.zeros(r * c)
        for a in range(r):
            for b in range(c):
                out[a * c + b if order == "C" else a + r * b] = f[a, b]
        return out
    return f2v


def _construct(cx, cls, *a, **kw):
    ok, g = _call(cx.res, cls, *a, **kw)
    if not ok:
        cx.res.refused += 1
        cx.fail("construct", "refused", "%s refused a documented configuration: %r" % (cls.__name__, g))
        return None
    return g


def eval_img(cell, res):
    from cuqi.geometry import Image2D
    r, c, order, vo, k, nv = cell["r"], cell["c"], cell["order"], cell["vo"], cell["cat"], cell["nv"]
    # option facet: spelling of the order string, representation of the shape entries and of the visual_only flag;
    # `order` / `vo` stay the documented (case-insensitive / truth-value) MEANING used by the reference
    ocase, srep, vrep = _opt(cell, "ocase"), _opt(cell, "srep"), _opt(cell, "vrep")
    cx = Ctx(res, "Image2D", "order=%s,visual_only=%s" % (order, vo), lenient=_lenient(cell))
    g = _construct(cx, Image2D, _shape_rep((r, c), srep), order=_case(order, ocase), visual_only=_bool_rep(vo, vrep))
    if g is None:
        return
    res.state("img")
    res.state("img-opt:%s/%s/%s" % (ocase, srep, vrep))
    ok, shp = _call(res, lambda: (tuple(g.par_shape), tuple(g.fun_shape)))
    if not ok:
        cx.fail("dims", "raises", "the geometry cannot report its shapes: %r" % (shp,))
        return
    cx.shape("par_shape", shp[0], (r * c,))
    cx.shape("fun_shape", shp[1], (r * c,) if vo else (r, c))

    def ref(p):
        if vo:
            return np.array(p, float)
        out = np.zeros((r, c))
        for a in range(r):
            for b in range(c):
                out[a, b] = p[a * c + b] if order == "C" else p[a + r * b]
        return out
    F = generic(cx, g, k, nv, inverse=True, ref_par2fun=ref, has_vec=True, ref_fun2vec=_img_f2v(r, c, order, vo))
    if F is not None:
        _bijection(cx, F[:r * c], r * c)
    res.sample = {"fun_shape": g.fun_shape, "order": _case(order, ocase)}


def eval_disc(cell, res):
    from cuqi.geometry import Discrete
    n, k, nv = cell["n"], cell["cat"], cell["nv"]
    cx = Ctx(res, "Discrete", lenient=_lenient(cell))
    vrep = _opt(cell, "vrep")         # option facet: representation of the number / names of the variables
    if vrep != "py":
        res.state("disc-opt:" + vrep)
    arg = ["name%d" % i for i in range(n)] if cell["named"] else n
    if vrep == "np.str_":
        arg = [np.str_(v) for v in arg]
    elif vrep in IREP:
        arg = IREP[vrep](n)
    g = _construct(cx, Discrete, arg)
    if g is None:
        return
    res.state("disc")
    cx.shape("par_shape", g.par_shape, (n,))
    cx.shape("fun_shape", g.fun_shape, (n,))
    generic(cx, g, k, nv, inverse=True, ref_par2fun=lambda p: np.array(p, float))


def _mapped_base(name):
    from cuqi.geometry import Continuous1D, Continuous2D, Image2D, StepExpansion, KLExpansion, Discrete
    if name == "disc":
        return Discrete(4), None
    if name == "imgCvo":
        return Image2D((3, 2), order="C", visual_only=True), None
    if name == "imgFvo":
        return Image2D((2, 3), order="F", visual_only=True), None
    if name == "c1d":
        return Continuous1D(np.linspace(0, 1, 5)), None
    if name == "c2d":
        return Continuous2D((2, 3)), None
    if name == "imgC":
        return Image2D((3, 2), order="C"), None
    if name == "imgF":
        return Image2D((2, 3), order="F"), None
    if name == "imgc":
        return Image2D((3, 2), order="c"), None
    if name == "imgf":
        return Image2D((2, 3), order="f"), None
    if name == "step":
        return StepExpansion(np.linspace(0, 1, 7), n_steps=2), [0, 0, 0, 0, 1, 1, 1]
    if name == "kl":
        return KLExpansion(np.linspace(0, 1, 6), num_modes=4), None
    raise ValueError(name)


def eval_mapped(cell, res):
    from cuqi.geometry import MappedGeometry
    k, nv = cell["cat"], cell["nv"]
    cx = Ctx(res, "MappedGeometry", "base=%s" % cell["base"])
    ok, base = _call(res, lambda: _mapped_base(cell["base"])[0])
    if not ok:
        cx.fail("construct", "refused", "the wrapped geometry refused a documented configuration: %r" % (base,))
        return
    if cell["map"] == "affine":
        fmap, imap = (lambda x: 2.0 * np.asarray(x) + 1.0), (lambda f: (np.asarray(f) - 1.0) / 2.0)
    elif cell["map"] == "quarter":
        fmap, imap = (lambda x: np.asarray(x) / 4), (lambda f: np.asarray(f) * 4)
    else:
        fmap, imap = (lambda x: np.exp(x)), (lambda f: np.log(f))
    g = _construct(cx, MappedGeometry, base, map=fmap, imap=imap)
    if g is None:
        return
    res.state("mapped")
    base2, _ = _mapped_base(cell["base"])

    def ref(p):
        return fmap(np.asarray(base2.par2fun(np.array(p, float)), float))
    cx.shape("par_shape", g.par_shape, base2.par_shape)
    has_vec = cell["base"] != "c2d"
    f2v = {"imgC": _img_f2v(3, 2, "C", False), "imgF": _img_f2v(2, 3, "F", False),
           "imgc": _img_f2v(3, 2, "C", False), "imgf": _img_f2v(2, 3, "F", False)}.get(cell["base"])
    generic(cx, g, k, nv, inverse=True, ref_par2fun=ref, has_vec=has_vec, ref_fun2vec=f2v)
    # without an inverse map fun2par must refuse, not return something
    g0 = _construct(cx, MappedGeometry, base, map=fmap)
    if g0 is None:
        return
    ok, out = _call(res, lambda: g0.fun2par(np.ones(g.fun_shape)))
    if ok:
        cx.fail("fun2par", "no-imap-returns", "fun2par without an inverse map returned a value")
    else:
        res.refused += 1


def eval_default(cell, res):
    import cuqi
    from cuqi.geometry import Continuous1D, _DefaultGeometry1D, _DefaultGeometry2D
    k, nv, kind = cell["cat"], cell["nv"], cell["kind"]
    if kind == "default2d":
        r, c = cell["r"], cell["c"]
        vo, srep = cell.get("vo", False), _opt(cell, "srep")
        cx = Ctx(res, "_DefaultGeometry2D", "visual_only=True" if vo else "", lenient=_lenient(cell))
        if "vo" in cell:
            g = _construct(cx, _DefaultGeometry2D, _shape_rep((r, c), srep), visual_only=vo)
            res.state("default2d-opt:%s/%s" % (srep, vo))
        else:
            g = _construct(cx, _DefaultGeometry2D, (r, c))
        if g is None:
            return
        res.state("default2d")
        cx.shape("fun_shape", g.fun_shape, (r * c,) if vo else (r, c))

        def ref(p):
            if vo:
                return np.array(p, float)
            return np.array([[p[a * c + b] for b in range(c)] for a in range(r)], float)
        generic(cx, g, k, nv, inverse=True, ref_par2fun=ref, ref_fun2vec=_img_f2v(r, c, "C", vo))
        return
    n = cell["n"]
    ident = lambda p: np.array(p, float)  # noqa
    irep = _opt(cell, "irep")          # option facet: representation of the grid size
    if irep != "int":
        res.state("default-opt:" + irep)
    if kind == "default1d":
        cx = Ctx(res, "_DefaultGeometry1D", lenient=_lenient(cell))
        g = _construct(cx, _DefaultGeometry1D, _grid_rep(n, irep))
    elif kind == "c1d-int":
        cx = Ctx(res, "Continuous1D", lenient=_lenient(cell))
        g = _construct(cx, Continuous1D, _grid_rep(n, irep))
    elif kind == "c1d-tuple":
        cx = Ctx(res, "Continuous1D")
        g = _construct(cx, Continuous1D, (n,))
    elif kind == "c1d-list":
        cx = Ctx(res, "Continuous1D")
        g = _construct(cx, Continuous1D, [0.5 * i - 1 for i in range(n)])
    elif kind == "c1d-dy":
        cx = Ctx(res, "Continuous1D", facet=GT_FACET)
        g = _construct(cx, Continuous1D, _dy(n, cell["gt"]))
    elif kind == "samples-default":
        cx = Ctx(res, "Samples-default-geometry")
        ok, g = _call(res, lambda: cuqi.samples.Samples(_batch(n, k, 3)).geometry)
        if not ok:
            cx.fail("construct", "refused", "Samples without a geometry does not provide the default one: %r" % (g,))
            g = None
    else:
        cx = Ctx(res, "CUQIarray-default-geometry")
        ok, g = _call(res, lambda: cuqi.array.CUQIarray(refs.dyadic_vec(n, k)).geometry)
        if not ok:
            cx.fail("construct", "refused", "CUQIarray without a geometry does not provide the default one: %r" % (g,))
            g = None
    if g is None:
        return
    res.state(kind)
    cx.shape("par_shape", g.par_shape, (n,))
    cx.shape("fun_shape", g.fun_shape, (n,))
    if kind.startswith("c1d") or kind == "default1d":
        want = np.arange(n, dtype=float) if kind != "c1d-list" else np.array([0.5 * i - 1 for i in range(n)])
        if kind == "c1d-dy":
            want = _dy(n, cell["gt"])
        res.evaluations += 1
        if not close(np.asarray(g.grid, float), want, 1e-15):
            cx.fail("grid", "default-grid", "grid %s is not the documented default %s" % (g.grid, want))
    generic(cx, g, k, nv, inverse=True, ref_par2fun=ident)


FAMS = {"step": eval_step, "kl": eval_kl, "c2d": eval_c2d, "img": eval_img, "disc": eval_disc,
        "mapped": eval_mapped, "default": eval_default}


COMP = {"step": "StepExpansion", "kl": "KLExpansion", "c2d": "Continuous2D", "img": "Image2D", "disc": "Discrete",
        "mapped": "MappedGeometry", "default": "default-geometry"}


def _library_frame(tb):
    """Name of the innermost library function of a traceback if the exception was raised below library code that
    the harness called (no harness frame further in), else None."""
    import cuqi
    lib = os.path.dirname(os.path.abspath(cuqi.__file__)) + os.sep
    here = os.path.dirname(os.path.abspath(__file__)) + os.sep
    last_lib = last_harness = None
    i = 0
    while tb is not None:
        fn = os.path.abspath(tb.tb_frame.f_code.co_filename)
        if fn.startswith(lib):
            last_lib = (i, tb.tb_frame.f_code.co_name)
        elif fn.startswith(here) or (os.sep + "vfw" + os.sep) in fn:
            last_harness = i
        i += 1
        tb = tb.tb_next
    if last_lib is not None and (last_harness is None or last_lib[0] > last_harness):
        return last_lib[1]
    return None


def _run(cell):
    res = CellResult(cell)
    try:
        FAMS[cell["fam"]](cell, res)
    except Exception as e:  # noqa
        # safety net: every library call above is guarded individually; should one be reached unguarded, a raise of
        # the LIBRARY (geometry attribute access, conversions ...) on admissible input is a verdict, not a harness
        # error.  Exceptions raised by harness code itself propagate (exit 2).
        where = _library_frame(e.__traceback__)
        if where is None:
            raise
        if _lenient(cell):
            res.refused += 1          # optional representation of an option: any raise of the library is a refusal
            res.count("optional-representation-refused")
        else:
            res.fail("C13|%s|raises|in=%s" % (COMP[cell["fam"]], where),
                     "the library raised on admissible input where the statement allows no refusal: %r" % (e,))
    return res


OPT_NAME = {"ocase": "order_spelling", "srep": "shape_as", "vrep": "flag_as", "grep": "grid_as", "nrep": "n_steps_as",
            "pcase": "projection_spelling", "mrep": "num_modes_as", "numrep": "numbers_as", "g2rep": "grid_as",
            "irep": "grid_as"}


def _attribute(cell, res):
    """Violations of a cell with non-canonical option facets are signed with the MINIMAL subset of these facets that
    still shows them: the sub-configurations (subsets in order of size, the canonical configuration first) are
    re-evaluated on scratch results.  A violation that the canonical configuration shows as well keeps the canonical
    signature; one defect tied to one facet gets one signature whatever the other facets are."""
    opts = _opts(cell)
    if not opts or not res.failures:
        return
    keys = sorted(opts)
    want = set(f["signature"] for f in res.failures)
    found = {}
    for size in range(len(keys)):
        for sub in itertools.combinations(keys, size):
            if all(sig in found for sig in want):
                break
            c2 = {kk: v for kk, v in cell.items() if kk not in keys or kk in sub}
            for f in _run(c2).failures:
                if f["signature"] in want and f["signature"] not in found:
                    found[f["signature"]] = sub
    for f in res.failures:
        sub = found.get(f["signature"], tuple(keys))
        if sub:
            f["signature"] += "," + ",".join("%s=%s" % (OPT_NAME[kk], opts[kk]) for kk in sub)
            res.count("violation-attributed-to-option-facet")


def eval_cell(cell):
    import cuqi  # noqa: imports the tree selected by VERIF_REPO
    res = _run(cell)
    _attribute(cell, res)
    if res.transitions == 0:
        res.nontrivial = False
    return res
