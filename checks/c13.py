"""C13 - geometry maps are mutually inverse and act column-wise on batches.

E3 configuration explorer.  Every cell is one geometry configuration; inside the cell the maps are
applied to the *complete* parameter basis, a generic (dyadic) vector, the complete function basis (for
the projections) and batches of 1, 2 and 3 columns, and compared with a reference written here:

* StepExpansion: the documented partition of the grid nodes into steps, computed in exact rational
  arithmetic (fractions.Fraction) from (N, n_steps): node k of a regular N-node grid lies in step
  ceil(k*n/(N-1)) - 1 (k = 0 -> step 0).  The partition of the implementation is observed through
  par2fun(e_i) (black box), never through its private index lists.
* KLExpansion: the dense matrix of the documented sine-series formula.
* Image2D: the documented row-major / column-major index formula; Continuous2D: a bijection
  parameters <-> nodes.
* projections (fun2par of step expansions): mean / max / min over the nodes of a step.
"""
import math
from fractions import Fraction

import numpy as np

from vfw.core import CellResult, close
from vfw import refs

PROPERTY = "C13"
RULE = ("cells = full product of geometry configurations inside the bound (StepExpansion: N x n_steps x offset x "
        "length x grid-builder, all 3 projections inside the cell; KLExpansion: N x num_modes x decay x normaliser; "
        "Continuous2D / Image2D: shape x order x visual_only x grid kind; Discrete; MappedGeometry with inverse; "
        "default geometries).  Each cell applies par2fun/fun2par/fun2vec/vec2fun to the complete parameter basis "
        "+ a generic vector + the complete function basis and to batches of 1,2,3 columns, and converts Samples / "
        "CUQIarray through all representations; a cell is non-trivial when the geometry was constructed and at "
        "least one map was evaluated on the whole basis")
BOUND = {
    "quick": "StepExpansion N=2..12, n_steps=1..N, offsets {0,0.1,1,-0.3,1e3}, lengths {1,0.7,3,0.1,pi}, builders "
             "{linspace, x0+h*arange} + integer grids, projections {mean,max,min}; KLExpansion N=1..10, num_modes "
             "{None,1..N+1}, decay {2.5,1.5}, normaliser {12,1}; Continuous2D {1..4}^2 x {int grid, array grid}; "
             "Image2D {1..4}^2 x {C,F} x visual_only; Discrete 1..6 (+named); Mapped over 6 bases x 2 maps; defaults "
             "1..6 / {1..3}^2; inputs = basis + 1 dyadic vector, batches of 1,2,3 columns",
    "thorough": "same with StepExpansion N=2..24, KLExpansion N=1..16, Continuous2D/Image2D {1..5}^2, 3 dyadic "
                "vectors per cell",
}
ASSUMPTIONS = [
    "a grid node that coincides (in rational arithmetic) with an interior step boundary is accepted in the lower "
    "step (documented, ideal regular grid) or in the upper step if exact real arithmetic on the given "
    "floating-point grid puts it there - provided no step is left without a node",
    "a batch with ONE column may come back squeezed (documented in the code comments); batches of stacked "
    "multi-dimensional function values (not matrices of column vectors) are executed but not judged",
    "a map that raises on a batch is accepted (raises, or equals the per-column result)",
    "geometries without fun2vec (Continuous2D) may refuse the vector form",
    "fractions / numpy reshape with explicit index loops are the trusted base of the reference",
]

OFFSETS = [0.0, 0.1, 1.0, -0.3, 1e3]
LENGTHS = [1.0, 0.7, 3.0, 0.1, math.pi]
PROJS = ["mean", "max", "min"]


# ----------------------------------------------------------------------------------------
# enumeration
# ----------------------------------------------------------------------------------------
def cells(tier, seed):
    k = refs.cat(seed)
    nv = 1 if tier == "quick" else 3
    nmax_step = 12 if tier == "quick" else 24
    nmax_kl = 10 if tier == "quick" else 16
    smax = 4 if tier == "quick" else 5
    for N in range(2, nmax_step + 1):
        for n in range(1, N + 1):
            yield {"fam": "step", "N": N, "n": n, "x0": 0.0, "L": float(N - 1), "b": "int", "cat": k, "nv": nv}
            for x0 in OFFSETS:
                for L in LENGTHS:
                    for b in ("lin", "ar"):
                        yield {"fam": "step", "N": N, "n": n, "x0": x0, "L": L, "b": b, "cat": k, "nv": nv}
    for N in range(1, nmax_kl + 1):
        for m in [None] + list(range(1, N + 2)):
            for decay in (2.5, 1.5):
                for tau in (12.0, 1.0):
                    yield {"fam": "kl", "N": N, "m": m, "decay": decay, "tau": tau, "cat": k, "nv": nv}
    for n1 in range(1, smax + 1):
        for n2 in range(1, smax + 1):
            for gk in ("int", "arr"):
                yield {"fam": "c2d", "n1": n1, "n2": n2, "grid": gk, "cat": k, "nv": nv}
            for order in ("C", "F"):
                for vo in (False, True):
                    yield {"fam": "img", "r": n1, "c": n2, "order": order, "vo": vo, "cat": k, "nv": nv}
    for n in range(1, 7):
        for named in (False, True):
            yield {"fam": "disc", "n": n, "named": named, "cat": k, "nv": nv}
    for base in ("c1d", "c2d", "imgC", "imgF", "step", "kl"):
        for mp in ("affine", "exp"):
            yield {"fam": "mapped", "base": base, "map": mp, "cat": k, "nv": nv}
    for n in range(1, 7):
        for kind in ("default1d", "c1d-int", "c1d-tuple", "c1d-list", "samples-default", "array-default"):
            yield {"fam": "default", "kind": kind, "n": n, "cat": k, "nv": nv}
    for r in range(1, 4):
        for c in range(1, 4):
            yield {"fam": "default", "kind": "default2d", "r": r, "c": c, "cat": k, "nv": nv}


# ----------------------------------------------------------------------------------------
# small helpers
# ----------------------------------------------------------------------------------------
def _arr(x):
    return np.asarray(x, dtype=float)


def _sq(shape):
    return tuple(s for s in shape if s != 1)


class Ctx:
    """Per-cell bookkeeping: component name, facet string, and de-duplicated failures."""

    def __init__(self, res, comp, facet=""):
        self.res, self.comp, self.facet = res, comp, facet
        self._seen = set()
        self.map_broken = False   # a map-level relation failed: derived relations are not flagged again

    def fail(self, op, what, msg, **detail):
        sig = "C13|%s|%s|%s" % (self.comp, op, what if not self.facet else "%s,%s" % (what, self.facet))
        if what == "shape-singleton-squeezed" or (what == "raises" and getattr(self, "squeezed", False)):
            # one defect (maps squeeze away genuine length-1 axes) whatever map shows it and whatever downstream
            # conversion then refuses the wrongly shaped array
            sig = "C13|%s|singleton-axis|squeezed" % self.comp
            msg = "[%s] %s" % (op, msg)
        if sig in self._seen:
            return
        self._seen.add(sig)
        self.res.fail(sig, msg, **detail)

    def shape(self, op, got, want, batch=False):
        """Compare a produced shape with the reported one; classify pure singleton squeezes."""
        got, want = tuple(got), tuple(want)
        self.res.evaluations += 1
        if got == want:
            return True
        if _sq(got) == _sq(want):
            self.res.count("singleton-squeezed")
            self.squeezed = True
            self.fail(op, "shape-singleton-squeezed",
                      "%s%s produced shape %s where the geometry reports %s (a length-1 axis was squeezed away)"
                      % (op, " (batch)" if batch else "", got, want))
        else:
            self.fail(op, "shape", "%s produced shape %s, geometry reports %s" % (op, got, want))
        return False


def _pvecs(dim, k, nv):
    """Complete basis + nv generic dyadic vectors."""
    out = [np.eye(dim)[:, i].copy() for i in range(dim)]
    for j in range(nv):
        out.append(refs.dyadic_vec(dim, k + 3 * j))
    return out


def _batch(dim, k, ncol):
    return np.column_stack([refs.dyadic_vec(dim, k + 1 + 2 * j, scale=0.5) for j in range(ncol)])


def _call(res, f, *a):
    """Run a library map; returns (ok, value-or-exception)."""
    res.transitions += 1
    try:
        return True, f(*a)
    except Exception as e:  # noqa
        return False, e


# ----------------------------------------------------------------------------------------
# generic relations valid for every geometry
# ----------------------------------------------------------------------------------------
def generic(cx, g, k, nv, inverse=True, ref_par2fun=None, has_vec=True, samples=True):
    """inverse: fun2par offered and expected to invert par2fun.  ref_par2fun(p)->array: reference."""
    res = cx.res
    pd = g.par_dim
    fshape = tuple(g.fun_shape)
    cx.res.evaluations += 1
    if tuple(g.par_shape) != (pd,) or g.fun_dim != int(np.prod(fshape)):
        cx.fail("dims", "inconsistent", "par_shape %s / par_dim %s / fun_shape %s / fun_dim %s are inconsistent"
                % (g.par_shape, pd, fshape, g.fun_dim))
    # ---- single vectors -----------------------------------------------------------------
    F = []
    for p in _pvecs(pd, k, nv):
        ok, f = _call(res, g.par2fun, p.copy())
        if not ok:
            cx.fail("par2fun", "raises", "par2fun raised on a valid parameter vector: %r" % (f,))
            return None
        f = np.asarray(f)
        cx.shape("par2fun", f.shape, fshape)
        if ref_par2fun is not None:
            r = ref_par2fun(p)
            res.evaluations += 1
            if _sq(f.shape) != _sq(r.shape) or not close(f.reshape(r.shape), r, 1e-9):
                cx.fail("par2fun", "values", "par2fun differs from the documented map", p=p, impl=f, ref=r)
                cx.map_broken = True
        F.append(f)
        if inverse:
            fin = f if f.shape == fshape else f.reshape(fshape)   # hand back exactly a function of the reported shape
            ok, q = _call(res, g.fun2par, fin.copy())
            if not ok:
                cx.fail("fun2par", "raises", "fun2par raised on the function values the geometry reports for "
                        "par2fun(p) (shape %s): %r" % (fshape, q))
                continue
            q = np.asarray(q)
            cx.shape("fun2par", q.shape, (pd,))
            res.evaluations += 1
            if q.size != pd or not close(q.reshape(pd), p, 1e-9):
                cx.fail("roundtrip", "fun2par(par2fun(p))!=p", "fun2par(par2fun(p)) = %s for p = %s" % (q, p), p=p, q=q)
                cx.map_broken = True
    res.outcomes.add("%s:par%s->fun%s" % (cx.comp, (pd,), F[-1].shape))
    # ---- vector form --------------------------------------------------------------------
    vshape = None
    if has_vec:
        ok, vshape = _call(res, lambda: g.funvec_shape)
        if not ok:
            res.refused += 1
            res.outcomes.add("%s:funvec-refused" % cx.comp)
            vshape = None
        else:
            vshape = tuple(vshape)
            if g.funvec_dim != int(np.prod(vshape)):
                cx.fail("dims", "funvec", "funvec_dim %s != prod(funvec_shape %s)" % (g.funvec_dim, vshape))
            for f in F[-(nv + 1):]:
                fin = f if f.shape == fshape else f.reshape(fshape)
                ok, v = _call(res, g.fun2vec, fin.copy())
                if not ok:
                    cx.fail("fun2vec", "raises", "fun2vec raised although funvec_shape is reported: %r" % (v,))
                    break
                v = np.asarray(v)
                cx.shape("fun2vec", v.shape, vshape)
                ok, f2 = _call(res, g.vec2fun, v.copy())
                if not ok:
                    cx.fail("vec2fun", "raises", "vec2fun raised on fun2vec output: %r" % (f2,))
                    break
                f2 = np.asarray(f2)
                cx.shape("vec2fun", f2.shape, fshape)
                res.evaluations += 1
                if f2.size != fin.size or not close(f2.reshape(fshape), fin, 1e-12):
                    cx.fail("vec2fun", "not-inverse-of-fun2vec", "vec2fun(fun2vec(f)) != f", f=fin, back=f2)
                    cx.map_broken = True
    # ---- batches: matrices of column vectors ---------------------------------------------
    for ncol in (1, 2, 3):
        B = _batch(pd, k, ncol)
        cols = [np.asarray(g.par2fun(B[:, j].copy())) for j in range(ncol)]
        res.transitions += ncol
        _batch_check(cx, g.par2fun, "par2fun", B, cols, fshape, ncol)
        if len(fshape) == 1 and inverse:
            FB = np.stack([c.reshape(fshape) for c in cols], axis=-1)
            pc = []
            for j in range(ncol):
                ok, q = _call(res, g.fun2par, FB[:, j].copy())
                if not ok:
                    pc = None
                    break
                pc.append(np.asarray(q))
            if pc is not None:
                _batch_check(cx, g.fun2par, "fun2par", FB, pc, (pd,), ncol)
        elif inverse:
            # stack of multi-dimensional function values: executed, recorded, not judged (see ASSUMPTIONS)
            FB = np.stack([c.reshape(fshape) for c in cols], axis=-1)
            ok, out = _call(res, g.fun2par, FB.copy())
            res.outcomes.add("%s:fun2par-stack%d:%s" % (cx.comp, ncol, np.asarray(out).shape if ok else "raises"))
    # ---- Samples / CUQIarray conversions ---------------------------------------------------
    if samples:
        _samples_check(cx, g, k, inverse, vshape)
    return F


def _batch_check(cx, fn, op, B, cols, single_shape, ncol):
    res = cx.res
    ok, out = _call(res, fn, B.copy())
    if not ok:
        res.refused += 1
        res.count("batch-refused")
        res.outcomes.add("%s:%s-batch%d:raises" % (cx.comp, op, ncol))
        return
    out = np.asarray(out)
    single_shape = tuple(single_shape)
    want = np.stack([np.asarray(c).reshape(single_shape) for c in cols], axis=-1)
    res.evaluations += 1
    shape_ok = out.shape == want.shape or (ncol == 1 and out.shape == single_shape)
    if ncol == 1 and out.shape == single_shape and want.shape != single_shape:
        res.count("one-column-batch-squeezed")
    if not shape_ok:
        if _sq(out.shape) == _sq(want.shape):
            cx.shape(op, out.shape, want.shape, batch=True)
        else:
            cx.fail(op + "-batch", "shape", "%s on a matrix of %d columns returned shape %s, per-column results "
                    "stack to %s" % (op, ncol, out.shape, want.shape))
            return
    if out.size != want.size or not close(out.reshape(want.shape), want, 1e-12):
        cx.fail(op + "-batch", "values", "%s on a matrix of %d columns differs from the per-column results"
                % (op, ncol), batch=B, impl=out, ref=want)
    res.outcomes.add("%s:%s-batch%d:%s" % (cx.comp, op, ncol, out.shape))


def _samples_check(cx, g, k, inverse, vshape):
    import cuqi
    res = cx.res
    pd, fshape = g.par_dim, tuple(g.fun_shape)
    Ns = 3
    P = _batch(pd, k + 1, Ns)
    P0 = P.copy()
    S = cuqi.samples.Samples(P, geometry=g)
    percol = [np.asarray(g.par2fun(P0[:, j].copy())).reshape(fshape) for j in range(Ns)]
    res.transitions += Ns
    ok, Fs = _call(res, lambda: S.funvals)
    if not ok:
        cx.fail("Samples.funvals", "raises", "Samples.funvals raised: %r" % (Fs,))
        return
    res.state("samples-fun")
    want = np.stack(percol, axis=-1)
    res.evaluations += 1
    if Fs.is_par or Fs.geometry is not g:
        cx.fail("Samples.funvals", "flags", "funvals samples have is_par=%s / changed geometry" % Fs.is_par)
    if np.asarray(Fs.samples).shape != want.shape or not close(Fs.samples, want, 1e-12):
        cx.fail("Samples.funvals", "values", "Samples.funvals differs from the per-sample par2fun",
                impl=np.asarray(Fs.samples), ref=want)
        return
    if Fs.funvals is not Fs and not (Fs.is_vec):
        cx.fail("Samples.funvals", "not-idempotent", "funvals of function-value samples is not the object itself")
    cur = Fs
    # vector form
    ok, Vs = _call(res, lambda: Fs.vector)
    if not ok:
        res.refused += 1
        res.outcomes.add("%s:Samples.vector-refused" % cx.comp)
        if vshape is not None:
            cx.fail("Samples.vector", "raises", "Samples.vector raised although the geometry offers fun2vec: %r" % (Vs,))
    else:
        res.state("samples-vec")
        res.evaluations += 1
        if not Vs.is_vec or Vs.is_par or Vs.geometry is not g:
            cx.fail("Samples.vector", "flags", "vector samples: is_vec=%s is_par=%s" % (Vs.is_vec, Vs.is_par))
        if vshape is not None:
            wantv = np.stack([np.asarray(g.fun2vec(f.copy())).reshape(vshape) for f in percol], axis=-1)
            # the same conversion after the function-value samples went through a (trivial and a real) burn-in/thinning:
            # the representation must survive the copy made there
            for (nb, nt) in ((0, 1), (1, 2)):
                okb, Vb = _call(res, lambda: Fs.burnthin(nb, nt).vector)
                if okb:
                    res.evaluations += 1
                    wb = wantv[..., nb::nt]
                    if np.asarray(Vb.samples).shape != wb.shape or not close(Vb.samples, wb, 1e-12):
                        cx.fail("Samples.vector", "values-after-burnthin", "funvals.burnthin(%d,%d).vector differs from the "
                                "per-sample fun2vec of the kept samples (shape %s, expected %s)" % (nb, nt, np.asarray(Vb.samples).shape, wb.shape))
                        break
            if np.asarray(Vs.samples).shape != wantv.shape or not close(Vs.samples, wantv, 1e-12):
                cx.fail("Samples.vector", "values", "Samples.vector differs from the per-sample fun2vec",
                        impl=np.asarray(Vs.samples), ref=wantv)
            else:
                # back to function values: lossless
                ok, F2 = _call(res, lambda: Vs.funvals)
                if ok:
                    res.evaluations += 1
                    if cx.map_broken:
                        res.count("derived-relation-skipped-after-map-failure")
                    elif np.asarray(F2.samples).shape != want.shape or not close(F2.samples, want, 1e-12):
                        cx.fail("Samples.vector", "funvals-of-vector-lossy", "vector -> funvals does not return the function values")
                cur = Vs
    if inverse:
        for name, src in (("funvals", Fs), ("vector", cur)):
            ok, Ps = _call(res, lambda: src.parameters)
            if not ok:
                cx.fail("Samples.parameters", "raises", "Samples.%s.parameters raised: %r" % (name, Ps))
                continue
            res.state("samples-par")
            res.evaluations += 1
            if not Ps.is_par or not Ps.is_vec or Ps.geometry is not g:
                cx.fail("Samples.parameters", "flags", "parameter samples: is_par=%s is_vec=%s" % (Ps.is_par, Ps.is_vec))
            if cx.map_broken:
                res.count("derived-relation-skipped-after-map-failure")
            elif np.asarray(Ps.samples).shape != P0.shape or not close(Ps.samples, P0, 1e-9):
                cx.fail("Samples.parameters", "roundtrip", "Samples.%s.parameters does not return the parameter samples"
                        % name, impl=np.asarray(Ps.samples), ref=P0)
    if not np.array_equal(P, P0) or S.samples is not P:
        cx.fail("Samples", "source-altered", "conversion changed the source samples")
    # CUQIarray
    p = P0[:, 0].copy()
    a = cuqi.array.CUQIarray(p.copy(), geometry=g)
    ok, fa = _call(res, lambda: a.funvals)
    if not ok:
        cx.fail("CUQIarray.funvals", "raises", "CUQIarray.funvals raised: %r" % (fa,))
        return
    res.state("array-fun")
    res.evaluations += 1
    if getattr(fa, "is_par", None) is not False or fa.geometry is not g:
        cx.fail("CUQIarray.funvals", "flags", "funvals array has is_par=%r" % getattr(fa, "is_par", None))
    if np.asarray(fa).size != percol[0].size or not close(np.asarray(fa).reshape(fshape), percol[0], 1e-12):
        cx.fail("CUQIarray.funvals", "values", "CUQIarray.funvals differs from par2fun", impl=np.asarray(fa), ref=percol[0])
    if inverse:
        ok, pa = _call(res, lambda: fa.parameters)
        if not ok:
            cx.fail("CUQIarray.parameters", "raises", "CUQIarray.funvals.parameters raised: %r" % (pa,))
            return
        res.state("array-par")
        res.evaluations += 1
        if getattr(pa, "is_par", None) is not True or pa.geometry is not g:
            cx.fail("CUQIarray.parameters", "flags", "parameter array has is_par=%r" % getattr(pa, "is_par", None))
        if cx.map_broken:
            res.count("derived-relation-skipped-after-map-failure")
        elif np.asarray(pa).size != pd or not close(np.asarray(pa).reshape(pd), p, 1e-9):
            cx.fail("CUQIarray.parameters", "roundtrip", "CUQIarray funvals -> parameters is lossy", impl=np.asarray(pa), ref=p)
        if not np.array_equal(np.asarray(a), p):
            cx.fail("CUQIarray", "source-altered", "conversion changed the source array")


# ----------------------------------------------------------------------------------------
# StepExpansion
# ----------------------------------------------------------------------------------------
def step_oracle(N, n):
    """Documented partition in exact rational arithmetic: (step of node k, node k on an interior boundary)."""
    step, onb = [], []
    for kk in range(N):
        if kk == 0:
            step.append(0)
            onb.append(False)
            continue
        t = Fraction(kk * n, N - 1)          # position of node k in units of the step length
        step.append(int(math.ceil(t)) - 1)    # (i, i+1] -> i
        onb.append(t.denominator == 1 and kk != N - 1)
    return step, onb


def step_exact_on_float_grid(grid, n):
    """The same interval membership evaluated in exact arithmetic on the given floating-point nodes."""
    G = [Fraction(float(v)) for v in grid]
    L = G[-1] - G[0]
    out = [0]
    for kk in range(1, len(G)):
        out.append(int(math.ceil((G[kk] - G[0]) * n / L)) - 1)
    return out


def _grid(cell):
    N, x0, L = cell["N"], cell["x0"], cell["L"]
    if cell["b"] == "int":
        return N
    if cell["b"] == "lin":
        return np.linspace(x0, x0 + L, N)
    return x0 + np.arange(N) * (L / (N - 1))


def eval_step(cell, res):
    from cuqi.geometry import StepExpansion
    N, n, k, nv = cell["N"], cell["n"], cell["cat"], cell["nv"]
    ideal, onb = step_oracle(N, n)
    assert sorted(set(ideal)) == list(range(n)), "harness self-check: documented partition has an empty step"
    grid = _grid(cell)
    first = True
    for proj in PROJS:
        cx = Ctx(res, "StepExpansion")
        try:
            g = StepExpansion(grid, n_steps=n, fun2par_projection=proj)
        except Exception as e:
            res.refused += 1
            cx.fail("construct", "refused", "admissible regular grid (N=%d >= n_steps=%d) refused: %r" % (N, n, e))
            return
        res.state("step-" + proj)
        fgrid = np.asarray(g.grid, float)
        cx.shape("par_shape", g.par_shape, (n,))
        cx.shape("fun_shape", g.fun_shape, (N,))
        # ---- observed partition through par2fun(e_i) -----------------------------------------
        cols = []
        for i in range(n):
            ok, c = _call(res, g.par2fun, np.eye(n)[:, i].copy())
            if not ok:
                cx.fail("par2fun", "raises", "par2fun(e_%d) raised %r" % (i, c))
                return
            c = np.asarray(c, float)
            if c.size != N:
                cx.fail("par2fun", "shape", "par2fun(e_i) has %d entries for %d nodes" % (c.size, N))
                return
            cols.append(c.reshape(N))
        M = np.array(cols)                      # n x N
        res.evaluations += 1
        if not np.all((M == 0) | (M == 1)):
            cx.fail("par2fun", "basis-not-indicator", "par2fun(e_i) is not a 0/1 indicator", M=M)
            return
        cnt = M.sum(axis=0)
        obs = [int(np.argmax(M[:, kk])) if cnt[kk] >= 1 else -1 for kk in range(N)]
        exactf = step_exact_on_float_grid(fgrid, n)
        valid = True
        accepted_up = 0
        causes = set()
        for kk in range(N):
            res.evaluations += 1
            if cnt[kk] == 0:
                valid = False
                if kk == N - 1:
                    causes.add("last")
                    cx.fail("partition", "last-node-in-no-step",
                            "the last grid node receives no parameter (par2fun(1) is 0 there%s); documented step %d"
                            % ("; the last step is empty so fun2par(par2fun(p)) is NaN" if n - 1 not in obs else "", ideal[kk]),
                            N=N, n=n, grid=fgrid, observed=obs, documented=ideal)
                else:
                    cx.fail("partition", "node-in-no-step", "grid node %d receives no parameter" % kk,
                            observed=obs, documented=ideal)
            elif cnt[kk] > 1:
                valid = False
                cx.fail("partition", "node-in-several-steps", "grid node %d receives %d parameters" % (kk, int(cnt[kk])),
                        observed=M[:, kk], documented=ideal)
            elif obs[kk] != ideal[kk]:
                if onb[kk] and obs[kk] == ideal[kk] + 1:
                    if exactf[kk] == obs[kk]:
                        accepted_up += 1          # the float node really lies above the boundary: accepted reading
                    else:
                        causes.add("interior")
                        cx.fail("partition", "interior-boundary-node-rounded-into-next-step",
                                "node %d lies on the boundary of steps %d|%d (documented: lower step; exact arithmetic on "
                                "the float grid: step %d) but is assigned to step %d" % (kk, ideal[kk], ideal[kk] + 1,
                                                                                        exactf[kk], obs[kk]),
                                N=N, n=n, grid=fgrid, observed=obs, documented=ideal)
                else:
                    cx.fail("partition", "node-in-wrong-step", "node %d is in step %d, documented step %d"
                            % (kk, obs[kk], ideal[kk]), observed=obs, documented=ideal)
        if accepted_up:
            res.count("boundary-node-in-upper-step-accepted", accepted_up)
        empty = [i for i in range(n) if i not in obs]
        if empty:
            valid = False
            unexplained = [i for i in empty if not ("last" in causes and i == n - 1)]
            if unexplained:
                cx.fail("roundtrip", "step-without-node",
                        "step(s) %s contain no grid node although N=%d >= n_steps=%d (boundary nodes were rounded into the "
                        "next step): par2fun drops the parameter and fun2par returns NaN" % (unexplained, N, n),
                        N=N, n=n, grid=fgrid, observed=obs, documented=ideal)
        if first:
            res.outcomes.add("step-partition:" + "".join("%x" % min(o, 15) if o >= 0 else "-" for o in obs)[:16])
            res.outcomes.add("step-deviation:%s" % (sorted(causes) + (["accepted-up"] if accepted_up else []) +
                                                    (["empty"] if empty else [])))
        if not valid:
            res.count("partition-invalid")
            # column-wise action can still be judged
            for ncol in (2, 3):
                B = _batch(n, k, ncol)
                cs = [np.asarray(g.par2fun(B[:, j].copy())) for j in range(ncol)]
                res.transitions += ncol
                _batch_check(cx, g.par2fun, "par2fun", B, cs, (N,), ncol)
            first = False
            continue
        part = [[kk for kk in range(N) if obs[kk] == i] for i in range(n)]

        def ref_p2f(p, obs=obs):
            return np.array([p[obs[kk]] for kk in range(N)], float)

        # generic relations (round trip, shapes, batches, Samples, CUQIarray) with the observed partition
        generic(cx, g, k, nv, inverse=True, ref_par2fun=ref_p2f, samples=first or proj == "max")
        # ---- fun2par is the documented projection; par2fun o fun2par is idempotent ----------------
        red = {"mean": np.mean, "max": np.max, "min": np.min}[proj]
        fvecs = [np.eye(N)[:, i].copy() for i in range(N)] + [refs.dyadic_vec(N, k + 3 * j) for j in range(nv)]
        for f in fvecs:
            ok, q = _call(res, g.fun2par, f.copy())
            if not ok:
                cx.fail("fun2par", "raises", "fun2par raised on a function vector: %r" % (q,))
                break
            q = np.asarray(q, float)
            ref = np.array([red(f[part[i]]) for i in range(n)])
            res.evaluations += 1
            if q.size != n or not close(q.reshape(n), ref, 1e-12):
                cx.fail("fun2par", "projection,proj=%s" % proj, "fun2par(f) is not the %s over the nodes of each step" % proj,
                        f=f, impl=q, ref=ref)
                break
            f1 = np.asarray(g.par2fun(q.reshape(n).copy()), float).reshape(N)
            q1 = np.asarray(g.fun2par(f1.copy()), float).reshape(n)
            f2 = np.asarray(g.par2fun(q1.copy()), float).reshape(N)
            res.transitions += 3
            res.evaluations += 1
            if not close(f2, f1, 1e-12) or not close(q1, q.reshape(n), 1e-12):
                cx.fail("projection", "not-idempotent,proj=%s" % proj, "par2fun(fun2par(.)) applied twice changes the result",
                        f=f, once=f1, twice=f2)
                break
        first = False
    if res.sample is None:
        res.sample = {"grid": fgrid, "documented_partition": ideal, "observed_partition": obs}


# ----------------------------------------------------------------------------------------
# KLExpansion
# ----------------------------------------------------------------------------------------
def kl_matrix(N, m, decay, tau):
    """Documented series: column i is the function of the i-th unit coefficient vector."""
    B = np.zeros((N, m))
    for i in range(m):
        for K in range(N):
            if i <= N - 2:
                B[K, i] = math.sin(math.pi / N * (i + 1) * (K + 0.5)) / ((i + 1) ** decay * tau)
            else:
                B[K, i] = 0.5 * (-1) ** K / (N ** decay * tau)
    return B


def eval_kl(cell, res):
    from cuqi.geometry import KLExpansion
    N, m, decay, tau, k, nv = cell["N"], cell["m"], cell["decay"], cell["tau"], cell["cat"], cell["nv"]
    cx = Ctx(res, "KLExpansion")
    grid = np.linspace(0, 1, N) if N > 1 else np.array([0.5])
    try:
        g = KLExpansion(grid, decay_rate=decay, normalizer=tau, num_modes=m)
    except Exception as e:
        res.refused += 1
        cx.fail("construct", "refused", "KLExpansion refused a documented configuration: %r" % (e,))
        return
    meff = N if (m is None or m > N) else m
    res.state("kl")
    cx.shape("par_shape", g.par_shape, (meff,))
    cx.shape("fun_shape", g.fun_shape, (N,))
    B = kl_matrix(N, meff, decay, tau)
    generic(cx, g, k, nv, inverse=True, ref_par2fun=lambda p: B @ p)
    # projection: par2fun o fun2par idempotent on the complete function basis + generic
    fvecs = [np.eye(N)[:, i].copy() for i in range(N)] + [refs.dyadic_vec(N, k + 3 * j) for j in range(nv)]
    if cx.map_broken:
        fvecs = []
    for f in fvecs:
        ok, q = _call(res, g.fun2par, f.copy())
        if not ok:
            cx.fail("fun2par", "raises", "fun2par raised on a function vector: %r" % (q,))
            break
        q = np.asarray(q, float)
        if q.size != meff:
            cx.fail("fun2par", "shape", "fun2par returned %d coefficients for %d modes" % (q.size, meff))
            break
        try:
            f1 = np.asarray(g.par2fun(q.reshape(meff).copy()), float).reshape(N)
            q1 = np.asarray(g.fun2par(f1.copy()), float).reshape(meff)
            f2 = np.asarray(g.par2fun(q1.copy()), float).reshape(N)
        except Exception as e:
            cx.fail("projection", "raises", "par2fun/fun2par raised while iterating the projection: %r" % (e,))
            break
        res.transitions += 3
        res.evaluations += 1
        if not close(f2, f1, 1e-9) or not close(q1, q.reshape(meff), 1e-9):
            cx.fail("projection", "not-idempotent", "par2fun(fun2par(.)) applied twice changes the result", f=f, once=f1, twice=f2)
            break
        if meff == N and not close(f1, f, 1e-9):
            cx.fail("roundtrip", "par2fun(fun2par(f))!=f,all-modes", "with all modes the expansion must reproduce f", f=f, back=f1)
            break
    # cached scalings are keyed by the mode count: re-gridding must give the maps of a fresh geometry
    N2 = N + 2
    try:
        g.grid = np.linspace(0, 1, N2)
    except Exception as e:   # re-gridding itself may be refused
        res.refused += 1
        res.outcomes.add("kl-regrid-refused:" + type(e).__name__)
        g = None
    if g is not None and not cx.map_broken:
        m2 = N2 if (m is None or m > N2) else m
        p = refs.dyadic_vec(m2, k)
        B2 = kl_matrix(N2, m2, decay, tau)
        res.state("kl-regridded")
        ok, a = _call(res, g.par2fun, p.copy())
        okq, qa = _call(res, g.fun2par, (B2 @ p).copy())
        res.evaluations += 1
        if not ok or not okq:
            cx.fail("regrid", "maps-raise-after-new-grid", "after assigning a new grid (documented use) the maps raise: %r"
                    % ((a if not ok else qa),))
        elif g.par_dim != m2 or np.asarray(a).size != N2 or not close(np.asarray(a).reshape(-1), B2 @ p, 1e-9) \
                or np.asarray(qa).size != m2 or not close(np.asarray(qa).reshape(-1), p, 1e-9):
            cx.fail("regrid", "stale-cached-scalings", "after assigning a new grid the maps differ from the documented "
                    "series of the new grid", impl=a, ref=B2 @ p, back=qa)
    res.outcomes.add("kl:N=%d,m=%d" % (N, meff))
    res.sample = {"N": N, "modes": meff, "documented_first_column": B[:, 0]}


# ----------------------------------------------------------------------------------------
# 2-D geometries, Discrete, Mapped, defaults
# ----------------------------------------------------------------------------------------
def eval_c2d(cell, res):
    from cuqi.geometry import Continuous2D
    n1, n2, k, nv = cell["n1"], cell["n2"], cell["cat"], cell["nv"]
    cx = Ctx(res, "Continuous2D")
    grid = (n1, n2) if cell["grid"] == "int" else (0.1 + 0.7 * np.arange(n1), list(-0.3 + 0.25 * np.arange(n2)))
    g = Continuous2D(grid)
    res.state("c2d")
    cx.shape("par_shape", g.par_shape, (n1 * n2,))
    cx.shape("fun_shape", g.fun_shape, (n1, n2))
    F = generic(cx, g, k, nv, inverse=True, has_vec=True)
    if F is not None:
        _bijection(cx, F[:n1 * n2], n1 * n2)
    res.sample = {"fun_shape": g.fun_shape}


def _bijection(cx, Fbasis, dim):
    """Every node / pixel receives exactly one parameter's contribution."""
    M = np.array([np.asarray(f, float).reshape(-1) for f in Fbasis])   # dim x nodes
    cx.res.evaluations += 1
    if M.shape != (dim, dim) or not np.all((M == 0) | (M == 1)) or not np.all(M.sum(0) == 1) or not np.all(M.sum(1) == 1):
        cx.fail("par2fun", "not-a-bijection", "par2fun(e_i) does not put each parameter on exactly one node", M=M)


def eval_img(cell, res):
    from cuqi.geometry import Image2D
    r, c, order, vo, k, nv = cell["r"], cell["c"], cell["order"], cell["vo"], cell["cat"], cell["nv"]
    cx = Ctx(res, "Image2D", "order=%s,visual_only=%s" % (order, vo))
    g = Image2D((r, c), order=order, visual_only=vo)
    res.state("img")
    cx.shape("par_shape", g.par_shape, (r * c,))
    cx.shape("fun_shape", g.fun_shape, (r * c,) if vo else (r, c))

    def ref(p):
        if vo:
            return np.array(p, float)
        out = np.zeros((r, c))
        for a in range(r):
            for b in range(c):
                out[a, b] = p[a * c + b] if order == "C" else p[a + r * b]
        return out
    F = generic(cx, g, k, nv, inverse=True, ref_par2fun=ref, has_vec=True)
    if F is not None:
        _bijection(cx, F[:r * c], r * c)
    res.sample = {"fun_shape": g.fun_shape, "order": order}


def eval_disc(cell, res):
    from cuqi.geometry import Discrete
    n, k, nv = cell["n"], cell["cat"], cell["nv"]
    cx = Ctx(res, "Discrete")
    g = Discrete(["name%d" % i for i in range(n)] if cell["named"] else n)
    res.state("disc")
    cx.shape("par_shape", g.par_shape, (n,))
    cx.shape("fun_shape", g.fun_shape, (n,))
    generic(cx, g, k, nv, inverse=True, ref_par2fun=lambda p: np.array(p, float))


def _mapped_base(name):
    from cuqi.geometry import Continuous1D, Continuous2D, Image2D, StepExpansion, KLExpansion
    if name == "c1d":
        return Continuous1D(np.linspace(0, 1, 5)), None
    if name == "c2d":
        return Continuous2D((2, 3)), None
    if name == "imgC":
        return Image2D((3, 2), order="C"), None
    if name == "imgF":
        return Image2D((2, 3), order="F"), None
    if name == "step":
        return StepExpansion(np.linspace(0, 1, 7), n_steps=2), [0, 0, 0, 0, 1, 1, 1]
    if name == "kl":
        return KLExpansion(np.linspace(0, 1, 6), num_modes=4), None
    raise ValueError(name)


def eval_mapped(cell, res):
    from cuqi.geometry import MappedGeometry
    k, nv = cell["cat"], cell["nv"]
    cx = Ctx(res, "MappedGeometry", "base=%s" % cell["base"])
    base, _ = _mapped_base(cell["base"])
    if cell["map"] == "affine":
        fmap, imap = (lambda x: 2.0 * x + 1.0), (lambda f: (f - 1.0) / 2.0)
    else:
        fmap, imap = (lambda x: np.exp(x)), (lambda f: np.log(f))
    g = MappedGeometry(base, map=fmap, imap=imap)
    res.state("mapped")
    base2, _ = _mapped_base(cell["base"])

    def ref(p):
        return fmap(np.asarray(base2.par2fun(np.array(p, float)), float))
    cx.shape("par_shape", g.par_shape, base2.par_shape)
    has_vec = cell["base"] != "c2d"
    generic(cx, g, k, nv, inverse=True, ref_par2fun=ref, has_vec=has_vec)
    # without an inverse map fun2par must refuse, not return something
    g0 = MappedGeometry(base, map=fmap)
    ok, out = _call(res, g0.fun2par, np.ones(g.fun_shape))
    if ok:
        cx.fail("fun2par", "no-imap-returns", "fun2par without an inverse map returned a value")
    else:
        res.refused += 1


def eval_default(cell, res):
    import cuqi
    from cuqi.geometry import Continuous1D, _DefaultGeometry1D, _DefaultGeometry2D
    k, nv, kind = cell["cat"], cell["nv"], cell["kind"]
    if kind == "default2d":
        r, c = cell["r"], cell["c"]
        cx = Ctx(res, "_DefaultGeometry2D")
        g = _DefaultGeometry2D((r, c))
        res.state("default2d")
        cx.shape("fun_shape", g.fun_shape, (r, c))

        def ref(p):
            return np.array([[p[a * c + b] for b in range(c)] for a in range(r)], float)
        generic(cx, g, k, nv, inverse=True, ref_par2fun=ref)
        return
    n = cell["n"]
    ident = lambda p: np.array(p, float)  # noqa
    if kind == "default1d":
        cx, g = Ctx(res, "_DefaultGeometry1D"), _DefaultGeometry1D(n)
    elif kind == "c1d-int":
        cx, g = Ctx(res, "Continuous1D"), Continuous1D(n)
    elif kind == "c1d-tuple":
        cx, g = Ctx(res, "Continuous1D"), Continuous1D((n,))
    elif kind == "c1d-list":
        cx, g = Ctx(res, "Continuous1D"), Continuous1D([0.5 * i - 1 for i in range(n)])
    elif kind == "samples-default":
        cx = Ctx(res, "Samples-default-geometry")
        S = cuqi.samples.Samples(_batch(n, k, 3))
        g = S.geometry
    else:
        cx = Ctx(res, "CUQIarray-default-geometry")
        g = cuqi.array.CUQIarray(refs.dyadic_vec(n, k)).geometry
    res.state(kind)
    cx.shape("par_shape", g.par_shape, (n,))
    cx.shape("fun_shape", g.fun_shape, (n,))
    if kind.startswith("c1d") or kind == "default1d":
        want = np.arange(n, dtype=float) if kind != "c1d-list" else np.array([0.5 * i - 1 for i in range(n)])
        res.evaluations += 1
        if not close(np.asarray(g.grid, float), want, 1e-15):
            cx.fail("grid", "default-grid", "grid %s is not the documented default %s" % (g.grid, want))
    generic(cx, g, k, nv, inverse=True, ref_par2fun=ident)


FAMS = {"step": eval_step, "kl": eval_kl, "c2d": eval_c2d, "img": eval_img, "disc": eval_disc,
        "mapped": eval_mapped, "default": eval_default}


def eval_cell(cell):
    import cuqi  # noqa: imports the tree selected by VERIF_REPO
    res = CellResult(cell)
    FAMS[cell["fam"]](cell, res)
    if res.transitions == 0:
        res.nontrivial = False
    return res
