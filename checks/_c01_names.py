"""C01 helper: the facet "NAMES of the hyper-parameter variables" over hierarchical model graphs.

The library links the densities of a joint by NAME: the argument names of the callables held in a density's
attributes are its conditioning variables, and the attributes themselves (mean, cov, prec, scale, location, ...)
are addressed by keyword through the same conditioning call.  The model a user writes down is independent of how
the variables are called, so the property quantifies over the names as well.  The catalogue graphs of _graphs.py
use generic names only (d, s, ...).  Here every hyper-parameter variable h that enters a density F through the
callable held in attribute A of F gets each name of the following alphabet (computed per graph from the attribute
lists below, which are confirmed against the library's own get_mutable_variables at run time):

  generic   a name that is no attribute of any density of the joint            (control; thorough tier)
  own       the name of A itself (prec=lambda prec: 3*prec) - the callable is never the identity
  sibling   the name of ANOTHER attribute of F - one that holds a fixed value (mean/location given as a vector) or
            one that holds another callable (the forward model as mean; the callable of another hyper-parameter)
  foreign   the name of an attribute of a different density of the joint (not the variable's own prior)
(a name that stands in several relations is filed under the closest: own > sibling/callable > sibling/value > foreign;
that relation is the facet "naming=" of the signatures)

(The name of an attribute of the variable's OWN prior is not in the alphabet: a density whose name equals one of its
own attributes cannot be addressed unambiguously by keyword - the library refuses to condition it.)

Templates (x: dim 3, y: dim 2, all factors named explicitly):
  P  y ~ N(Ax, c)              x ~ KIND(loc, A=f(h))                      h ~ Gamma    hyper-parameter of the prior
  L  y ~ KIND(Ax, A=f(h))      x ~ LMRF(loc, scale)                       h ~ Gamma    hyper-parameter of the noise
  S  y ~ N(Ax, prec=3h)        x ~ N(m0, cov=2/h)                         h ~ Gamma    one hyper-parameter, two densities
  M  x ~ N(mean=2*mu*1, cov=1/d)   mu ~ Laplace(m, v)   d ~ Gamma                           two hyper-parameters, one density
  Q  y ~ N(Ax, prec=3s)        x ~ N(m0, cov=2/d)                         d, s ~ Gamma two hyper-parameters, two densities
  C  b ~ Gamma   z ~ Laplace(location=-b/2, scale)   w ~ Cauchy(location=z/2+b/4, scale=2b)    multi-argument callable
KIND in Gaussian.{cov,prec,sqrtcov,sqrtprec}, GMRF.prec, LMRF.scale, Laplace.scale, Cauchy.scale, Lognormal.cov (P);
Gaussian.{cov,prec,sqrtcov,sqrtprec} (L).

Reference (independent of the library): scipy / explicit log-density of every factor at the complete assignment with the
parameter values computed BY THE HARNESS from its own copy of the maps (KINDS[..]["fun"]); the library only ever sees the
source text of the callable with the chosen argument names.

Harness hygiene as in _graphs.py: library objects only in obj*/_* names or containers.
"""
import math
import numpy as np
from vfw import refs
from checks import _graphs as GR

GENERIC = {"h": "d", "mu": "mu", "d": "d", "b": "b", "s": "s"}
GAMMA_ATTRS = ("shape", "rate")
PRIORITY = ("own", "sibling-callable", "sibling-value", "foreign", "generic")


def _fn(args, expr, env=None):
    """A python callable whose ARGUMENT NAMES are the given variable names (the library links densities by them)."""
    return eval("lambda %s: %s" % (", ".join(args), expr), dict(env or {}, np=np, math=math))


def _D1(n):
    return refs.fd1_1d(n, "zero")


# entered densities: attribute list, attribute that takes the callable, the (non-identity) map as source text for the
# library and as a harness function for the reference, constructor, reference log-density given the attribute's VALUE p
KINDS = {
    "Gaussian.cov": dict(cls="Gaussian", attrs=("mean", "cov"), entry="cov", expr="2.0 / {h}", fun=lambda h: 2.0 / h,
                         make=lambda D, loc, fn, n, nm: D.Gaussian(mean=loc, cov=fn, name=nm),
                         ref=lambda x, loc, p, n: GR.lg_gauss(x, loc, p)),
    "Gaussian.prec": dict(cls="Gaussian", attrs=("mean", "prec"), entry="prec", expr="3.0 * {h}", fun=lambda h: 3.0 * h,
                          make=lambda D, loc, fn, n, nm: D.Gaussian(mean=loc, prec=fn, name=nm),
                          ref=lambda x, loc, p, n: GR.lg_gauss(x, loc, 1.0 / p)),
    "Gaussian.sqrtcov": dict(cls="Gaussian", attrs=("mean", "sqrtcov"), entry="sqrtcov", expr="1.25 / np.sqrt({h})",
                             fun=lambda h: 1.25 / math.sqrt(h),
                             make=lambda D, loc, fn, n, nm: D.Gaussian(mean=loc, sqrtcov=fn, name=nm),
                             ref=lambda x, loc, p, n: GR.lg_gauss(x, loc, p ** 2)),
    "Gaussian.sqrtprec": dict(cls="Gaussian", attrs=("mean", "sqrtprec"), entry="sqrtprec", expr="1.5 * np.sqrt({h})",
                              fun=lambda h: 1.5 * math.sqrt(h),
                              make=lambda D, loc, fn, n, nm: D.Gaussian(mean=loc, sqrtprec=fn, name=nm),
                              ref=lambda x, loc, p, n: GR.lg_gauss(x, loc, 1.0 / p ** 2)),
    "GMRF.prec": dict(cls="GMRF", attrs=("mean", "prec"), entry="prec", expr="3.0 * {h}", fun=lambda h: 3.0 * h,
                      make=lambda D, loc, fn, n, nm: D.GMRF(loc, fn, bc_type="zero", order=1, geometry=n, name=nm),
                      ref=lambda x, loc, p, n: GR.lg_gauss_prec(x, loc, p * (_D1(n).T @ _D1(n)))),
    "LMRF.scale": dict(cls="LMRF", attrs=("location", "scale"), entry="scale", expr="1.0 / {h}", fun=lambda h: 1.0 / h,
                       make=lambda D, loc, fn, n, nm: D.LMRF(loc, fn, bc_type="zero", geometry=n, name=nm),
                       ref=lambda x, loc, p, n: GR.lg_lmrf(x, loc, p, _D1(n))),
    "Laplace.scale": dict(cls="Laplace", attrs=("location", "scale"), entry="scale", expr="2.0 / {h}", fun=lambda h: 2.0 / h,
                          make=lambda D, loc, fn, n, nm: D.Laplace(loc, fn, geometry=n, name=nm),
                          ref=lambda x, loc, p, n: GR.lg_laplace(x, loc, p)),
    "Cauchy.scale": dict(cls="Cauchy", attrs=("location", "scale"), entry="scale", expr="0.5 * {h}", fun=lambda h: 0.5 * h,
                         make=lambda D, loc, fn, n, nm: D.Cauchy(loc, fn, geometry=n, name=nm),
                         ref=lambda x, loc, p, n: GR.lg_cauchy(x, loc, p)),
    "Lognormal.cov": dict(cls="Lognormal", attrs=("mean", "cov"), entry="cov", expr="2.0 / {h}", fun=lambda h: 2.0 / h,
                          make=lambda D, loc, fn, n, nm: D.Lognormal(loc, fn, name=nm),
                          ref=lambda x, loc, p, n: GR.lg_lognormal(x, loc, p), positive=True),
}
P_KINDS = list(KINDS)
L_KINDS = ["Gaussian.cov", "Gaussian.prec", "Gaussian.sqrtcov", "Gaussian.sqrtprec"]


class Named(GR.Graph):
    """Common part: self.names maps the hyper-parameter ROLES of the template to variable names."""
    template = "?"
    roles = ()
    # (role, name of the entered factor, attribute through which the role enters it)
    entries = ()
    model_attrs = {"y": "mean"}      # attributes that hold a forward model (a callable of x)

    def __init__(self, kind, names):
        self.kind = kind
        self.names = dict(names)
        self.setup()
        tag = ",".join("%s=%s" % (r, self.names[r]) for r in self.roles)
        self.gid = "N%s[%s|%s]" % (self.template, kind or "-", tag)
        if len(set(self.free)) != len(self.free):
            raise AssertionError("harness: variable names of %s are not unique" % self.gid)

    # attribute lists {factor name: attributes} of the template (the harness' own knowledge of the library's alphabet)
    def attrs(self):
        raise NotImplementedError

    def holds_callable(self):
        """{factor: attributes that hold a callable (a forward model or a map of hyper-parameters)}."""
        out = {f: {a} for f, a in self.model_attrs.items()}
        for _r, f, a in self.entries:
            out.setdefault(f, set()).add(a)
        return out

    def relations(self):
        """{role: sorted relations of its name to the attributes of the densities of the joint (own prior excluded)}."""
        at = self.attrs()
        hc = self.holds_callable()
        out = {}
        for r in self.roles:
            nm = self.names[r]
            rel = set()
            entered = set(f for rr, f, _a in self.entries if rr == r)
            for f, al in at.items():
                if f == nm or nm not in al:
                    continue
                if f not in entered:
                    rel.add("foreign")
                elif (r, f, nm) in [tuple(e) for e in self.entries]:
                    rel.add("own")
                else:
                    rel.add("sibling-callable" if nm in hc.get(f, ()) else "sibling-value")
            out[r] = sorted(rel) or ["generic"]
        return out

    def naming(self):
        """Facet value used in signatures: the closest relation over all roles (own > sibling holding a callable > sibling
        holding a value > foreign > generic)."""
        rel = set(x for v in self.relations().values() for x in v)
        for x in PRIORITY:
            if x in rel:
                return x

    def confirm_attrs(self, bundle):
        """Compare the attribute lists of the catalogue with the library's own (public names); -> list of differences."""
        diff = []
        for f, al in self.attrs().items():
            _d = bundle.factors[f]
            try:
                lib = set(v for v in _d.get_mutable_variables() if not v.startswith("_"))
            except Exception as e:  # noqa
                diff.append("%s: %r" % (f, e))
                continue
            if lib != set(al):
                diff.append("%s: library %s, catalogue %s" % (f, sorted(lib), sorted(al)))
        return diff


# ------------------------------------------------------------------------------------------------------------
class TP(Named):
    template = "P"
    roles = ("h",)
    entries = (("h", "x", None),)

    def setup(self):
        K = KINDS[self.kind]
        h = self.names["h"]
        self.entries = (("h", "x", K["entry"]),)
        self.ynoise = "prec" if "cov" in K["attrs"] else "cov"      # so that y owns an attribute x does not have
        self.title = "y~N(Ax,c), x~%s(loc, %s=lambda %s: %s), %s~Gamma" % (K["cls"], K["entry"], h, K["expr"].format(h=h), h)
        self.free = ["y", "x", h]
        self.dims = {"y": 2, "x": 3, h: 1}
        self.parents = {"y": ["x"], "x": [h], h: []}

    def attrs(self):
        return {"y": ("mean", self.ynoise), "x": KINDS[self.kind]["attrs"], self.names["h"]: GAMMA_ATTRS}

    def par(self, k):
        return dict(A=refs.full_matrix(2, 3, k + 5), loc=refs.dyadic_vec(3, k + 2, scale=0.125), cy=[0.5, 1.25, 0.75][k],
                    gh=([2.0, 1.5, 3.0][k], [1.0, 0.5, 2.0][k]))

    def build(self, k):
        import cuqi
        D = cuqi.distribution
        p = self.par(k)
        K = KINDS[self.kind]
        h = self.names["h"]
        _m = cuqi.model.LinearModel(p["A"])
        f = {}
        if self.ynoise == "cov":
            f["y"] = D.Gaussian(mean=_m, cov=p["cy"], name="y")
        else:
            f["y"] = D.Gaussian(mean=_m, prec=1.0 / p["cy"], name="y")
        f["x"] = K["make"](D, p["loc"].copy(), _fn([h], K["expr"].format(h=h)), 3, "x")
        f[h] = D.Gamma(p["gh"][0], p["gh"][1], name=h)
        return GR.Bundle(D.JointDistribution(f["y"], f["x"], f[h]), f, {"A": _m})

    def values(self, k):
        x = refs.dyadic_vec(3, k + 4)
        if KINDS[self.kind].get("positive"):
            x = np.abs(x) + 0.25
        return {"y": refs.dyadic_vec(2, k + 7), "x": x, self.names["h"]: GR.H3[0][k]}

    def ref_factors(self, k, v):
        p = self.par(k)
        K = KINDS[self.kind]
        h = self.names["h"]
        return {"y": GR.lg_gauss(v["y"], p["A"] @ v["x"], p["cy"]),
                "x": K["ref"](v["x"], p["loc"], K["fun"](float(v[h])), 3),
                h: GR.lg_gamma(v[h], *p["gh"])}


class TL(Named):
    template = "L"
    roles = ("h",)

    def setup(self):
        K = KINDS[self.kind]
        h = self.names["h"]
        self.entries = (("h", "y", K["entry"]),)
        self.title = "y~%s(Ax, %s=lambda %s: %s), x~LMRF(loc, scale), %s~Gamma" % (K["cls"], K["entry"], h, K["expr"].format(h=h), h)
        self.free = ["y", "x", h]
        self.dims = {"y": 2, "x": 3, h: 1}
        self.parents = {"y": ["x", h], "x": [], h: []}

    def attrs(self):
        return {"y": KINDS[self.kind]["attrs"], "x": ("location", "scale"), self.names["h"]: GAMMA_ATTRS}

    def par(self, k):
        return dict(A=refs.full_matrix(2, 3, k + 6), loc=refs.dyadic_vec(3, k + 3, scale=0.125), sx=[0.75, 0.5, 1.5][k],
                    gh=([2.5, 2.0, 1.5][k], [0.5, 1.5, 1.0][k]))

    def build(self, k):
        import cuqi
        D = cuqi.distribution
        p = self.par(k)
        K = KINDS[self.kind]
        h = self.names["h"]
        _m = cuqi.model.LinearModel(p["A"])
        f = {}
        f["y"] = K["make"](D, _m, _fn([h], K["expr"].format(h=h)), 2, "y")
        f["x"] = D.LMRF(p["loc"].copy(), p["sx"], bc_type="zero", geometry=3, name="x")
        f[h] = D.Gamma(p["gh"][0], p["gh"][1], name=h)
        return GR.Bundle(D.JointDistribution(f["y"], f["x"], f[h]), f, {"A": _m})

    def values(self, k):
        return {"y": refs.dyadic_vec(2, k + 8), "x": refs.dyadic_vec(3, k + 5), self.names["h"]: GR.H3[1][k]}

    def ref_factors(self, k, v):
        p = self.par(k)
        K = KINDS[self.kind]
        h = self.names["h"]
        return {"y": K["ref"](v["y"], p["A"] @ v["x"], K["fun"](float(v[h])), 2),
                "x": GR.lg_lmrf(v["x"], p["loc"], p["sx"], _D1(3)),
                h: GR.lg_gamma(v[h], *p["gh"])}


class TS(Named):
    template = "S"
    roles = ("h",)
    entries = (("h", "y", "prec"), ("h", "x", "cov"))

    def setup(self):
        h = self.names["h"]
        self.title = "y~N(Ax, prec=lambda %s: 3*%s), x~N(m0, cov=lambda %s: 2/%s), %s~Gamma" % (h, h, h, h, h)
        self.free = ["y", "x", h]
        self.dims = {"y": 2, "x": 3, h: 1}
        self.parents = {"y": ["x", h], "x": [h], h: []}

    def attrs(self):
        return {"y": ("mean", "prec"), "x": ("mean", "cov"), self.names["h"]: GAMMA_ATTRS}

    def par(self, k):
        return dict(A=refs.full_matrix(2, 3, k + 7), m0=refs.dyadic_vec(3, k + 1, scale=0.125),
                    gh=([3.0, 2.5, 2.0][k], [1.5, 1.0, 0.5][k]))

    def build(self, k):
        import cuqi
        D = cuqi.distribution
        p = self.par(k)
        h = self.names["h"]
        _m = cuqi.model.LinearModel(p["A"])
        f = {}
        f["y"] = D.Gaussian(mean=_m, prec=_fn([h], "3.0 * %s" % h), name="y")
        f["x"] = D.Gaussian(mean=p["m0"].copy(), cov=_fn([h], "2.0 / %s" % h), name="x")
        f[h] = D.Gamma(p["gh"][0], p["gh"][1], name=h)
        return GR.Bundle(D.JointDistribution(f["y"], f["x"], f[h]), f, {"A": _m})

    def values(self, k):
        return {"y": refs.dyadic_vec(2, k + 4), "x": refs.dyadic_vec(3, k + 9), self.names["h"]: GR.H3[2][k]}

    def ref_factors(self, k, v):
        p = self.par(k)
        h = self.names["h"]
        hv = float(v[h])
        return {"y": GR.lg_gauss(v["y"], p["A"] @ v["x"], 1.0 / (3.0 * hv)),
                "x": GR.lg_gauss(v["x"], p["m0"], 2.0 / hv),
                h: GR.lg_gamma(v[h], *p["gh"])}


class TM(Named):
    template = "M"
    roles = ("mu", "d")
    entries = (("mu", "x", "mean"), ("d", "x", "cov"))
    model_attrs = {}

    def setup(self):
        mu, d = self.names["mu"], self.names["d"]
        self.title = "x~N(mean=lambda %s: 2*%s*1, cov=lambda %s: 1/%s), %s~Laplace(m,v), %s~Gamma" % (mu, mu, d, d, mu, d)
        self.free = ["x", mu, d]
        self.dims = {"x": 3, mu: 1, d: 1}
        self.parents = {"x": [mu, d], mu: [], d: []}

    def attrs(self):
        return {"x": ("mean", "cov"), self.names["mu"]: ("location", "scale"), self.names["d"]: GAMMA_ATTRS}

    def par(self, k):
        return dict(mm=([0.5, -0.25, 1.0][k], [2.0, 0.5, 1.5][k]), gd=([2.0, 3.0, 1.5][k], [1.0, 2.0, 0.5][k]))

    def build(self, k):
        import cuqi
        D = cuqi.distribution
        p = self.par(k)
        mu, d = self.names["mu"], self.names["d"]
        f = {}
        f["x"] = D.Gaussian(mean=_fn([mu], "2.0 * %s * np.ones(3)" % mu), cov=_fn([d], "1.0 / %s" % d), geometry=3, name="x")
        f[mu] = D.Laplace(p["mm"][0], p["mm"][1], geometry=1, name=mu)
        f[d] = D.Gamma(p["gd"][0], p["gd"][1], name=d)
        return GR.Bundle(D.JointDistribution(f["x"], f[mu], f[d]), f)

    def values(self, k):
        return {"x": refs.dyadic_vec(3, k + 6), self.names["mu"]: [0.75, -0.5, 0.25][k], self.names["d"]: GR.H3[2][k]}

    def ref_factors(self, k, v):
        p = self.par(k)
        mu, d = self.names["mu"], self.names["d"]
        return {"x": GR.lg_gauss(v["x"], 2.0 * float(v[mu]) * np.ones(3), 1.0 / float(v[d])),
                mu: GR.lg_laplace(v[mu], p["mm"][0], p["mm"][1]),
                d: GR.lg_gamma(v[d], *p["gd"])}


class TQ(Named):
    template = "Q"
    roles = ("d", "s")
    entries = (("d", "x", "cov"), ("s", "y", "prec"))

    def setup(self):
        d, s = self.names["d"], self.names["s"]
        self.title = "y~N(Ax, prec=lambda %s: 3*%s), x~N(m0, cov=lambda %s: 2/%s), %s,%s~Gamma" % (s, s, d, d, d, s)
        self.free = ["y", "x", d, s]
        self.dims = {"y": 2, "x": 3, d: 1, s: 1}
        self.parents = {"y": ["x", s], "x": [d], d: [], s: []}

    def attrs(self):
        return {"y": ("mean", "prec"), "x": ("mean", "cov"), self.names["d"]: GAMMA_ATTRS, self.names["s"]: GAMMA_ATTRS}

    def par(self, k):
        return dict(A=refs.full_matrix(2, 3, k + 8), m0=refs.dyadic_vec(3, k + 5, scale=0.125),
                    gd=([2.0, 3.0, 1.5][k], [1.5, 0.5, 2.0][k]), gs=([3.0, 2.5, 4.0][k], [0.5, 1.0, 2.0][k]))

    def build(self, k):
        import cuqi
        D = cuqi.distribution
        p = self.par(k)
        d, s = self.names["d"], self.names["s"]
        _m = cuqi.model.LinearModel(p["A"])
        f = {}
        f["y"] = D.Gaussian(mean=_m, prec=_fn([s], "3.0 * %s" % s), name="y")
        f["x"] = D.Gaussian(mean=p["m0"].copy(), cov=_fn([d], "2.0 / %s" % d), name="x")
        f[d] = D.Gamma(p["gd"][0], p["gd"][1], name=d)
        f[s] = D.Gamma(p["gs"][0], p["gs"][1], name=s)
        return GR.Bundle(D.JointDistribution(f["y"], f["x"], f[d], f[s]), f, {"A": _m})

    def values(self, k):
        return {"y": refs.dyadic_vec(2, k + 2), "x": refs.dyadic_vec(3, k + 3), self.names["d"]: GR.H3[0][k], self.names["s"]: GR.H3[1][k]}

    def ref_factors(self, k, v):
        p = self.par(k)
        d, s = self.names["d"], self.names["s"]
        return {"y": GR.lg_gauss(v["y"], p["A"] @ v["x"], 1.0 / (3.0 * float(v[s]))),
                "x": GR.lg_gauss(v["x"], p["m0"], 2.0 / float(v[d])),
                d: GR.lg_gamma(v[d], *p["gd"]), s: GR.lg_gamma(v[s], *p["gs"])}


class TC(Named):
    template = "C"
    roles = ("b",)
    entries = (("b", "z", "location"), ("b", "w", "location"), ("b", "w", "scale"))
    model_attrs = {"w": "location"}  # (a callable of z and b)

    def setup(self):
        b = self.names["b"]
        self.title = ("%s~Gamma, z~Laplace(location=lambda %s: -%s/2, scale), w~Cauchy(location=lambda z, %s: z/2+%s/4, "
                      "scale=lambda %s: 2*%s)" % (b, b, b, b, b, b, b))
        self.free = [b, "z", "w"]
        self.dims = {b: 1, "z": 1, "w": 1}
        self.parents = {b: [], "z": [b], "w": ["z", b]}

    def attrs(self):
        return {self.names["b"]: GAMMA_ATTRS, "z": ("location", "scale"), "w": ("location", "scale")}

    def par(self, k):
        return dict(gb=([2.0, 3.0, 1.5][k], [1.5, 1.0, 0.5][k]), zs=[1.5, 0.5, 2.0][k])

    def build(self, k):
        import cuqi
        D = cuqi.distribution
        p = self.par(k)
        b = self.names["b"]
        f = {}
        f[b] = D.Gamma(p["gb"][0], p["gb"][1], name=b)
        f["z"] = D.Laplace(_fn([b], "-0.5 * %s" % b), p["zs"], geometry=1, name="z")
        f["w"] = D.Cauchy(_fn(["z", b], "0.5 * z + 0.25 * %s" % b), _fn([b], "2.0 * %s" % b), geometry=1, name="w")
        return GR.Bundle(D.JointDistribution(f[b], f["z"], f["w"]), f)

    def values(self, k):
        return {self.names["b"]: [0.75, 1.5, 0.5][k], "z": [0.5, -0.25, 1.25][k], "w": [-0.375, 0.875, 0.125][k]}

    def ref_factors(self, k, v):
        p = self.par(k)
        b = self.names["b"]
        bv = float(v[b])
        return {b: GR.lg_gamma(v[b], *p["gb"]),
                "z": GR.lg_laplace(v["z"], -0.5 * bv, p["zs"]),
                "w": GR.lg_cauchy(v["w"], 0.5 * float(v["z"]) + 0.25 * bv, 2.0 * bv)}


TEMPLATES = {"P": TP, "L": TL, "S": TS, "M": TM, "C": TC, "Q": TQ}
# 4-variable template Q in the quick tier: only the two assignments in which BOTH names are attributes
Q_QUICK = ({"d": "cov", "s": "prec"}, {"d": "prec", "s": "cov"})


# ------------------------------------------------------------------------------------------------------------
def name_alphabet(template, kind):
    """All assignments {role: name} of the template: for every role, generic + the name of every attribute of every
    density of the joint except those of the role's own prior; assignments with a repeated name are dropped.
    -> list of (names, naming facet) in a fixed order."""
    cls = TEMPLATES[template]
    g0 = cls(kind, {r: GENERIC[r] for r in cls.roles})
    at = g0.attrs()
    per_role = []
    for r in cls.roles:
        own_prior = GENERIC[r]
        cand = [GENERIC[r]]
        for f in g0.free:
            if f == own_prior:
                continue
            for a in at[f]:
                if a not in cand:
                    cand.append(a)
        per_role.append(cand)
    out = []

    def rec(i, cur):
        if i == len(cls.roles):
            names = dict(zip(cls.roles, cur))
            # a name must not be an attribute of the prior of the variable that carries it
            try:
                g = cls(kind, names)
            except AssertionError:
                return
            for r in cls.roles:
                if names[r] in g.attrs()[names[r]]:
                    return
            out.append((names, g.naming()))
            return
        for c in per_role[i]:
            if c not in cur:
                rec(i + 1, cur + [c])
    rec(0, [])
    return out


def catalogue(tier):
    """[(template, kind, names, naming)]; the all-generic assignment only in the thorough tier (the catalogue graphs of
    _graphs.py already are generic namings of the same shapes)."""
    out = []
    for template, kinds in (("P", P_KINDS), ("L", L_KINDS), ("S", [None]), ("M", [None]), ("C", [None]), ("Q", [None])):
        for kind in kinds:
            for names, naming in name_alphabet(template, kind):
                if naming == "generic" and tier == "quick":
                    continue
                if template == "Q" and tier == "quick" and names not in Q_QUICK:
                    continue
                out.append((template, kind, names, naming))
    return out


def graph_of(spec):
    return TEMPLATES[spec["template"]](spec.get("kind"), spec["names"])
