"""C08 - the No-U-Turn sampler leaves its target invariant (exact, orbit-wise).

The leapfrog map is a volume preserving bijection, so phase space decomposes into orbits
z_k = Phi^k(z_0).  Momentum refresh and slice draw are exact Gibbs steps; the remaining NUTS transition
preserves the target iff, for every orbit and slice level l, the transition matrix it induces on orbit
indices is doubly stochastic on S = {k : H(z_k) >= l}.  For each (target, step size, max depth, orbit,
level) the REAL sampler is started from every orbit point of a window with the momentum request answered
by r_k, the exponential request by H_k - l and all uniforms symbolic; the complete decision tree is
enumerated, giving exact rows P[k -> .].  Every leaf is additionally replayed on a reference NUTS model
(Hoffman & Gelman Alg. 3 on orbit indices): same decision probabilities, same evaluated points, same
selected candidate, same acceptance statistic.
"""
import copy
import numpy as np
from vfw.core import CellResult, close, HarnessError
from vfw import refs
from vfw.stream import Stream, Decisions, explore

PROPERTY = "C08"
RULE = ("cells = interface x target x step size x max depth x base point x history; inside a cell every slice "
        "level of the catalogue and every start index of the window is executed on the real sampler and its "
        "complete uniform-decision tree is enumerated; non-trivial = at least one start has more than one "
        "reachable end state; sibling cells additionally construct / initialise / step a decoy NUTS object on another target of the "
        "same dimension (same start, step size, depth) in the same process, in every listed interleaving with the sampler under "
        "test, and require its transition to conform to the reference AND to equal, leaf by leaf, the one made with no sibling")
BOUND = {"quick": "targets: 1-D Gaussian, correlated 2-D Gaussian, 2-D banana, stiff/soft 2-D Gaussian; eps in {0.05,0.6,1.3,2.1} (stiff: 0.85, 0.95); "
                  "max depth 0,1 (+ depth 2 on one orbit, + depth 3 from the base point of one event orbit per value catalogue); 1 base point; "
                  "3 slice levels; columns -1..1; log-density offsets -800/+800; integer-valued start given as int array / list / float array; "
                  "sibling interleavings (7 experimental: orders of iA/iB with the decoy's step absent, before cB, before iB or before sB; "
                  "3 legacy: orders of cA/sA relative to cB) on the correlated Gaussian, eps 0.6, depth 1, decoy = banana + 2.5",
         "thorough": "max depth 0..2 everywhere (+3 for the event orbits of all catalogues and four stiff/banana orbits); 3 base points; 4 slice "
                     "levels; after-warm-up history; offsets and start representations on four (target, eps, depth) combinations; sibling interleavings on three "
                     "(target, eps, depth) combinations"}
ASSUMPTIONS = [
    "sibling facet: one decoy object, one decoy step (under its own scripted stream with default decisions), decoy target of the same "
    "dimension with a log-density above the tested target's maximum at the common start; longer sibling histories are not enumerated",
    "the acceptance statistic fed to step-size adaptation is read off H_bar after warmup(1) (first dual-averaging update) for the "
    "experimental interface; it is compared with the mean Metropolis probability over the leaves the reference model integrated in "
    "the last doubling, for depth <= 1 everywhere, depth 2 on the stiff orbits and depth 3 on the event orbits (events counted in "
    "coverage.branches, e.g. 'second-half-integrated-fewer-leaves')",
    "a slice variable drawn as log(U(0, exp(H))) is answered by log(exp(H)) - e with the same scripted exponential e (exact law)",
    "one-step invariance per (orbit, slice level) + exactness of the Gibbs refresh steps implies invariance for any "
    "number of transitions (standard argument); orbits/levels are a catalogue",
    "orbit points are matched at 1e-8; slice levels are placed midway between orbit energies so no comparison is "
    "within rounding distance",
]


# ----------------------------------------------------------------------------------------
class Tgt:
    def __init__(self, name, k, offset=0.0):
        import cuqi
        self.calls = []
        if name == "gauss1":
            var = [1.5, 0.75, 2.0][k]
            lp = lambda x: float(-0.5 * x[0] ** 2 / var)
            gr = lambda x: -x / var
            d = 1
        elif name == "gauss2c":
            C = refs.spd_matrix(2, k)
            P = np.linalg.inv(C)
            mu = np.array([0.25, -0.5])
            lp = lambda x: float(-0.5 * (x - mu) @ P @ (x - mu))
            gr = lambda x: -P @ (x - mu)
            d = 2
        elif name == "stiff2":
            var = np.array([0.25, 4.0]) * [1.0, 0.75, 1.25][k]
            lp = lambda x: float(-0.5 * np.sum(x ** 2 / var))
            gr = lambda x: -x / var
            d = 2
        elif name == "pole1":
            # unguarded pole: the log-density overflows to +inf on part of the line (such leaves sit inside every slice; only
            # the explicit finiteness test keeps them out of the chain); the gradient stays finite
            thr = [1.7371, 1.6129, 1.8643][k]
            lp = lambda x: float("inf") if x[0] > thr else float(-0.5 * x[0] ** 2)
            gr = lambda x: -x
            d = 1
        elif name == "banana2":
            b = [0.5, 0.25, 0.75][k]
            lp = lambda x: float(-0.5 * (x[0] ** 2 / 4.0 + (x[1] + b * x[0] ** 2 - 1.0) ** 2))

            def gr(x):
                t = x[1] + b * x[0] ** 2 - 1.0
                return np.array([-(x[0] / 4.0 + t * 2 * b * x[0]), -t])
            d = 2
        else:
            raise KeyError(name)
        if offset:
            # unnormalised target: the log-density carries an additive constant (invariance does not depend on it)
            lp0 = lp
            lp = lambda x: lp0(x) + offset
        self.dim, self.lp, self.gr = d, lp, gr

        def grec(x):
            x = np.asarray(x, dtype=float).ravel()
            self.calls.append(x.copy())
            return gr(x)
        self.obj = cuqi.distribution.UserDefinedDistribution(
            dim=d, logpdf_func=lambda x: lp(np.asarray(x, dtype=float).ravel()), gradient_func=grec)


BASES = {
    "gauss1": [([0.4], [0.9]), ([-1.1], [0.3]), ([0.2], [-1.7])],
    "pole1": [([1.2], [1.6]), ([0.3], [2.0]), ([1.0], [-1.9])],      # orbits that enter the +inf region
    "gauss2c": [([0.5, -0.3], [0.8, -0.6]), ([-0.7, 0.9], [0.2, 1.1]), ([1.2, 0.4], [-0.9, -0.3])],
    "banana2": [([0.6, 0.4], [0.7, -0.5]), ([-1.0, 0.2], [0.4, 0.9]), ([0.1, 1.3], [-1.2, 0.3])],
    # found by an offline scan of the reference model: these orbits contain sub-trees whose SECOND half stops
    # (U-turn between its leaves) while the outer span does not (event "second-half-stop-only")
    "stiff2": [([-0.3, 1.5], [0.5, 0.4]), ([-1.0, -2.0], [-0.4, 1.1]), ([-0.3, 0.5], [0.9, 1.1])],
}


D3_EVENT = {0: ("banana2", 0.6, 2), 1: ("banana2", 1.0, 1), 2: ("stiff2", 0.5, 0)}     # value catalogue -> (target, step size, base point)

INT_BASES = {   # integer-valued start points (one per value catalogue)
    "gauss1": [([1], [0.9]), ([-2], [0.3]), ([0], [-1.7])],
    "gauss2c": [([1, -1], [0.8, -0.6]), ([0, 2], [0.2, 1.1]), ([-1, 0], [-0.9, -0.3])],
    "banana2": [([1, 0], [0.7, -0.5]), ([-1, 1], [0.4, 0.9]), ([0, 2], [-1.2, 0.3])],
}


# interleavings of {construct, initialise, step} of a decoy sampler A with the sampler under test B (observed: B's step, last).
# experimental: all orders of iA/iB with sA absent, before iB, or between the initialisations and sB; legacy has no separate
# initialisation (sample() does everything), so the orders of cA/sA relative to cB.
SIB_SCHEDULES = {
    "exp": ("cA-cB-iA-iB-sB", "cA-cB-iB-iA-sB", "cA-iA-cB-iB-sB", "cA-iA-sA-cB-iB-sB", "cA-cB-iA-iB-sA-sB", "cA-cB-iB-iA-sA-sB", "cA-cB-iA-sA-iB-sB"),
    "legacy": ("cA-cB-sB", "cA-cB-sA-sB", "cA-sA-cB-sB"),
}
SIB_TARGET = {"gauss2c": "banana2", "banana2": "stiff2", "stiff2": "gauss2c", "gauss1": "gauss1"}


def _x0(th, rep):
    if rep == "int":
        return np.array(np.round(th), dtype=int)
    if rep == "list":
        return [int(round(v)) for v in th]
    return np.array(th, dtype=float)


class Orbit:
    """z_k = Phi_eps^k(z_0), computed lazily with the reference leapfrog integrator."""

    def __init__(self, tgt, th0, r0, eps):
        self.t, self.eps = tgt, float(eps)
        th0, r0 = np.array(th0, float), np.array(r0, float)
        self.pts = {0: (th0, r0, tgt.gr(th0))}

    def _leap(self, th, r, g, e):
        rn = r + 0.5 * e * g
        tn = th + e * rn
        gn = self.t.gr(tn)
        rn = rn + 0.5 * e * gn
        return tn, rn, gn

    def get(self, k):
        if k not in self.pts:
            if k > 0:
                th, r, g = self.get(k - 1)
                self.pts[k] = self._leap(th, r, g, self.eps)
            else:
                th, r, g = self.get(k + 1)
                self.pts[k] = self._leap(th, r, g, -self.eps)
        return self.pts[k]

    def theta(self, k):
        return self.get(k)[0]

    def r(self, k):
        return self.get(k)[1]

    def logd(self, k):
        return self.t.lp(self.get(k)[0])

    def H(self, k):
        th, r, _ = self.get(k)
        v = self.t.lp(th) - 0.5 * float(r @ r)
        return v if (np.isfinite(v) or v == np.inf) else -np.inf

    def index_of(self, th, lo, hi):
        hit = [k for k in range(lo, hi + 1) if np.all(np.isfinite(self.theta(k))) and close(self.theta(k), th, 1e-8, atol=1e-8)]
        return hit


# ----------------------------------------------------------------------------------------
# reference NUTS (Hoffman & Gelman 2014, Algorithm 3) on orbit indices
# ----------------------------------------------------------------------------------------
class ModelMismatch(Exception):
    def __init__(self, what):
        super().__init__(what)
        self.what = what


def ref_nuts(orb, k, ell, D, decide, finite_guard, cov=None):
    """Returns (final index, evaluated indices, alpha statistic of the last doubling).
    ``cov`` (dict) counts which stopping/selection events of the algorithm the replayed leaf exercised."""
    evaluated = []
    cov = {} if cov is None else cov

    def hit(name):
        cov[name] = cov.get(name, 0) + 1
    H0 = orb.H(k)

    def uturn(m, p):
        d = orb.theta(p) - orb.theta(m)
        return int(float(d @ orb.r(m)) >= 0) * int(float(d @ orb.r(p)) >= 0)

    def build(idx, v, j):
        if j == 0:
            new = idx + v
            evaluated.append(new)
            Hn = orb.H(new)
            if Hn == np.inf:
                hit("leaf-with-log-density-+inf")
            n_ = int(ell <= Hn)
            s_ = int(ell < 1000 + Hn)
            if not n_:
                hit("leaf-outside-slice")
            if not s_:
                hit("leaf-divergent")
            dH = Hn - H0
            a_ = 1.0 if dH > 0 else (float(np.exp(dH)) if np.isfinite(dH) else 0.0)
            return new, new, new, n_, s_, a_, 1
        m, p, prime, n_, s_, a_, na_ = build(idx, v, j - 1)
        if s_ == 1:
            if v == -1:
                m, _, prime2, n2, s2, a2, na2 = build(m, v, j - 1)
            else:
                _, p, prime2, n2, s2, a2, na2 = build(p, v, j - 1)
            if decide(n2 / max(1, n_ + n2), "subtree"):
                prime = prime2
            if na2 != na_:
                hit("second-half-integrated-fewer-leaves")     # matters for the acceptance statistic alpha / n_alpha
            a_ += a2
            na_ += na2
            ut = uturn(m, p)
            if not s2:
                hit("subtree-second-half-stopped(depth>=%d)" % min(j, 2))
                if ut:
                    hit("second-half-stop-only")   # the outer span itself does not U-turn: only s2 stops the tree
            elif not ut:
                hit("subtree-uturn(depth>=%d)" % min(j, 2))
            s_ = s2 * ut
            n_ += n2
        else:
            hit("subtree-first-half-stopped")
        return m, p, prime, n_, s_, a_, na_

    minus = plus = cur = k
    j, s, n = 0, 1, 1
    alpha_stat = None
    while s == 1 and j <= D:
        v = 1 if decide(0.5, "direction") else -1
        if v == -1:
            minus, _, prime, n_, s_, a_, na_ = build(minus, v, j)
        else:
            _, plus, prime, n_, s_, a_, na_ = build(plus, v, j)
        if s_ == 1 and decide(min(1.0, n_ / n), "top"):
            if (not finite_guard) or np.isfinite(orb.logd(prime)):
                cur = prime
        n += n_
        if not s_:
            hit("doubling-rejected(sub-tree stopped)")
        elif not uturn(minus, plus):
            hit("top-level-uturn")
        s = s_ * uturn(minus, plus)
        j += 1
        if s == 1 and j > D:
            hit("max-depth-reached")
        alpha_stat = a_ / na_
    return cur, evaluated, alpha_stat


# ----------------------------------------------------------------------------------------
def cells(tier, seed):
    k = refs.cat(seed)
    for iface in ("exp", "legacy"):
        for t in ("gauss1", "gauss2c", "banana2"):
            for eps in (0.05, 0.6, 1.3, 2.1):
                depths = (0, 1) if tier == "quick" else (0, 1, 2)
                for D in depths:
                    nb = 1 if tier == "quick" else (3 if D < 2 else 2)
                    for b in range(nb):
                        yield {"iface": iface, "target": t, "eps": eps, "D": D, "base": b, "hist": "fresh", "cat": k, "tier": tier}
            if tier == "quick":
                yield {"iface": iface, "target": t, "eps": 0.6, "D": 2, "base": 0, "hist": "fresh", "cat": k, "tier": tier}
            else:
                yield {"iface": iface, "target": t, "eps": 1.3, "D": 3, "base": 0, "hist": "fresh", "cat": k, "tier": tier, "cols": 0}
            if iface == "exp":
                for D in ((1,) if tier == "quick" else (0, 1, 2)):
                    yield {"iface": iface, "target": t, "eps": 0.6, "D": D, "base": 1, "hist": "warm", "cat": k, "tier": tier}
        # unnormalised targets: log-density level far outside the range where exp() is representable
        for off in (-800.0, 800.0):
            for t, eps, D in ((("gauss2c", 0.6, 1),) if tier == "quick" else (("gauss2c", 0.6, 1), ("gauss2c", 1.3, 2), ("banana2", 0.6, 2), ("gauss1", 2.1, 1))):
                yield {"iface": iface, "target": t, "eps": eps, "D": D, "base": 0, "hist": "fresh", "cat": k, "tier": tier, "off": off}
        # a target whose log-density reaches +inf (pole): non-finite states are never selected (no invariance claim there)
        for eps, D, b in (((0.4, 2, 0),) if tier == "quick" else ((0.4, 2, 0), (0.4, 1, 1), (0.8, 2, 1), (0.4, 3, 2))):
            yield {"iface": iface, "target": "pole1", "eps": eps, "D": D, "base": b, "hist": "fresh", "cat": k, "tier": tier, "pole": True}
        # representation of the initial point: integer-valued start given as integer array / list / float array
        for rep in ("int", "list", "float"):
            for t, eps, D in ((("gauss2c", 0.6, 1),) if tier == "quick" else (("gauss2c", 0.6, 1), ("gauss2c", 0.6, 2), ("banana2", 0.6, 1), ("gauss1", 0.6, 1))):
                yield {"iface": iface, "target": t, "eps": eps, "D": D, "base": "int", "hist": "fresh", "cat": k, "tier": tier, "x0rep": rep, "cols": 0}
        # the process is part of the state: a sibling (decoy) NUTS object on ANOTHER target of the same dimension, at the same
        # initial point / step size / depth, is constructed (c), initialised (i; experimental only) and stepped (s) in the same
        # process, interleaved with the sampler under test (B) in every order that ends with B's transition
        for sched in SIB_SCHEDULES[iface]:
            for t, eps, D in ((("gauss2c", 0.6, 1),) if tier == "quick" else (("gauss2c", 0.6, 1), ("banana2", 0.6, 2), ("gauss1", 1.3, 1))):
                yield {"iface": iface, "target": t, "eps": eps, "D": D, "base": 0, "hist": "fresh", "cat": k, "tier": tier, "cols": 0, "sib": sched}
        # depth 3 on the stiff orbits, start at the base point only: doublings whose SECOND half stops after integrating fewer
        # leaves than the first (U-turn inside the second half's first quarter) - matters for the acceptance statistic
        if iface == "exp":
            # (orbit, step and slice level found per value catalogue by scanning the reference model for the event
            #  "second-half-integrated-fewer-leaves" and taking the smallest decision tree that contains it)
            for kk3 in ((k,) if tier == "quick" else (0, 1, 2)):
                t3, eps, b = D3_EVENT[kk3]
                yield {"iface": iface, "target": t3, "eps": eps, "D": 3, "base": b, "hist": "fresh", "cat": k, "tier": tier, "cols": 0,
                       "start0": True, "level": "lower-third"}
            if tier != "quick":
                for t3, eps, b in (("banana2", 0.6, 2), ("stiff2", 0.7, 0), ("stiff2", 0.85, 0), ("stiff2", 0.95, 1)):
                    yield {"iface": iface, "target": t3, "eps": eps, "D": 3, "base": b, "hist": "fresh", "cat": k, "tier": tier, "cols": 0, "start0": True}
        # stiff/soft Gaussian with the step near the stability limit of the stiff direction: U-turns *inside* sub-trees
        for eps, bases in (((0.85, (0,)), (0.95, (1,))) if tier == "quick" else ((0.7, (0, 1, 2)), (0.85, (0, 1, 2)), (0.95, (0, 1, 2)))):
            for D in ((2,) if tier == "quick" else (1, 2, 3)):
                for b in (bases if D < 3 else bases[:1]):
                    c = {"iface": iface, "target": "stiff2", "eps": eps, "D": D, "base": b, "hist": "fresh", "cat": k, "tier": tier}
                    if D == 3:
                        c["cols"] = 0
                    yield c


def eval_cell(cell):
    import cuqi
    res = CellResult(cell)
    k = cell["cat"]
    tgt = Tgt(cell["target"], k, cell.get("off", 0.0))
    D, iface = cell["D"], cell["iface"]
    comp = "%s.NUTS" % iface
    if cell["base"] == "int":
        th0, r0 = INT_BASES[cell["target"]][k]
        th0 = np.array(th0, dtype=float)
    else:
        th0, r0 = BASES[cell["target"]][cell["base"]]
        th0 = np.array(th0) + 0.03125 * k
    eps = cell["eps"]
    saved = None
    facet = "history=%s" % cell["hist"]
    if cell.get("off"):
        facet += ",logd-offset=%s" % ("large-negative" if cell["off"] < 0 else "large-positive")
    if cell.get("x0rep"):
        facet += ",x0=%s" % cell["x0rep"]
    if cell.get("sib"):
        facet += ",sibling=%s" % cell["sib"]
    if cell["hist"] == "warm":
        s = cuqi.experimental.mcmc.NUTS(tgt.obj, initial_point=np.array(th0), max_depth=D, step_size=eps)
        st = Stream(normal=lambda n, i: refs.dyadic_vec(n, i + k, scale=0.25), exponential=lambda rec, i: [0.3, 0.7, 0.2][i % 3], log_uniform="exponential")
        with st.installed():
            s.warmup(2)
        saved = copy.deepcopy(s.get_state())
        eps = float(saved["state"]["_epsilon"])
        # (vii) sampling-phase step sizes do not depend on sampling-phase decisions
        seen = []
        for pattern in ([], [False, False, False, False], [True, False, True, False]):
            s2 = cuqi.experimental.mcmc.NUTS(tgt.obj, initial_point=np.array(th0), max_depth=D, step_size=cell["eps"])
            s2.initialize()
            s2.set_state(copy.deepcopy(saved))
            st2 = Stream(normal=lambda n, i: refs.dyadic_vec(n, i + 2 + k, scale=0.25), exponential=lambda rec, i: 0.4, log_uniform="exponential",
                         decisions=Decisions(pattern))
            with st2.installed():
                s2.sample(3)
            seen.append([float(e) for e in s2.epsilon_list[-3:]])
            res.transitions += 3
        if not all(close(a, seen[0], 1e-14) for a in seen[1:]):
            res.fail("C08|%s|stepsize-depends-on-sampling-decisions|" % comp, "step sizes used in the sampling phase differ "
                     "between decision patterns: %s" % seen)
    orb = Orbit(tgt, th0, r0, eps)
    W = 2 ** (D + 1) - 1
    c = cell.get("cols", 1)
    lo, hi = -2 * W - c - 1, 2 * W + c + 1
    Hs = {i: orb.H(i) for i in range(lo, hi + 1)}
    starts = list(range(-W - c, W + c + 1))
    if cell.get("x0rep") or cell.get("start0"):
        starts = [0]          # only the base point itself (x0rep: the only integer-valued point of the orbit)
    # slice levels: below everything, and midpoints at the quantiles of the start energies
    hv = sorted(set(round(v, 12) for v in Hs.values() if np.isfinite(v)))
    sv = sorted(Hs[i] for i in starts if np.isfinite(Hs[i]))
    levels = [hv[0] - 1.0]
    nl = 2 if cell["tier"] == "quick" else 3
    for q in range(1, nl + 1):
        target_v = sv[min(len(sv) - 1, (q * len(sv)) // (nl + 1))]
        below = [v for v in hv if v < target_v - 1e-9]
        if below:
            lv = 0.5 * (below[-1] + min(v for v in hv if v > below[-1]))
            if all(abs(lv - x) > 1e-7 for x in hv) and all(abs(lv - y) > 1e-9 for y in levels):
                levels.append(lv)
    if cell.get("start0"):
        levels = levels[:1]      # depth-3 trees are large: one slice level (everything inside the slice) ...
        if cell.get("level") == "lower-third":      # ... or the level between the energies at the lower third of a 33-point window
            hw = sorted(v for v in (orb.H(i) for i in range(-16, 17)) if np.isfinite(v))
            levels = [0.5 * (hw[len(hw) // 3] + hw[len(hw) // 3 + 1])]
    nontrivial = False
    for ell in levels:
        S = [i for i in range(lo, hi + 1) if Hs[i] >= ell]
        P = {}
        for kk in starts:
            if not (Hs[kk] >= ell) or not np.isfinite(Hs[kk]):
                continue
            row, multi = run_start(cell, tgt, orb, kk, ell, D, eps, saved, res, comp, facet, lo, hi, S)
            if row is None:
                continue
            P[kk] = row
            # anti-vacuity: the distinct selection distributions (relative leaf index -> probability) actually observed
            res.outcomes.add("row=" + ",".join("%d:%.4f" % (int(j) - kk, pj) for j, pj in sorted(row.items())))
            nontrivial = nontrivial or multi
            res.state("l=%.6g:k=%d" % (ell, kk))
        # double stochasticity: columns whose possible predecessors were all started
        for col in (range(-c, c + 1) if not cell.get("pole") else ()):
            if col not in S or any((kk in S and np.isfinite(Hs[kk])) and kk not in P for kk in range(col - W, col + W + 1)):
                continue
            tot = sum(P[kk].get(col, 0.0) for kk in P)
            res.evaluations += 1
            res.outcomes.add("col=%.6f" % tot)
            if not close(tot, 1.0, 1e-9):
                res.fail("C08|%s|column-sum|%s" % (comp, facet),
                         "transition matrix on orbit indices is not doubly stochastic on the slice: column %d sums to %.12g "
                         "(eps=%g, depth=%d, level=%.6g)" % (col, tot, eps, D, ell),
                         focus={"level": ell, "column": col}, rows={str(kk): P[kk] for kk in P})
    res.nontrivial = nontrivial
    return res


def run_start(cell, tgt, orb, kk, ell, D, eps, saved, res, comp, facet, lo, hi, S):
    import cuqi
    iface = cell["iface"]
    th_k, r_k = orb.theta(kk), orb.r(kk)
    e_ans = orb.H(kk) - ell
    gorb = orb
    # local view of the orbit, integrated from the start point itself (bit-identical operations to the
    # implementation's leapfrog, so chaotic amplification of rounding cannot cause mismatches); the global
    # index of local index i is kk+i
    orb = Orbit(tgt, th_k, r_k, eps)
    Wl = 2 ** (D + 1)
    for i in range(-Wl, Wl + 1):
        hg, hl = gorb.H(kk + i), orb.H(i)
        if (hg >= ell) != (hl >= ell) or not (close(hg, hl, 1e-6) or (not np.isfinite(hg) and not np.isfinite(hl))):
            res.outcomes.add("unstable-orbit")
            res.count("numerically_unstable_starts_skipped")
            return None, False

    def run_sib(d):
        """B = sampler under test, A = decoy on another target of the same dimension (same start, step size, depth)."""
        tgt.calls = []
        st = Stream(normal=[r_k], exponential=[e_ans], decisions=d, log_uniform="exponential")
        dec = Tgt(SIB_TARGET[cell["target"]], (cell["cat"] + 1) % 3, offset=2.5)
        smp, out = {}, None
        for op in cell["sib"].split("-"):
            who = op[1]
            if op[0] == "c":
                obj = tgt.obj if who == "B" else dec.obj
                if iface == "exp":
                    smp[who] = cuqi.experimental.mcmc.NUTS(obj, initial_point=np.array(th_k), max_depth=D, step_size=cell["eps"])
                else:
                    smp[who] = cuqi.sampler.NUTS(obj, x0=np.array(th_k), max_depth=D, adapt_step_size=eps)
            elif op[0] == "i":
                smp[who].initialize()
            elif who == "A":
                sa = Stream(normal=lambda n, i: refs.dyadic_vec(n, i + cell["cat"], scale=0.5), exponential=lambda rec, i: 0.3, log_uniform="exponential")
                with sa.installed():
                    smp["A"].sample(1 if iface == "exp" else 2)
            else:
                s = smp["B"]
                if iface == "exp":
                    tgt.calls = []
                    with st.installed():
                        s.sample(1)
                    state = s.get_state()["state"]
                    out = {"x": np.array(s.current_point, float), "logd": float(np.asarray(state["current_target_logd"]).ravel()[0]),
                           "grad": np.array(state["current_target_grad"], float), "calls": list(tgt.calls),
                           "eps_used": float(s.epsilon_list[-1])}
                else:
                    with st.installed():
                        r = s.sample(2)
                    out = {"x": np.array(r.samples[:, 1], float), "logd": float(r.loglike_eval[1]), "grad": None,
                           "calls": list(tgt.calls)[1:], "eps_used": float(s.epsilon_list[-1])}
        return out

    def run(d):
        if cell.get("sib"):
            return run_sib(d)
        return run_alone(d)

    def run_alone(d):
        tgt.calls = []
        st = Stream(normal=[r_k], exponential=[e_ans], decisions=d, log_uniform="exponential")
        x0 = _x0(th_k, cell["x0rep"]) if cell.get("x0rep") else np.array(th_k)
        if iface == "exp":
            s = cuqi.experimental.mcmc.NUTS(tgt.obj, initial_point=x0, max_depth=D, step_size=cell["eps"])
            s.initialize()
            if saved is not None:
                stt = copy.deepcopy(saved)
                stt["state"]["current_point"] = np.array(th_k)
                stt["state"]["current_target_logd"] = tgt.obj.logd(th_k)
                stt["state"]["current_target_grad"] = tgt.obj.gradient(th_k)
                s.set_state(stt)
            tgt.calls = []
            with st.installed():
                s.sample(1)
            state = s.get_state()["state"]
            return {"x": np.array(s.current_point, float), "logd": float(np.asarray(state["current_target_logd"]).ravel()[0]),
                    "grad": np.array(state["current_target_grad"], float), "calls": list(tgt.calls),
                    "eps_used": float(s.epsilon_list[-1])}
        s = cuqi.sampler.NUTS(tgt.obj, x0=x0, max_depth=D, adapt_step_size=eps)
        with st.installed():
            r = s.sample(2)
        return {"x": np.array(r.samples[:, 1], float), "logd": float(r.loglike_eval[1]), "grad": None,
                "calls": list(tgt.calls)[1:], "eps_used": float(s.epsilon_list[-1])}   # first call: gradient at x0

    try:
        leaves = explore(run, max_leaves=400000)
    except HarnessError:
        raise
    except Exception as e:
        # the sampler raised (e.g. 'NaN potential func'): allowed refusal, nothing selected
        res.refused += 1
        res.outcomes.add("raised:%s" % type(e).__name__)
        return None, False
    res.transitions += len(leaves)
    if cell.get("sib"):
        # differential oracle: the transition of B must not depend on the presence / history of the sibling
        try:
            alone = explore(run_alone, max_leaves=400000)
        except HarnessError:
            raise
        except Exception:
            alone = None
        if alone is not None:
            res.transitions += len(alone)
            ma = {tuple(d.choices): (d, o) for d, o in alone}
            mb = {tuple(d.choices): (d, o) for d, o in leaves}
            same = set(ma) == set(mb)
            for key in (ma if same else ()):
                (da, oa), (db, ob) = ma[key], mb[key]
                same = same and close(da.prob, db.prob, 1e-12) and close(oa["x"], ob["x"], 1e-13) and close(oa["logd"], ob["logd"], 1e-13) \
                    and (oa["grad"] is None or close(oa["grad"], ob["grad"], 1e-13)) and len(oa["calls"]) == len(ob["calls"])
            res.evaluations += 1
            res.outcomes.add("sibling-differential=%s" % ("same" if same else "differs"))
            if not same:
                res.fail("C08|%s|sibling-dependence|%s" % (comp, facet), "the transition (decision tree, probabilities, end state or caches) of a "
                         "sampler differs from the one it makes with no sibling sampler in the process: %d leaves vs %d alone"
                         % (len(leaves), len(alone)), focus={"level": ell, "start": kk})
    row = {}
    for d, o in leaves:
        res.traces += 1
        focus = {"level": ell, "start": kk, "choices": d.choices}
        if not close(o["eps_used"], eps, 1e-12):
            res.fail("C08|%s|step-size-used|%s" % (comp, facet), "step size used %r != configured/adapted %r" % (o["eps_used"], eps), focus=focus)
        hit = orb.index_of(o["x"], -Wl, Wl)
        if not np.all(np.isfinite(o["x"])) or not np.isfinite(o["logd"]):
            res.fail("C08|%s|non-finite-selected|%s" % (comp, facet), "non-finite state selected", focus=focus)
            continue
        if len(hit) != 1:
            res.fail("C08|%s|off-orbit|%s" % (comp, facet), "end state %s is not a point of the leapfrog orbit (integrator not "
                     "the reversible volume-preserving leapfrog map?)" % o["x"], focus=focus)
            continue
        j = hit[0]
        if not (orb.H(j) >= ell):
            res.fail("C08|%s|outside-slice|%s" % (comp, facet), "selected state has H=%.6g below the slice level %.6g" % (orb.H(j), ell), focus=focus)
        row[kk + j] = row.get(kk + j, 0.0) + d.prob
        # cached log-density / gradient belong to the current point
        if not close(o["logd"], orb.logd(j), 1e-9):
            res.fail("C08|%s|cache-logd|%s" % (comp, facet), "cached log-density %r != target at the current point %r" % (o["logd"], orb.logd(j)), focus=focus)
        if o["grad"] is not None and not close(o["grad"], tgt.gr(orb.theta(j)), 1e-8):
            res.fail("C08|%s|cache-grad|%s" % (comp, facet), "cached gradient does not belong to the current point", focus=focus)
        # ---- conformance: replay this leaf on the reference NUTS model -------------------
        pts = [(p, ch) for (p, ch, _) in d.points]
        pos = [0]

        def decide(p_ref, kind):
            if pos[0] >= len(pts):
                raise ModelMismatch("model asks for a %s decision the implementation did not make" % kind)
            p_impl, ch = pts[pos[0]]
            pos[0] += 1
            if not close(p_impl, p_ref, 1e-9):
                raise ModelMismatch("%s decision probability %.12g, reference NUTS %.12g" % (kind, p_impl, p_ref))
            return ch
        try:
            jf, ev, astat = ref_nuts(orb, 0, ell, D, decide, finite_guard=True, cov=res.branches)
            if pos[0] != len(pts):
                raise ModelMismatch("implementation made %d more decisions than the reference" % (len(pts) - pos[0]))
            if jf != j:
                raise ModelMismatch("selected candidate index %d, reference NUTS selects %d" % (j, jf))
            got = []
            for cpt in o["calls"]:
                h = orb.index_of(cpt, -Wl - 1, Wl + 1)
                got.append(h[0] if len(h) == 1 else None)
            if None in got or sorted(got) != sorted(ev):
                raise ModelMismatch("target evaluated at orbit indices %s, reference tree extent %s (trajectory must stop at "
                                    "the first U-turn/divergence)" % (got, ev))
        except ModelMismatch as mm:
            res.fail("C08|%s|conformance|%s" % (comp, facet), "leaf differs from reference NUTS: " + mm.what, focus=focus)
    ptot = sum(row.values())
    if row and not close(ptot, 1.0, 1e-9):
        res.fail("C08|%s|row-sum|%s" % (comp, facet), "row %d sums to %.12g" % (kk, ptot))
    # ---- (vi) acceptance statistic fed to dual averaging (experimental, first tuning call) ----------
    # (D <= 1 everywhere; on the stiff orbits also D = 2, where doublings are stopped INSIDE their second half, so that the
    #  statistic must be averaged over the leaves that were actually integrated)
    if iface == "exp" and saved is None and not cell.get("x0rep") and ((kk in (0, 1) and D <= 1) or (cell["target"] == "stiff2" and D == 2 and kk in (-1, 0, 1, 2)) or cell.get("start0")):
        check_alpha_stat(cell, tgt, orb, 0, ell, D, res, comp)
    if res.sample is None and len(row) > 1:
        res.sample = {"level": ell, "start_index": kk, "row": {str(a): b for a, b in sorted(row.items())},
                      "leaves": [{"choices": d.choices, "prob": d.prob} for d, _ in leaves[:6]]}
    return row, len(row) > 1


def check_alpha_stat(cell, tgt, orb, kk, ell, D, res, comp):
    """warmup(1): H_bar after the first tuning call reveals the acceptance statistic alpha/n_alpha."""
    import cuqi
    th_k, r_k = orb.theta(kk), orb.r(kk)

    def run(d):
        st = Stream(normal=[r_k], exponential=[orb.H(kk) - ell], decisions=d, log_uniform="exponential")
        s = cuqi.experimental.mcmc.NUTS(tgt.obj, initial_point=np.array(th_k), max_depth=D, step_size=cell["eps"], opt_acc_rate=0.6)
        with st.installed():
            s.warmup(1)
        return float(s.get_state()["state"]["_H_bar"])
    for d, hbar in explore(run):
        res.transitions += 1
        pts = [(p, ch) for (p, ch, _) in d.points]
        pos = [0]

        def decide(p_ref, kind):
            p_impl, ch = pts[pos[0]]
            pos[0] += 1
            return ch
        try:
            _, _, astat = ref_nuts(orb, kk, ell, D, decide, True)
        except Exception:
            continue
        a_impl = 0.6 - hbar * 11.0
        if not close(a_impl, astat, 1e-8):
            res.fail("C08|%s|acceptance-statistic|" % comp, "acceptance statistic %.10g fed to step-size adaptation != mean "
                     "Metropolis probability over the last doubling %.10g" % (a_impl, astat), focus={"start": kk, "choices": d.choices})
